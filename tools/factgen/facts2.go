package main

import (
	"go/ast"
	"go/token"
	"go/types"
	"sort"
	"strconv"
	"strings"

	"golang.org/x/tools/go/callgraph"
	"golang.org/x/tools/go/callgraph/cha"
	"golang.org/x/tools/go/callgraph/vta"
	"golang.org/x/tools/go/packages"
	"golang.org/x/tools/go/ssa"
	"golang.org/x/tools/go/ssa/ssautil"
)

func joinTuples(xs []string) string {
	if len(xs) == 0 {
		return "[]"
	}
	return "[\n    " + strings.Join(xs, ",\n    ") + "]"
}

// ---- printer ----------------------------------------------------------------------------

func factsPrinter(o *out, ps pkgs) {
	p := ps["IG-Parser/core/tree"]
	pt := findFunc(p, "PrintTree", "Statement")
	if pt == nil {
		fail("Statement.PrintTree not found")
	}
	// component order: sequence of `components = append(components, s.F, ...)` with their guard
	var groups []string
	var walk func(stmts []ast.Stmt, guard string)
	walk = func(stmts []ast.Stmt, guard string) {
		for _, s := range stmts {
			switch x := s.(type) {
			case *ast.AssignStmt:
				if len(x.Lhs) == 1 && exprStr(x.Lhs[0]) == "components" && len(x.Rhs) == 1 {
					if call, ok := x.Rhs[0].(*ast.CallExpr); ok && exprStr(call.Fun) == "append" {
						fs := []string{}
						for _, a := range call.Args[1:] {
							if sel, ok := a.(*ast.SelectorExpr); ok && exprStr(sel.X) == "s" {
								fs = append(fs, sel.Sel.Name)
							} else {
								fs = append(fs, "?"+exprStr(a))
							}
						}
						groups = append(groups, "("+lq(guard)+", "+lstrs(fs)+")")
					}
				}
			case *ast.IfStmt:
				c := exprStr(x.Cond)
				if c == "moveActivationConditionsToFront" {
					walk(x.Body.List, "acFirst")
				} else if c == "!moveActivationConditionsToFront" {
					walk(x.Body.List, "notAcFirst")
				}
			}
		}
	}
	walk(pt.Body.List, "always")
	if len(groups) == 0 {
		fail("PrintTree component order not found")
	}
	o.def("printTreeOrder", "List (String × List String)", joinTuples(groups))
	// recursive call sites with their argument tuples
	var sites []string
	for _, fn := range []struct{ name, recv string }{{"PrintTree", "Statement"}, {"PrintNodeTree", "Node"}, {"appendPropertyNodes", "Node"}} {
		fd := findFunc(p, fn.name, fn.recv)
		if fd == nil {
			fail("%s not found", fn.name)
		}
		ast.Inspect(fd.Body, func(n ast.Node) bool {
			call, ok := n.(*ast.CallExpr)
			if !ok {
				return true
			}
			sel, ok := call.Fun.(*ast.SelectorExpr)
			if !ok {
				return true
			}
			switch sel.Sel.Name {
			case "PrintTree", "PrintNodeTree", "appendPropertyNodes":
				args := []string{}
				for _, a := range call.Args {
					args = append(args, exprStr(a))
				}
				sites = append(sites, "("+lq(fn.name)+", "+lq(sel.Sel.Name)+", "+lq(exprStr(sel.X))+", "+lstrs(args)+")")
			}
			return true
		})
	}
	o.def("printerCallSites", "List (String × String × String × List String)", joinTuples(sites))
	// every non-constant string the printers write into the document
	var pw []string
	for _, fn := range []struct{ name, recv string }{{"PrintTree", "Statement"}, {"PrintNodeTree", "Node"}, {"appendPropertyNodes", "Node"}, {"appendAnnotations", "Node"}, {"appendDegreeOfVariability", "Node"}} {
		fd := findFunc(p, fn.name, fn.recv)
		if fd == nil {
			fail("%s not found", fn.name)
		}
		ast.Inspect(fd.Body, func(n ast.Node) bool {
			call, ok := n.(*ast.CallExpr)
			if !ok {
				return true
			}
			sel, ok := call.Fun.(*ast.SelectorExpr)
			if !ok || sel.Sel.Name != "WriteString" || len(call.Args) != 1 {
				return true
			}
			if _, isConst := constStr(p, call.Args[0]); isConst {
				return true
			}
			pw = append(pw, "("+lq(fn.name)+", "+lq(exprStr(call.Args[0]))+")")
			return true
		})
	}
	o.def("printerDynamicWrites", "List (String × String)", joinTuples(pw))
	// parameter names of the three printers
	var params []string
	for _, fn := range []struct{ name, recv string }{{"PrintTree", "Statement"}, {"PrintNodeTree", "Node"}, {"appendPropertyNodes", "Node"}} {
		fd := findFunc(p, fn.name, fn.recv)
		ns := []string{}
		for _, f := range fd.Type.Params.List {
			for _, n := range f.Names {
				ns = append(ns, n.Name)
			}
		}
		params = append(params, "("+lq(fn.name)+", "+lstrs(ns)+")")
	}
	o.def("printerParams", "List (String × List String)", joinTuples(params))
	// endpoint: arguments handed to the first PrintNodeTree
	ep := ps["IG-Parser/core/endpoints"]
	cv := findFunc(ep, "ConvertIGScriptToVisualTree", "")
	if cv == nil {
		fail("ConvertIGScriptToVisualTree not found")
	}
	var epArgs []string
	ast.Inspect(cv.Body, func(n ast.Node) bool {
		if call, ok := n.(*ast.CallExpr); ok {
			if sel, ok := call.Fun.(*ast.SelectorExpr); ok && sel.Sel.Name == "PrintNodeTree" {
				for _, a := range call.Args {
					epArgs = append(epArgs, exprStr(a))
				}
			}
		}
		return true
	})
	o.def("visualEndpointArgs", "List String", lstrs(epArgs))
	// GetPropertyComponent switch: component -> (simple field, complex field)
	gp := findFunc(p, "GetPropertyComponent", "Statement")
	if gp == nil {
		fail("GetPropertyComponent not found")
	}
	var props []string
	ast.Inspect(gp.Body, func(n ast.Node) bool {
		sw, ok := n.(*ast.SwitchStmt)
		if !ok {
			return true
		}
		for _, c := range sw.Body.List {
			cc := c.(*ast.CaseClause)
			if len(cc.List) != 1 {
				continue
			}
			sym, ok := constStr(p, cc.List[0])
			if !ok {
				continue
			}
			fs := []string{}
			ast.Inspect(cc, func(m ast.Node) bool {
				if call, ok := m.(*ast.CallExpr); ok && exprStr(call.Fun) == "append" && len(call.Args) == 2 {
					if sel, ok := call.Args[1].(*ast.SelectorExpr); ok {
						fs = append(fs, sel.Sel.Name)
					}
				}
				return true
			})
			props = append(props, "("+lq(sym)+", "+lstrs(fs)+")")
		}
		return false
	})
	o.def("propertyComponentTable", "List (String × List String)", joinTuples(props))
}

// ---- statement: copy wiring, leaf array order, flat string order --------------------------

func factsStatement(o *out, ps pkgs) {
	p := ps["IG-Parser/core/tree"]
	cc := findFunc(p, "CopyComponentsFromStatement", "")
	if cc == nil {
		fail("CopyComponentsFromStatement not found")
	}
	var copies []string
	for _, st := range cc.Body.List {
		as, ok := st.(*ast.AssignStmt)
		if !ok || len(as.Lhs) != 1 || len(as.Rhs) != 1 {
			continue
		}
		call, ok := as.Rhs[0].(*ast.CallExpr)
		if !ok || exprStr(call.Fun) != "copyComponentValue" || len(call.Args) != 2 {
			continue
		}
		copies = append(copies, "("+lq(exprStr(as.Lhs[0]))+", "+lq(exprStr(call.Args[0]))+", "+lq(exprStr(call.Args[1]))+")")
	}
	if len(copies) == 0 {
		fail("copy wiring not found")
	}
	o.def("copyWiring", "List (String × String × String)", joinTuples(copies))
	// copyComponentValue: operator used to combine target and source
	cv := findFunc(p, "copyComponentValue", "")
	if cv == nil {
		fail("copyComponentValue not found")
	}
	var comb []string
	ast.Inspect(cv.Body, func(n ast.Node) bool {
		if call, ok := n.(*ast.CallExpr); ok && exprStr(call.Fun) == "Combine" && len(call.Args) == 3 {
			opv, _ := constStr(p, call.Args[2])
			comb = append(comb, exprStr(call.Args[0]), exprStr(call.Args[1]), opv)
		}
		return true
	})
	o.def("copyCombine", "List String", lstrs(comb))
	// generateLeafArrays: order of getComponentLeafArray calls
	gl := findFunc(p, "generateLeafArrays", "Statement")
	if gl == nil {
		fail("generateLeafArrays not found")
	}
	var order []string
	ast.Inspect(gl.Body, func(n ast.Node) bool {
		if call, ok := n.(*ast.CallExpr); ok && exprStr(call.Fun) == "getComponentLeafArray" && len(call.Args) == 7 {
			sym, _ := constStr(p, call.Args[3])
			f := ""
			if sel, ok := call.Args[2].(*ast.SelectorExpr); ok {
				f = sel.Sel.Name
			}
			order = append(order, "("+lq(f)+", "+lq(sym)+", "+exprStr(call.Args[4])+")")
		}
		return true
	})
	if len(order) == 0 {
		fail("leaf array order not found")
	}
	o.def("leafArrayOrder", "List (String × String × Bool)", joinTuples(order))
	// StringFlat: order of printComponent calls
	for _, fn := range []string{"StringFlat", "StringFlatStatement"} {
		fd := findFunc(p, fn, "Statement")
		if fd == nil {
			fail("%s not found", fn)
		}
		var calls []string
		ast.Inspect(fd.Body, func(n ast.Node) bool {
			if call, ok := n.(*ast.CallExpr); ok {
				if sel, ok := call.Fun.(*ast.SelectorExpr); ok && sel.Sel.Name == "printComponent" && len(call.Args) == 7 {
					sym, _ := constStr(p, call.Args[3])
					f := ""
					if s2, ok := call.Args[2].(*ast.SelectorExpr); ok {
						f = s2.Sel.Name
					}
					calls = append(calls, "("+lq(f)+", "+lq(sym)+")")
				}
			}
			return true
		})
		o.def("order_"+fn, "List (String × String)", joinTuples(calls))
	}
}

// ---- degree of variability ---------------------------------------------------------------

func factsDov(o *out, ps pkgs) {
	p := ps["IG-Parser/core/tree"]
	cc := findFunc(p, "CalculateComplexity", "Statement")
	if cc == nil {
		fail("CalculateComplexity not found")
	}
	var binds []string
	var leading []string
	cond, total, agg := "", "", ""
	for _, s := range cc.Body.List {
		as, ok := s.(*ast.AssignStmt)
		if !ok || len(as.Rhs) != 1 {
			continue
		}
		if call, ok := as.Rhs[0].(*ast.CallExpr); ok {
			if sel, ok := call.Fun.(*ast.SelectorExpr); ok && sel.Sel.Name == "CalculateStateComplexity" && len(as.Lhs) == 2 {
				if fsel, ok := sel.X.(*ast.SelectorExpr); ok && exprStr(fsel.X) == "s" {
					binds = append(binds, "("+lq(exprStr(as.Lhs[0]))+", "+lq(fsel.Sel.Name)+")")
				}
			}
			if exprStr(call.Fun) == "shared.AggregateIfGreaterThan" && len(as.Lhs) == 1 {
				a := []string{}
				for _, x := range call.Args {
					a = append(a, exprStr(x))
				}
				agg = exprStr(as.Lhs[0]) + " := " + strings.Join(a, ",")
			}
			if exprStr(call.Fun) == "shared.FindMaxValue" && len(as.Lhs) == 1 {
				a := []string{}
				for _, x := range call.Args {
					a = append(a, exprStr(x))
				}
				cond = exprStr(as.Lhs[0]) + " := " + strings.Join(a, ",")
			}
		}
		if cl, ok := as.Rhs[0].(*ast.CompositeLit); ok && exprStr(as.Lhs[0]) == "leadingStmtStates" {
			for _, e := range cl.Elts {
				leading = append(leading, exprStr(e))
			}
		}
		if exprStr(as.Lhs[0]) == "results.TotalStateComplexity" {
			total = exprStr(as.Rhs[0])
		}
	}
	if len(binds) == 0 || len(leading) == 0 || cond == "" || total == "" || agg == "" {
		fail("CalculateComplexity wiring not found")
	}
	o.def("dovBindings", "List (String × String)", joinTuples(binds))
	o.def("dovLeading", "List String", lstrs(leading))
	o.def("dovAggregate", "String", lq(agg))
	o.def("dovCondition", "String", lq(cond))
	o.def("dovTotal", "String", lq(total))
	// Node.CalculateStateComplexity: operator conditions and returned expressions
	cs := findFunc(p, "CalculateStateComplexity", "Node")
	if cs == nil {
		fail("CalculateStateComplexity not found")
	}
	var cases []string
	ast.Inspect(cs.Body, func(n ast.Node) bool {
		ifs, ok := n.(*ast.IfStmt)
		if !ok {
			return true
		}
		c := exprStr(ifs.Cond)
		if strings.Contains(c, "n.LogicalOperator ==") {
			for _, s := range ifs.Body.List {
				if rs, ok := s.(*ast.ReturnStmt); ok && len(rs.Results) > 0 {
					// resolve the constants compared against
					opsv := []string{}
					ast.Inspect(ifs.Cond, func(m ast.Node) bool {
						if be, ok := m.(*ast.BinaryExpr); ok && be.Op == token.EQL {
							if v, ok := constStr(p, be.Y); ok {
								opsv = append(opsv, v)
							}
						}
						return true
					})
					cases = append(cases, "("+lstrs(opsv)+", "+lq(exprStr(rs.Results[0]))+")")
				}
			}
		}
		return true
	})
	if len(cases) == 0 {
		fail("CalculateStateComplexity operator cases not found")
	}
	o.def("dovNodeCases", "List (List String × String)", joinTuples(cases))
	// helper bodies (as normalised source text) so that a changed helper changes a fact
	sh := ps["IG-Parser/core/shared"]
	for _, fn := range []string{"AggregateIfGreaterThan", "FindMaxValue"} {
		fd := findFunc(sh, fn, "")
		if fd == nil {
			fail("%s not found", fn)
		}
		var toks []string
		ast.Inspect(fd.Body, func(n ast.Node) bool {
			switch x := n.(type) {
			case *ast.AssignStmt:
				toks = append(toks, exprStrs(x.Lhs)+" "+x.Tok.String()+" "+exprStrs(x.Rhs))
			case *ast.IfStmt:
				toks = append(toks, "if "+exprStr(x.Cond))
			case *ast.ReturnStmt:
				toks = append(toks, "return "+exprStrs(x.Results))
			case *ast.ForStmt:
				toks = append(toks, "for "+exprStr2(x.Cond))
			}
			return true
		})
		o.def("helper_"+fn, "List String", lstrs(toks))
	}
}

func exprStrs(es []ast.Expr) string {
	s := []string{}
	for _, e := range es {
		s = append(s, exprStr(e))
	}
	return strings.Join(s, ", ")
}

// ---- tabular ------------------------------------------------------------------------------

func enclosingFuncs(p *packages.Package, visit func(fn string, fd *ast.FuncDecl)) {
	for _, f := range p.Syntax {
		if strings.HasSuffix(fset.Position(f.Pos()).Filename, "_test.go") {
			continue
		}
		for _, d := range f.Decls {
			if fd, ok := d.(*ast.FuncDecl); ok && fd.Body != nil {
				name := fd.Name.Name
				if fd.Recv != nil && len(fd.Recv.List) == 1 {
					t := fd.Recv.List[0].Type
					if st, ok := t.(*ast.StarExpr); ok {
						t = st.X
					}
					name = exprStr(t) + "." + name
				}
				visit(name, fd)
			}
		}
	}
}

func factsTabular(o *out, ps pkgs) {
	p := ps["IG-Parser/core/exporter/tabular"]
	// static schema: key, guarded by include_ANNOTATIONS?
	gs := findFunc(p, "GetStaticTabularOutputSchema", "")
	if gs == nil {
		fail("GetStaticTabularOutputSchema not found")
	}
	var schema []string
	var walk func(stmts []ast.Stmt, guard string)
	walk = func(stmts []ast.Stmt, guard string) {
		for _, s := range stmts {
			switch x := s.(type) {
			case *ast.AssignStmt:
				if ie, ok := x.Lhs[0].(*ast.IndexExpr); ok && exprStr(ie.X) == "staticComponentFrequency" {
					k, ok := constStr(p, ie.Index)
					if !ok {
						fail("static schema: non-constant key")
					}
					schema = append(schema, "("+lq(k)+", "+lq(guard)+", "+exprStr(x.Rhs[0])+")")
				}
			case *ast.IfStmt:
				walk(x.Body.List, exprStr(x.Cond))
			}
		}
	}
	walk(gs.Body.List, "")
	o.def("staticSchema", "List (String × String × Nat)", joinTuples(schema))
	// call sites of ProduceIGExtendedOutput / ProduceDynamicOutput / IncludeAnnotations, per function
	var ext []string
	enclosingFuncs(p, func(fn string, fd *ast.FuncDecl) {
		cnt := map[string]int{}
		ast.Inspect(fd.Body, func(n ast.Node) bool {
			if call, ok := n.(*ast.CallExpr); ok {
				f := exprStr(call.Fun)
				switch f {
				case "ProduceIGExtendedOutput", "ProduceDynamicOutput", "IncludeAnnotations", "IncludeSharedElementsInTabularOutput", "CollapseOperators":
					cnt[f]++
				}
			}
			return true
		})
		ks := []string{}
		for k := range cnt {
			ks = append(ks, k)
		}
		sort.Strings(ks)
		for _, k := range ks {
			ext = append(ext, "("+lq(fn)+", "+lq(k)+", "+strconv.Itoa(cnt[k])+")")
		}
	})
	o.def("tabularSwitchReads", "List (String × String × Nat)", joinTuples(ext))
	// sanitiser flow: what is written into entryMap[...] in generateStatementMatrix and what is
	// written by printTabularOutput, plus every call of the three sanitisers
	gm := findFunc(p, "generateStatementMatrix", "")
	if gm == nil {
		fail("generateStatementMatrix not found")
	}
	var writes []string
	ast.Inspect(gm.Body, func(n ast.Node) bool {
		if as, ok := n.(*ast.AssignStmt); ok {
			for i, l := range as.Lhs {
				if ie, ok := l.(*ast.IndexExpr); ok && exprStr(ie.X) == "entryMap" && i < len(as.Rhs) {
					writes = append(writes, "("+lq(exprStr(ie.Index))+", "+lq(as.Tok.String())+", "+lq(exprStr(as.Rhs[i]))+")")
				}
			}
		}
		return true
	})
	o.def("entryMapWrites", "List (String × String × String)", joinTuples(writes))
	po := findFunc(p, "printTabularOutput", "")
	if po == nil {
		fail("printTabularOutput not found")
	}
	var bw []string
	ast.Inspect(po.Body, func(n ast.Node) bool {
		if call, ok := n.(*ast.CallExpr); ok && exprStr(call.Fun) == "builder.WriteString" {
			bw = append(bw, exprStr(call.Args[0]))
		}
		return true
	})
	o.def("printTabularWrites", "List String", lstrs(bw))
	var san []string
	for _, pk := range []string{"IG-Parser/core/exporter/tabular", "IG-Parser/core/endpoints", "IG-Parser/core/tree"} {
		enclosingFuncs(ps[pk], func(fn string, fd *ast.FuncDecl) {
			ast.Inspect(fd.Body, func(n ast.Node) bool {
				if call, ok := n.(*ast.CallExpr); ok {
					f := exprStr(call.Fun)
					f = strings.TrimPrefix(strings.TrimPrefix(f, "tabular."), "shared.")
					switch f {
					case "CleanInput", "performOutputSpecificAdjustments", "EscapeSymbolsForExport", "escapeForTreeOutput":
						a := []string{}
						for _, x := range call.Args {
							a = append(a, exprStr(x))
						}
						san = append(san, "("+lq(fn)+", "+lq(f)+", "+lstrs(a)+")")
					}
				}
				return true
			})
		})
	}
	o.def("sanitiserCalls", "List (String × String × List String)", joinTuples(san))
	// arguments of the nested recursive call and of the endpoint's call into the generator
	var rec []string
	for _, pk := range []string{"IG-Parser/core/exporter/tabular", "IG-Parser/core/endpoints"} {
		enclosingFuncs(ps[pk], func(fn string, fd *ast.FuncDecl) {
			ast.Inspect(fd.Body, func(n ast.Node) bool {
				if call, ok := n.(*ast.CallExpr); ok {
					f := strings.TrimPrefix(exprStr(call.Fun), "tabular.")
					switch f {
					case "GenerateTabularOutputFromParsedStatement", "GenerateTabularOutputFromParsedStatements", "generateStatementMatrix", "generateCSVOutput", "generateGoogleSheetsOutput", "printTabularOutput":
						a := []string{}
						for _, x := range call.Args {
							a = append(a, exprStr(x))
						}
						rec = append(rec, "("+lq(fn)+", "+lq(f)+", "+lstrs(a)+")")
					}
				}
				return true
			})
		})
	}
	o.def("tabularCallArgs", "List (String × String × List String)", joinTuples(rec))
	// which operators are merged when adjacent: the operator list handed to CollapseAdjacentOperators, per call site
	var col []string
	enclosingFuncs(ps["IG-Parser/core/exporter/tabular"], func(fn string, fd *ast.FuncDecl) {
		ast.Inspect(fd.Body, func(n ast.Node) bool {
			if call, ok := n.(*ast.CallExpr); ok && exprStr(call.Fun) == "tree.CollapseAdjacentOperators" && len(call.Args) == 2 {
				col = append(col, "("+lq(fn)+", "+lq(exprStr(call.Args[1]))+")")
			}
			return true
		})
	})
	o.def("collapseCallSites", "List (String × String)", joinTuples(col))
}

// ---- range over maps ------------------------------------------------------------------------

func factsMapRanges(o *out, ps pkgs) {
	var sites []string
	for _, pk := range []string{"IG-Parser/core/parser", "IG-Parser/core/tree", "IG-Parser/core/exporter/tabular", "IG-Parser/core/endpoints", "IG-Parser/core/shared"} {
		p := ps[pk]
		enclosingFuncs(p, func(fn string, fd *ast.FuncDecl) {
			ast.Inspect(fd.Body, func(n ast.Node) bool {
				rs, ok := n.(*ast.RangeStmt)
				if !ok {
					return true
				}
				tv, ok := p.TypesInfo.Types[rs.X]
				if !ok {
					return true
				}
				if _, isMap := tv.Type.Underlying().(*types.Map); isMap {
					short := pk[strings.LastIndex(pk, "/")+1:]
					sites = append(sites, "("+lq(short+"."+fn)+", "+lq(exprStr(rs.X))+", "+lq(exprStr2(rs.Key))+", "+lq(exprStr2(rs.Value))+")")
				}
				return true
			})
		})
	}
	sort.Strings(sites)
	o.def("mapRangeSites", "List (String × String × String × String)", joinTuples(sites))
	// other sources of run-to-run variation in the conversion packages: goroutines, select, random numbers, clock
	var conc []string
	for _, pk := range []string{"IG-Parser/core/parser", "IG-Parser/core/tree", "IG-Parser/core/exporter/tabular", "IG-Parser/core/endpoints", "IG-Parser/core/shared"} {
		p := ps[pk]
		short := pk[strings.LastIndex(pk, "/")+1:]
		for _, f := range p.Syntax {
			for _, im := range f.Imports {
				path := strings.Trim(im.Path.Value, "\"")
				if path == "math/rand" || path == "math/rand/v2" || path == "crypto/rand" || path == "time" || path == "sync" || path == "sync/atomic" {
					conc = append(conc, "("+lq(short)+", "+lq("import "+path)+")")
				}
			}
		}
		enclosingFuncs(p, func(fn string, fd *ast.FuncDecl) {
			ast.Inspect(fd.Body, func(n ast.Node) bool {
				switch n.(type) {
				case *ast.GoStmt:
					conc = append(conc, "("+lq(short+"."+fn)+", "+lq("go statement")+")")
				case *ast.SelectStmt:
					conc = append(conc, "("+lq(short+"."+fn)+", "+lq("select statement")+")")
				}
				return true
			})
		})
	}
	sort.Strings(conc)
	o.def("nondeterminismSources", "List (String × String)", joinTuples(conc))
	// calls that end the process or unwind the stack in the conversion packages
	var fatal []string
	for _, pk := range []string{"IG-Parser/core/parser", "IG-Parser/core/tree", "IG-Parser/core/exporter/tabular", "IG-Parser/core/endpoints", "IG-Parser/core/shared"} {
		p := ps[pk]
		short := pk[strings.LastIndex(pk, "/")+1:]
		enclosingFuncs(p, func(fn string, fd *ast.FuncDecl) {
			ast.Inspect(fd.Body, func(n ast.Node) bool {
				if call, ok := n.(*ast.CallExpr); ok {
					f := exprStr(call.Fun)
					switch f {
					case "log.Fatal", "log.Fatalf", "log.Fatalln", "log.Panic", "log.Panicf", "log.Panicln", "os.Exit", "panic":
						fatal = append(fatal, "("+lq(short+"."+fn)+", "+lq(f)+")")
					}
				}
				return true
			})
		})
	}
	sort.Strings(fatal)
	o.def("fatalCallSites", "List (String × String)", joinTuples(fatal))
}

// ---- web ------------------------------------------------------------------------------------

func factsWeb(o *out, ps pkgs) {
	p := ps["IG-Parser/web/converter"]
	var setters []string
	var endpointArgs []string
	var params []string
	for _, h := range []string{"handleTabularOutput", "handleVisualOutput"} {
		fd := findFunc(p, h, "")
		if fd == nil {
			fail("%s not found", h)
		}
		ns := []string{}
		for _, f := range fd.Type.Params.List {
			for _, n := range f.Names {
				ns = append(ns, n.Name)
			}
		}
		params = append(params, "("+lq(h)+", "+lstrs(ns)+")")
		ast.Inspect(fd.Body, func(n ast.Node) bool {
			call, ok := n.(*ast.CallExpr)
			if !ok {
				return true
			}
			f := exprStr(call.Fun)
			if strings.HasPrefix(f, "tabular.Set") || strings.HasPrefix(f, "tree.Set") || f == "shared.SetDefaultConfig" {
				a := []string{}
				for _, x := range call.Args {
					a = append(a, exprStr(x))
				}
				setters = append(setters, "("+lq(h)+", "+lq(f)+", "+lstrs(a)+")")
			}
			if strings.HasPrefix(f, "endpoints.Convert") {
				a := []string{}
				for _, x := range call.Args {
					a = append(a, exprStr(x))
				}
				endpointArgs = append(endpointArgs, "("+lq(h)+", "+lq(f)+", "+lstrs(a)+")")
			}
			return true
		})
	}
	sp := ps["IG-Parser/web/converter/shared"]
	if sd := findFunc(sp, "SetDefaultConfig", ""); sd != nil {
		ast.Inspect(sd.Body, func(n ast.Node) bool {
			if call, ok := n.(*ast.CallExpr); ok {
				f := exprStr(call.Fun)
				if strings.HasPrefix(f, "tabular.Set") || strings.HasPrefix(f, "tree.Set") {
					a := []string{}
					for _, x := range call.Args {
						a = append(a, exprStr(x))
					}
					setters = append(setters, "("+lq("SetDefaultConfig")+", "+lq(f)+", "+lstrs(a)+")")
				}
			}
			return true
		})
	} else {
		fail("SetDefaultConfig not found")
	}
	// endpoints themselves set switches too
	ep := ps["IG-Parser/core/endpoints"]
	for _, e := range []string{"ConvertIGScriptToTabularOutput", "ConvertIGScriptToVisualTree"} {
		fd := findFunc(ep, e, "")
		ast.Inspect(fd.Body, func(n ast.Node) bool {
			if call, ok := n.(*ast.CallExpr); ok {
				f := exprStr(call.Fun)
				if strings.HasPrefix(f, "tabular.Set") || strings.HasPrefix(f, "tree.Set") {
					a := []string{}
					for _, x := range call.Args {
						a = append(a, exprStr(x))
					}
					setters = append(setters, "("+lq(e)+", "+lq(f)+", "+lstrs(a)+")")
				}
			}
			return true
		})
	}
	o.def("handlerSetters", "List (String × String × List String)", joinTuples(setters))
	o.def("handlerEndpointArgs", "List (String × String × List String)", joinTuples(endpointArgs))
	o.def("handlerParams", "List (String × List String)", joinTuples(params))
	// converterHandler -> handleX positional arguments, and any mutual exclusion in the package
	ch := findFunc(p, "converterHandler", "")
	if ch == nil {
		fail("converterHandler not found")
	}
	var handoff []string
	ast.Inspect(ch.Body, func(n ast.Node) bool {
		if call, ok := n.(*ast.CallExpr); ok {
			f := exprStr(call.Fun)
			if f == "handleTabularOutput" || f == "handleVisualOutput" {
				a := []string{}
				for _, x := range call.Args {
					a = append(a, exprStr(x))
				}
				handoff = append(handoff, "("+lq(f)+", "+lstrs(a)+")")
			}
		}
		return true
	})
	o.def("handlerHandoff", "List (String × List String)", joinTuples(handoff))
	// form value -> variable bindings in converterHandler
	var forms []string
	ast.Inspect(ch.Body, func(n ast.Node) bool {
		if as, ok := n.(*ast.AssignStmt); ok && len(as.Rhs) == 1 && len(as.Lhs) == 1 {
			if call, ok := as.Rhs[0].(*ast.CallExpr); ok && exprStr(call.Fun) == "r.FormValue" && len(call.Args) == 1 {
				if v, ok := constStr(p, call.Args[0]); ok {
					forms = append(forms, "("+lq(exprStr(as.Lhs[0]))+", "+lq(v)+")")
				}
			}
		}
		return true
	})
	o.def("formBindings", "List (String × String)", joinTuples(forms))
	// lock calls: function, method, and statement index of the call within converterHandler
	var locks []string
	enclosingFuncs(p, func(fn string, fd *ast.FuncDecl) {
		ast.Inspect(fd.Body, func(n ast.Node) bool {
			if call, ok := n.(*ast.CallExpr); ok {
				if sel, ok := call.Fun.(*ast.SelectorExpr); ok {
					switch sel.Sel.Name {
					case "Lock", "Unlock", "RLock", "RUnlock":
						locks = append(locks, "("+lq(fn)+", "+lq(exprStr(sel.X))+", "+lq(sel.Sel.Name)+")")
					}
				}
			}
			return true
		})
	})
	o.def("converterLockCalls", "List (String × String × String)", joinTuples(locks))
	// order of the top-level statements of converterHandler that matter for mutual exclusion:
	// position (statement index) of the first Lock, of the first r.FormValue, and of the last statement
	firstLock, deferUnlock := -1, -1
	for i, s := range ch.Body.List {
		ast.Inspect(s, func(n ast.Node) bool {
			if call, ok := n.(*ast.CallExpr); ok {
				if sel, ok := call.Fun.(*ast.SelectorExpr); ok && sel.Sel.Name == "Lock" && firstLock < 0 {
					firstLock = i
				}
			}
			return true
		})
		if ds, ok := s.(*ast.DeferStmt); ok {
			if sel, ok := ds.Call.Fun.(*ast.SelectorExpr); ok && sel.Sel.Name == "Unlock" && deferUnlock < 0 {
				deferUnlock = i
			}
		}
	}
	o.def("converterHandlerLockShape", "Int × Int", "("+strconv.Itoa(firstLock)+", "+strconv.Itoa(deferUnlock)+")")
	// indices of the top-level statements of converterHandler that touch process-global state:
	// assignments to package-level variables and the delegation to the output-specific handlers
	var touching []string
	for i, st := range ch.Body.List {
		touches := false
		ast.Inspect(st, func(n ast.Node) bool {
			switch x := n.(type) {
			case *ast.CallExpr:
				f := exprStr(x.Fun)
				if f == "handleTabularOutput" || f == "handleVisualOutput" || strings.HasPrefix(f, "tabular.Set") || strings.HasPrefix(f, "tree.Set") || f == "helper.SaveOutputToFile" {
					touches = true
				}
			case *ast.AssignStmt:
				for _, l := range x.Lhs {
					if id, ok := l.(*ast.Ident); ok {
						if obj := p.TypesInfo.ObjectOf(id); obj != nil {
							if v, ok := obj.(*types.Var); ok && v.Parent() == p.Types.Scope() {
								touches = true
							}
						}
					}
					if sel, ok := l.(*ast.SelectorExpr); ok {
						if obj := p.TypesInfo.ObjectOf(sel.Sel); obj != nil {
							if v, ok := obj.(*types.Var); ok && v.Pkg() != nil && v.Parent() == v.Pkg().Scope() {
								touches = true
							}
						}
					}
				}
			}
			return true
		})
		if touches {
			touching = append(touching, strconv.Itoa(i))
		}
	}
	o.def("converterHandlerGlobalStmts", "List Int", "["+strings.Join(touching, ", ")+"]")
}

// ---- global variable read/write sets (SSA) ---------------------------------------------------

func factsGlobals(o *out, loaded []*packages.Package, ps pkgs) {
	prog, _ := ssautil.AllPackages(loaded, ssa.InstantiateGenerics)
	prog.Build()
	cg := vta.CallGraph(ssautil.AllFunctions(prog), cha.CallGraph(prog))
	roots := []string{"ConvertIGScriptToTabularOutput", "ConvertIGScriptToVisualTree", "handleTabularOutput", "handleVisualOutput", "converterHandler"}
	isRoot := map[string]bool{}
	for _, r := range roots {
		isRoot[r] = true
	}
	res := map[string][2][]string{}
	for fn, node := range cg.Nodes {
		if fn == nil || !isRoot[fn.Name()] || fn.Pkg == nil || !strings.HasPrefix(fn.Pkg.Pkg.Path(), "IG-Parser") {
			continue
		}
		seen := map[*callgraph.Node]bool{}
		stack := []*callgraph.Node{node}
		reads, writes := map[string]bool{}, map[string]bool{}
		for len(stack) > 0 {
			n := stack[len(stack)-1]
			stack = stack[:len(stack)-1]
			if seen[n] {
				continue
			}
			seen[n] = true
			if n.Func != nil && n.Func.Pkg != nil && strings.HasPrefix(n.Func.Pkg.Pkg.Path(), "IG-Parser") {
				for _, b := range n.Func.Blocks {
					for _, ins := range b.Instrs {
						switch v := ins.(type) {
						case *ssa.Store:
							if g, ok := v.Addr.(*ssa.Global); ok && isMutableVar(g) {
								writes[g.Pkg.Pkg.Name()+"."+g.Name()] = true
							}
						case *ssa.UnOp:
							if g, ok := v.X.(*ssa.Global); ok && v.Op == token.MUL && isMutableVar(g) {
								reads[g.Pkg.Pkg.Name()+"."+g.Name()] = true
							}
						}
					}
				}
				for _, e := range n.Out {
					stack = append(stack, e.Callee)
				}
			}
		}
		var r, w []string
		for k := range reads {
			r = append(r, k)
		}
		for k := range writes {
			w = append(w, k)
		}
		sort.Strings(r)
		sort.Strings(w)
		res[fn.Name()] = [2][]string{r, w}
	}
	var lines []string
	for _, r := range roots {
		if v, ok := res[r]; ok {
			lines = append(lines, "("+lq(r)+", "+lstrs(v[0])+", "+lstrs(v[1])+")")
		} else {
			fail("root %s not in call graph", r)
		}
	}
	o.def("globalAccess", "List (String × List String × List String)", joinTuples(lines))
	// setter -> global it stores to
	var sets []string
	for fn := range cg.Nodes {
		if fn == nil || fn.Pkg == nil || !strings.HasPrefix(fn.Pkg.Pkg.Path(), "IG-Parser") || !strings.HasPrefix(fn.Name(), "Set") {
			continue
		}
		ws := map[string]bool{}
		for _, b := range fn.Blocks {
			for _, ins := range b.Instrs {
				if st, ok := ins.(*ssa.Store); ok {
					if g, ok := st.Addr.(*ssa.Global); ok && isMutableVar(g) {
						ws[g.Pkg.Pkg.Name()+"."+g.Name()] = true
					}
				}
			}
		}
		var w []string
		for k := range ws {
			w = append(w, k)
		}
		sort.Strings(w)
		sets = append(sets, "("+lq(fn.Pkg.Pkg.Name()+"."+fn.Name())+", "+lstrs(w)+")")
	}
	sort.Strings(sets)
	o.def("setterWrites", "List (String × List String)", joinTuples(sets))
}

// package-level variables that hold configuration; debug/logging switches and tables that are
// never assigned after init are still reported (the Lean side decides what is covered)
func isMutableVar(g *ssa.Global) bool {
	if g.Pkg == nil {
		return false
	}
	n := g.Name()
	if strings.HasPrefix(n, "init$") {
		return false
	}
	return strings.HasPrefix(g.Pkg.Pkg.Path(), "IG-Parser")
}
