package main

import (
	"IG-Parser/core/tree"
	"reflect"
)

// J is a JSON object.
type J = map[string]interface{}

func strOf(x interface{}) (string, bool) {
	if x == nil {
		return "", false
	}
	s, ok := x.(string)
	return s, ok
}

// dumpNode renders a *tree.Node as canonical JSON (see lean/IGVerif/Model/PTree.lean: PNode).
// Parent pointers are not dumped but verified: `pbad` counts children whose Parent does not
// point back at the node that holds them.
func dumpNode(n *tree.Node, pbad *int, depth int) interface{} {
	if n == nil {
		return J{"k": "N"}
	}
	if depth > 200 {
		return J{"k": "DEEP"}
	}
	out := J{}
	if n.Suffix != nil {
		if s, ok := strOf(n.Suffix); ok {
			out["sfx"] = s
		}
	}
	if n.Annotations != nil {
		if s, ok := strOf(n.Annotations); ok {
			out["ann"] = s
		}
	}
	if len(n.SharedLeft) > 0 {
		out["sl"] = n.SharedLeft
	}
	if len(n.SharedRight) > 0 {
		out["sr"] = n.SharedRight
	}
	if n.ComponentType != "" {
		out["ct"] = n.ComponentType
	}
	if len(n.PrivateNodeLinks) > 0 {
		p := []interface{}{}
		for _, x := range n.PrivateNodeLinks {
			p = append(p, dumpNode(x, pbad, depth+1))
		}
		out["priv"] = p
	}
	if n.Left != nil || n.Right != nil {
		out["k"] = "C"
		out["op"] = n.LogicalOperator
		if n.Left != nil && n.Left.Parent != n {
			*pbad++
		}
		if n.Right != nil && n.Right.Parent != n {
			*pbad++
		}
		out["l"] = dumpNode(n.Left, pbad, depth+1)
		out["r"] = dumpNode(n.Right, pbad, depth+1)
		return out
	}
	switch e := n.Entry.(type) {
	case string:
		out["k"] = "L"
		out["t"] = e
		out["c"] = n.GetComponentName()
		if esl := n.GetSharedLeft(); len(esl) > 0 {
			out["esl"] = esl
		}
		if esr := n.GetSharedRight(); len(esr) > 0 {
			out["esr"] = esr
		}
		if a := n.GetAnnotations(); a != nil {
			if s, ok := strOf(a); ok && s != "" {
				out["eann"] = s
			}
		}
		if s := safeSuffix(n); s != "" {
			out["esfx"] = s
		}
	case *tree.Statement:
		out["k"] = "S"
		out["c"] = n.GetComponentName()
		out["s"] = dumpStmt(e, pbad, depth+1)
	case []*tree.Node:
		out["k"] = "P"
		out["c"] = n.GetComponentName()
		p := []interface{}{}
		for _, x := range e {
			p = append(p, dumpNode(x, pbad, depth+1))
		}
		out["n"] = p
	case nil:
		out["k"] = "E"
	default:
		out["k"] = "?"
		out["type"] = reflect.TypeOf(n.Entry).String()
	}
	return out
}

func safeSuffix(n *tree.Node) (s string) {
	defer func() { recover() }()
	return n.GetSuffix()
}

// dumpStmt lists the populated fields in declaration order of tree.Statement.
func dumpStmt(s *tree.Statement, pbad *int, depth int) interface{} {
	if s == nil {
		return []interface{}{}
	}
	v := reflect.ValueOf(s).Elem()
	t := v.Type()
	parts := []interface{}{}
	for i := 0; i < v.NumField(); i++ {
		f := v.Field(i)
		if f.Kind() == reflect.Ptr && !f.IsNil() {
			if nd, ok := f.Interface().(*tree.Node); ok {
				parts = append(parts, []interface{}{t.Field(i).Name, dumpNode(nd, pbad, depth)})
			}
		}
	}
	return parts
}
