package main

import (
	"os"
	"path/filepath"
	"IG-Parser/core/endpoints"
	"IG-Parser/core/exporter/tabular"
	"IG-Parser/core/parser"
	"IG-Parser/core/shared"
	"IG-Parser/core/tree"
	"encoding/json"
	"fmt"
	"strconv"
	"strings"
)

type opFn func(a map[string]interface{}) (st string, code string, obs interface{})

var ops = map[string]opFn{}

func init() {
	ops["odo"] = opOdo
	ops["refs"] = opRefs
	ops["link"] = opLink
	ops["collapse"] = opCollapse
	ops["pint"] = opPint
	ops["parse"] = opParse
	ops["tab"] = opTab
	ops["vis"] = opVis
	ops["conv"] = opConv
	ops["dov"] = opDov
	ops["clean"] = opClean
	ops["validate"] = opValidate
	ops["combo"] = opCombo
	ops["ctype"] = opCtype
	ops["escape"] = opEscape
	ops["agg"] = opAgg
	ops["fmax"] = opFmax
	ops["dup"] = opDup
	ops["merge"] = opMerge
	ops["leaves"] = opLeaves
	ops["remove"] = opRemove
	ops["sleep"] = func(a map[string]interface{}) (string, string, interface{}) { select {} }
}

// ---- argument helpers ------------------------------------------------------------------

func aStr(a map[string]interface{}, k string) string {
	if v, ok := a[k]; ok {
		if s, ok := v.(string); ok {
			return s
		}
	}
	return ""
}
func aBool(a map[string]interface{}, k string) bool {
	if v, ok := a[k]; ok {
		switch x := v.(type) {
		case bool:
			return x
		case float64:
			return x != 0
		}
	}
	return false
}
func aInt(a map[string]interface{}, k string) int {
	if v, ok := a[k]; ok {
		if f, ok := v.(float64); ok {
			return int(f)
		}
	}
	return 0
}
func aInts(a map[string]interface{}, k string) []int {
	out := []int{}
	if v, ok := a[k]; ok {
		if l, ok := v.([]interface{}); ok {
			for _, x := range l {
				if f, ok := x.(float64); ok {
					out = append(out, int(f))
				}
			}
		}
	}
	return out
}
func aStrs(a map[string]interface{}, k string) []string {
	out := []string{}
	if v, ok := a[k]; ok {
		if l, ok := v.([]interface{}); ok {
			for _, x := range l {
				if s, ok := x.(string); ok {
					out = append(out, s)
				}
			}
		}
	}
	return out
}

// ---- unit-level ops ---------------------------------------------------------------------

// odo: tree.GenerateNodeArrayPermutations on arrays of the given lengths; element j of array
// i is a node with entry "i.j"; observation = rows of entries.
func opOdo(a map[string]interface{}) (string, string, interface{}) {
	lens := aInts(a, "lens")
	arrays := make([][]*tree.Node, len(lens))
	for i, l := range lens {
		arrays[i] = make([]*tree.Node, l)
		for j := 0; j < l; j++ {
			arrays[i][j] = &tree.Node{Entry: strconv.Itoa(i) + "." + strconv.Itoa(j)}
		}
	}
	res, err := tree.GenerateNodeArrayPermutations(arrays...)
	if err.ErrorCode != tree.PARSING_NO_ERROR {
		return "err", err.ErrorCode, nil
	}
	rows := make([][]string, len(res))
	for i, r := range res {
		rows[i] = []string{}
		for _, n := range r {
			if n == nil {
				rows[i] = append(rows[i], "nil")
			} else {
				rows[i] = append(rows[i], n.Entry.(string))
			}
		}
	}
	obs := J{"rows": rows}
	if aBool(a, "links") && len(res) > 0 {
		// also GenerateLogicalOperatorLinkagePerCombination(res, true, true) per column
		links := tree.GenerateLogicalOperatorLinkagePerCombination(res, true, true)
		cols := []interface{}{}
		for ci, m := range links {
			col := [][]interface{}{}
			if ci < len(arrays) {
				// report in array order for determinism
				seen := map[*tree.Node]bool{}
				for _, arr := range arrays {
					for _, n := range arr {
						if v, ok := m[n]; ok && !seen[n] {
							seen[n] = true
							col = append(col, []interface{}{n.Entry.(string), v})
						}
					}
				}
			}
			cols = append(cols, col)
		}
		obs["links"] = cols
	}
	return "ok", "", obs
}

// refs: fold tree.GenerateReferenceSlice over ids.
func opRefs(a map[string]interface{}) (string, string, interface{}) {
	ids := aInts(a, "ids")
	var refs []string
	if pre := aStrs(a, "pre"); len(pre) > 0 {
		refs = pre
	}
	for _, id := range ids {
		refs = tree.GenerateReferenceSlice(refs, id, aBool(a, "ranges"), aBool(a, "incr"))
	}
	if refs == nil {
		refs = []string{}
	}
	return "ok", "", refs
}

// tree spec: {"op":..,"l":..,"r":..} | {"t":"leaf text"} ; optional "sl","sr","ct","stmt":true
func buildTree(spec interface{}, leaves *[]*tree.Node) *tree.Node {
	m, ok := spec.(map[string]interface{})
	if !ok {
		return nil
	}
	n := &tree.Node{}
	if ct := aStr(m, "ct"); ct != "" {
		n.ComponentType = ct
	}
	if sl := aStrs(m, "sl"); len(sl) > 0 {
		n.SharedLeft = sl
	}
	if sr := aStrs(m, "sr"); len(sr) > 0 {
		n.SharedRight = sr
	}
	if _, isComb := m["op"]; isComb {
		n.LogicalOperator = aStr(m, "op")
		n.Left = buildTree(m["l"], leaves)
		n.Right = buildTree(m["r"], leaves)
		if n.Left != nil {
			n.Left.Parent = n
		}
		if n.Right != nil {
			n.Right.Parent = n
		}
		return n
	}
	if aBool(m, "stmt") {
		n.Entry = &tree.Statement{Aim: &tree.Node{Entry: aStr(m, "t")}}
	} else {
		n.Entry = aStr(m, "t")
	}
	*leaves = append(*leaves, n)
	return n
}

// link: FindLogicalLinkage for every ordered pair of leaves of a tree.
func opLink(a map[string]interface{}) (string, string, interface{}) {
	leaves := []*tree.Node{}
	root := buildTree(a["tree"], &leaves)
	_ = root
	out := []interface{}{}
	for i, p := range leaves {
		for j, q := range leaves {
			if i == j {
				continue
			}
			found, ops, err := tree.FindLogicalLinkage(p, q)
			if ops == nil {
				ops = []string{}
			}
			if aBool(a, "collapse") {
				ops = tree.CollapseAdjacentOperators(ops, []string{tree.AND, tree.SAND_BETWEEN_COMPONENTS, tree.SAND_WITHIN_COMPONENTS})
			}
			out = append(out, J{"i": i, "j": j, "f": found, "ops": ops, "e": err.ErrorCode})
		}
	}
	return "ok", "", out
}

func opCollapse(a map[string]interface{}) (string, string, interface{}) {
	return "ok", "", tree.CollapseAdjacentOperators(aStrs(a, "ops"), aStrs(a, "cl"))
}

// leaves: GetLeafNodes(aggregate) of a built tree -> arrays of leaf texts
func opLeaves(a map[string]interface{}) (string, string, interface{}) {
	lv := []*tree.Node{}
	root := buildTree(a["tree"], &lv)
	res := root.GetLeafNodes(aBool(a, "agg"))
	out := [][]string{}
	for _, arr := range res {
		o := []string{}
		for _, n := range arr {
			s, _ := strOf(n.Entry)
			o = append(o, s)
		}
		out = append(out, o)
	}
	dv, derr := root.CalculateStateComplexity()
	return "ok", "", J{"arrays": out, "dov": dv, "doverr": derr.ErrorCode, "count": root.CountLeaves()}
}

// remove: RemoveNodeFromTree for a sequence of leaf indices; dump the tree reachable from the
// original root pointer afterwards.
func opRemove(a map[string]interface{}) (string, string, interface{}) {
	lv := []*tree.Node{}
	root := buildTree(a["tree"], &lv)
	oks := []bool{}
	for _, i := range aInts(a, "idx") {
		if i < 0 || i >= len(lv) {
			continue
		}
		ok, _ := tree.RemoveNodeFromTree(lv[i])
		oks = append(oks, ok)
	}
	pbad := 0
	return "ok", "", J{"tree": dumpNode(root, &pbad, 0), "pbad": pbad, "oks": oks}
}

// pint: parser.ParseIntoNodeTree(text, false, "(", ")")
func opPint(a map[string]interface{}) (string, string, interface{}) {
	l, r := "(", ")"
	if aBool(a, "braces") {
		l, r = "{", "}"
	}
	n, rest, err := parser.ParseIntoNodeTree(aStr(a, "text"), false, l, r)
	if err.ErrorCode != tree.PARSING_NO_ERROR {
		return "err", err.ErrorCode, nil
	}
	pbad := 0
	return "ok", "", J{"tree": dumpNode(n, &pbad, 0), "rest": rest, "pbad": pbad}
}

func opParse(a map[string]interface{}) (string, string, interface{}) {
	ns, err := parser.ParseStatement(aStr(a, "text"))
	if err.ErrorCode != tree.PARSING_NO_ERROR {
		return "err", err.ErrorCode, nil
	}
	pbad := 0
	out := []interface{}{}
	for _, n := range ns {
		out = append(out, dumpNode(n, &pbad, 0))
	}
	return "ok", "", J{"nodes": out, "pbad": pbad}
}

// ---- endpoints -------------------------------------------------------------------------

func inclOpt(a map[string]interface{}, k string, none, first, all string) string {
	v, ok := a[k]
	if !ok {
		return none
	}
	switch x := v.(type) {
	case float64:
		switch int(x) {
		case 1:
			return first
		case 2:
			return all
		}
		return none
	case string:
		return x // arbitrary other option string
	}
	return none
}

func setTabOpts(a map[string]interface{}) {
	tabular.SetIncludeSharedElementsInTabularOutput(true)
	tabular.SetProduceIGExtendedOutput(aBool(a, "ext"))
	tabular.SetDynamicOutput(aBool(a, "dyn"))
	tabular.SetIncludeAnnotations(aBool(a, "ann"))
}

func runTab(a map[string]interface{}) ([]tabular.TabularOutputResult, tree.ParsingError) {
	setTabOpts(a)
	format := tabular.OUTPUT_TYPE_CSV
	if raw, ok := a["fmtraw"].(string); ok {
		a = copyArgs(a)
		a["fmt"] = "\x00raw"
		format = raw
	}
	switch aStr(a, "fmt") {
	case "\x00raw":
	case "gs":
		format = tabular.OUTPUT_TYPE_GOOGLE_SHEETS
	case "csv", "":
	default:
		format = aStr(a, "fmt")
	}
	po := inclOpt(a, "po", tabular.ORIGINAL_STATEMENT_OUTPUT_NONE, tabular.ORIGINAL_STATEMENT_OUTPUT_FIRST_ENTRY, tabular.ORIGINAL_STATEMENT_OUTPUT_ALL_ENTRIES)
	ps := inclOpt(a, "ps", tabular.IG_SCRIPT_OUTPUT_NONE, tabular.IG_SCRIPT_OUTPUT_FIRST_ENTRY, tabular.IG_SCRIPT_OUTPUT_ALL_ENTRIES)
	return endpoints.ConvertIGScriptToTabularOutput(aStr(a, "orig"), aStr(a, "text"), aStr(a, "id"), format, aStr(a, "filename"), true, aBool(a, "hdr"), po, ps)
}

func opTab(a map[string]interface{}) (string, string, interface{}) {
	// "file": true — also export to a file (as the command-line workbench does) and read it back
	fileContent, wroteFile := "", false
	if aBool(a, "file") {
		dir, derr := os.MkdirTemp("", "igh-export-")
		if derr == nil {
			defer os.RemoveAll(dir)
			a = copyArgs(a)
			a["filename"] = filepath.Join(dir, "export.csv")
			// the export overwrites: whatever an earlier, longer export left in the file must be gone
			os.WriteFile(aStr(a, "filename"), []byte(strings.Repeat("stale line of an earlier export|x|y|\n", 400)), 0644)
			wroteFile = true
		}
	}
	res, err := runTab(a)
	if wroteFile {
		if b, rerr := os.ReadFile(aStr(a, "filename")); rerr == nil {
			fileContent = string(b)
		}
	}
	if err.ErrorCode != tree.PARSING_NO_ERROR {
		n := 0
		for _, r := range res {
			n += len(r.Output)
		}
		return "err", err.ErrorCode, J{"outlen": n}
	}
	out := []interface{}{}
	for _, r := range res {
		rows := []interface{}{}
		for _, m := range r.StatementMap {
			rows = append(rows, m)
		}
		out = append(out, J{"hdr": r.HeaderSymbols, "names": r.HeaderNames, "rows": rows, "out": r.Output, "e": r.Error.ErrorCode})
	}
	obs := J{"res": out, "sep": tabular.CellSeparator}
	if wroteFile {
		all := ""
		for _, r := range res {
			all += r.Output
		}
		obs["file"] = fileContent
		obs["outs"] = all
	}
	if aBool(a, "withparse") {
		// the implementation's own parse of the cleaned text, for oracles that must not blame
		// the exporter for a parser defect
		_, _, po := opParse(map[string]interface{}{"text": tabular.CleanInput(aStr(a, "text"), tabular.CellSeparator)})
		obs["parse"] = po
	}
	return "ok", "", obs
}

func copyArgs(a map[string]interface{}) map[string]interface{} {
	b := map[string]interface{}{}
	for k, v := range a {
		b[k] = v
	}
	return b
}

func setVisOpts(a map[string]interface{}) {
	if _, ok := a["dyn"]; ok {
		tabular.SetDynamicOutput(aBool(a, "dyn"))
	} else {
		tabular.SetDynamicOutput(false)
	}
	if _, ok := a["ext"]; ok {
		tabular.SetProduceIGExtendedOutput(aBool(a, "ext"))
	}
	tree.SetFlatPrinting(aBool(a, "flat"))
	tree.SetBinaryPrinting(aBool(a, "bin"))
	tree.SetMoveActivationConditionsToFront(aBool(a, "ac"))
	tabular.SetIncludeAnnotations(aBool(a, "ann"))
	tabular.SetIncludeDegreeOfVariability(aBool(a, "dov"))
}

func opVis(a map[string]interface{}) (string, string, interface{}) {
	setVisOpts(a)
	out, err := endpoints.ConvertIGScriptToVisualTree(aStr(a, "text"), aStr(a, "id"), "")
	if err.ErrorCode != tree.PARSING_NO_ERROR {
		return "err", err.ErrorCode, J{"outlen": len(out)}
	}
	obs := J{"out": out, "json": json.Valid([]byte(out))}
	if aBool(a, "withparse") {
		_, _, po := opParse(map[string]interface{}{"text": aStr(a, "text")})
		obs["parse"] = po
	}
	return "ok", "", obs
}

// conv: both endpoints on one input (C10/C11/C12): statuses, error codes, output digests.
func opConv(a map[string]interface{}) (string, string, interface{}) {
	reps := aInt(a, "reps")
	if reps < 1 {
		reps = 1
	}
	tabs := []string{}
	viss := []string{}
	tcode, vcode := "", ""
	for i := 0; i < reps; i++ {
		res, err := runTab(a)
		tcode = err.ErrorCode
		s := ""
		for _, r := range res {
			s += r.Output
		}
		tabs = append(tabs, s)
		setVisOpts(a)
		v, err2 := endpoints.ConvertIGScriptToVisualTree(aStr(a, "text"), aStr(a, "id"), "")
		vcode = err2.ErrorCode
		viss = append(viss, v)
	}
	same := true
	for i := 1; i < reps; i++ {
		if tabs[i] != tabs[0] || viss[i] != viss[0] {
			same = false
		}
	}
	obs := J{"tcode": tcode, "vcode": vcode, "tlen": len(tabs[0]), "vlen": len(viss[0]), "same": same}
	if aBool(a, "full") {
		obs["tab"] = tabs[0]
		obs["vis"] = viss[0]
	}
	if !same {
		obs["tabs"] = tabs
		obs["viss"] = viss
	}
	if aBool(a, "fresh3") {
		// the same conversion in three freshly started processes
		b := copyArgs(a)
		delete(b, "fresh3")
		b["reps"] = 1
		b["full"] = true
		cj, _ := json.Marshal(Case{ID: "fresh", Op: "conv", Args: b})
		fsame := true
		for k := 0; k < 3; k++ {
			fo, err := runFresh(cj)
			if err != nil {
				obs["freshErr"] = err.Error()
				fsame = false
				break
			}
			fm, _ := fo.Obs.(map[string]interface{})
			ft, _ := fm["tab"].(string)
			fv, _ := fm["vis"].(string)
			ftc, _ := fm["tcode"].(string)
			fvc, _ := fm["vcode"].(string)
			if ft != tabs[0] || fv != viss[0] || ftc != tcode || fvc != vcode {
				fsame = false
				obs["freshTab"] = ft
				obs["freshVis"] = fv
			}
		}
		obs["freshSame"] = fsame
	}
	return "ok", "", obs
}

// dov: parse, then Statement.CalculateComplexity total and per-field node complexity
func opDov(a map[string]interface{}) (string, string, interface{}) {
	ns, err := parser.ParseStatement(aStr(a, "text"))
	if err.ErrorCode != tree.PARSING_NO_ERROR {
		return "err", err.ErrorCode, nil
	}
	out := []interface{}{}
	for _, n := range ns {
		if s, ok := n.Entry.(*tree.Statement); ok {
			out = append(out, dovStmt(s))
		} else {
			out = append(out, J{"k": fmt.Sprintf("%T", n.Entry)})
		}
	}
	return "ok", "", out
}

func dovStmt(s *tree.Statement) interface{} {
	c := s.CalculateComplexity()
	pbad := 0
	fields := dumpStmt(s, &pbad, 0).([]interface{})
	per := []interface{}{}
	for _, f := range fields {
		pair := f.([]interface{})
		per = append(per, pair[0])
	}
	return J{"total": c.TotalStateComplexity, "fields": per}
}

func opClean(a map[string]interface{}) (string, string, interface{}) {
	return "ok", "", tabular.CleanInput(aStr(a, "s"), aStr(a, "sep"))
}
// validate: parser.validateInput on a text, for parentheses and for braces
func opValidate(a map[string]interface{}) (string, string, interface{}) {
	p := parser.VerifValidateInput(aStr(a, "text"), "(", ")")
	b := parser.VerifValidateInput(aStr(a, "text"), "{", "}")
	return "ok", "", J{"paren": p.ErrorCode, "brace": b.ErrorCode}
}

// ctype: parser.extractComponentType on the header of a nested component
func opCtype(a map[string]interface{}) (string, string, interface{}) {
	ty, prop, err := parser.VerifExtractComponentType(aStr(a, "text"))
	return "ok", "", J{"code": err.ErrorCode, "type": ty, "prop": prop}
}

func opEscape(a map[string]interface{}) (string, string, interface{}) {
	return "ok", "", shared.EscapeSymbolsForExport(aStr(a, "s"))
}
func opAgg(a map[string]interface{}) (string, string, interface{}) {
	return "ok", "", shared.AggregateIfGreaterThan(aInts(a, "arr"), aInt(a, "th"), aInt(a, "def"))
}
func opFmax(a map[string]interface{}) (string, string, interface{}) {
	return "ok", "", shared.FindMaxValue(aInts(a, "arr"), aInt(a, "def"))
}
func opDup(a map[string]interface{}) (string, string, interface{}) {
	return "ok", "", shared.DuplicateElement(aStrs(a, "arr"))
}
func opMerge(a map[string]interface{}) (string, string, interface{}) {
	return "ok", "", tree.MergeSlices(aStrs(a, "a1"), aStrs(a, "a2"), aStr(a, "sep"))
}

var _ = strings.Join

// combo: parser.ParseIntoNodeTree on a text (parentheses or braces), canonical tree text
func comboShow(n *tree.Node, depth int) string {
	if n == nil {
		return "N"
	}
	if depth > 300 {
		return "DEEP"
	}
	if n.IsEmptyOrNilNode() {
		return "E"
	}
	if n.Left == nil && n.Right == nil && n.LogicalOperator == "" {
		if s, ok := n.Entry.(string); ok {
			return "L<" + s + ">"
		}
		return "?"
	}
	return "C[" + n.LogicalOperator + "|" + strings.Join(n.SharedLeft, "^") + "|" + strings.Join(n.SharedRight, "^") + "](" +
		comboShow(n.Left, depth+1) + ")(" + comboShow(n.Right, depth+1) + ")"
}

func opCombo(a map[string]interface{}) (string, string, interface{}) {
	lp, rp := "(", ")"
	if aBool(a, "brace") {
		lp, rp = "{", "}"
	}
	n, out, err := parser.ParseIntoNodeTree(aStr(a, "text"), aBool(a, "nested"), lp, rp)
	if aBool(a, "retry") && err.ErrorCode == tree.PARSING_ERROR_LOGICAL_OPERATOR_OUTSIDE_COMBINATION {
		// parseComponent's second attempt: the same content in parentheses
		n, out, err = parser.ParseIntoNodeTree(lp+aStr(a, "text")+rp, aBool(a, "nested"), lp, rp)
	}
	return "ok", "", J{"node": comboShow(n, 0), "out": out, "code": err.ErrorCode}
}
