// igh: correspondence harness. Runs the real IG-Parser code in-process on one JSON case per
// line and prints one JSON observation per line. `igh run -j N` fans the lines out to N
// isolated `igh worker` child processes (the option switches of IG-Parser are process-global,
// so parallelism is by process), enforces a per-case deadline and attributes crashes
// (panic / os.Exit / fatal) to the case that was in flight.
package main

import (
	"bufio"
	"encoding/json"
	"flag"
	"fmt"
	"io"
	"log"
	"os"
	"os/exec"
	"runtime/debug"
	"sync"
	"syscall"
	"time"
)

type Case struct {
	ID   string                 `json:"id"`
	Op   string                 `json:"op"`
	Args map[string]interface{} `json:"a"`
}

type Obs struct {
	ID   string      `json:"id"`
	St   string      `json:"st"` // ok | err | panic | exit | timeout | badop
	Code string      `json:"code,omitempty"`
	Obs  interface{} `json:"obs,omitempty"`
	Ms   int64       `json:"ms"`
}

func main() {
	if len(os.Args) < 2 {
		fmt.Fprintln(os.Stderr, "usage: igh run|worker|web ...")
		os.Exit(2)
	}
	switch os.Args[1] {
	case "worker":
		worker()
	case "run":
		run(os.Args[2:])
	default:
		fmt.Fprintln(os.Stderr, "unknown mode")
		os.Exit(2)
	}
}

// ---- worker ---------------------------------------------------------------------------

var realOut *os.File

func worker() {
	// keep the real stdout for results; everything the library prints goes to /dev/null
	fd, err := syscall.Dup(1)
	if err != nil {
		os.Exit(3)
	}
	realOut = os.NewFile(uintptr(fd), "realout")
	devnull, _ := os.OpenFile(os.DevNull, os.O_WRONLY, 0)
	os.Stdout = devnull
	os.Stderr = devnull
	syscall.Dup2(int(devnull.Fd()), 1)
	syscall.Dup2(int(devnull.Fd()), 2)
	log.SetOutput(io.Discard)
	debug.SetGCPercent(200)
	w := bufio.NewWriter(realOut)
	sc := bufio.NewScanner(os.Stdin)
	sc.Buffer(make([]byte, 1<<24), 1<<26)
	for sc.Scan() {
		line := sc.Bytes()
		if len(line) == 0 {
			continue
		}
		var c Case
		if err := json.Unmarshal(line, &c); err != nil {
			b, _ := json.Marshal(Obs{ID: "?", St: "badop", Code: err.Error()})
			w.Write(b)
			w.WriteByte('\n')
			w.Flush()
			continue
		}
		o := runCase(c)
		b, err := json.Marshal(o)
		if err != nil {
			b, _ = json.Marshal(Obs{ID: c.ID, St: "badop", Code: "marshal: " + err.Error()})
		}
		w.Write(b)
		w.WriteByte('\n')
		w.Flush()
	}
}

func runCase(c Case) (o Obs) {
	t0 := time.Now()
	o.ID = c.ID
	defer func() {
		if r := recover(); r != nil {
			o.St = "panic"
			o.Code = fmt.Sprint(r)
			o.Obs = nil
		}
		o.Ms = time.Since(t0).Milliseconds()
	}()
	f, ok := ops[c.Op]
	if !ok {
		o.St = "badop"
		o.Code = "unknown op " + c.Op
		return
	}
	st, code, obs := f(c.Args)
	o.St, o.Code, o.Obs = st, code, obs
	return
}

// ---- runner ---------------------------------------------------------------------------

type child struct {
	cmd *exec.Cmd
	in  io.WriteCloser
	out *bufio.Reader
}

func spawn(memMB int) (*child, error) {
	cmd := exec.Command(os.Args[0], "worker")
	cmd.Env = append(os.Environ(), fmt.Sprintf("GOMEMLIMIT=%dMiB", memMB), "GOMAXPROCS=2")
	in, err := cmd.StdinPipe()
	if err != nil {
		return nil, err
	}
	outp, err := cmd.StdoutPipe()
	if err != nil {
		return nil, err
	}
	if err := cmd.Start(); err != nil {
		return nil, err
	}
	return &child{cmd: cmd, in: in, out: bufio.NewReaderSize(outp, 1<<20)}, nil
}

func (c *child) kill() {
	c.in.Close()
	c.cmd.Process.Kill()
	c.cmd.Wait()
}

func run(args []string) {
	fs := flag.NewFlagSet("run", flag.ExitOnError)
	j := fs.Int("j", 8, "workers")
	timeout := fs.Duration("timeout", 20*time.Second, "per-case deadline")
	mem := fs.Int("mem", 2048, "GOMEMLIMIT per worker (MiB)")
	inPath := fs.String("in", "-", "cases file")
	outPath := fs.String("out", "-", "observations file")
	fs.Parse(args)

	var in io.Reader = os.Stdin
	if *inPath != "-" {
		f, err := os.Open(*inPath)
		if err != nil {
			fmt.Fprintln(os.Stderr, err)
			os.Exit(2)
		}
		defer f.Close()
		in = f
	}
	var out io.Writer = os.Stdout
	if *outPath != "-" {
		f, err := os.Create(*outPath)
		if err != nil {
			fmt.Fprintln(os.Stderr, err)
			os.Exit(2)
		}
		defer f.Close()
		out = f
	}
	sc := bufio.NewScanner(in)
	sc.Buffer(make([]byte, 1<<24), 1<<26)
	var lines [][]byte
	for sc.Scan() {
		b := append([]byte(nil), sc.Bytes()...)
		if len(b) > 0 {
			lines = append(lines, b)
		}
	}
	results := make([][]byte, len(lines))
	idx := make(chan int, len(lines))
	for i := range lines {
		idx <- i
	}
	close(idx)
	var wg sync.WaitGroup
	for k := 0; k < *j; k++ {
		wg.Add(1)
		go func() {
			defer wg.Done()
			var ch *child
			defer func() {
				if ch != nil {
					ch.kill()
				}
			}()
			for i := range idx {
				if ch == nil {
					var err error
					ch, err = spawn(*mem)
					if err != nil {
						results[i] = failObs(lines[i], "exit", "spawn: "+err.Error(), 0)
						continue
					}
				}
				t0 := time.Now()
				ch.in.Write(lines[i])
				ch.in.Write([]byte{'\n'})
				type rd struct {
					b   []byte
					err error
				}
				rc := make(chan rd, 1)
				go func(c *child) {
					b, err := c.out.ReadBytes('\n')
					rc <- rd{b, err}
				}(ch)
				select {
				case r := <-rc:
					if r.err != nil {
						// worker died: os.Exit / log.Fatal / runtime fatal error
						ch.kill()
						code := "worker died"
						if ch.cmd.ProcessState != nil {
							code = ch.cmd.ProcessState.String()
						}
						ch = nil
						results[i] = failObs(lines[i], "exit", code, time.Since(t0).Milliseconds())
					} else {
						results[i] = r.b[:len(r.b)-1]
					}
				case <-time.After(*timeout):
					ch.kill()
					ch = nil
					results[i] = failObs(lines[i], "timeout", timeout.String(), time.Since(t0).Milliseconds())
				}
			}
		}()
	}
	wg.Wait()
	// A case that hit the deadline while all workers were busy is run once more on its own:
	// only a case that also exceeds the deadline without competing workers counts as a timeout.
	for i := range lines {
		var o Obs
		if json.Unmarshal(results[i], &o) != nil || o.St != "timeout" {
			continue
		}
		ch, err := spawn(*mem)
		if err != nil {
			continue
		}
		t0 := time.Now()
		ch.in.Write(lines[i])
		ch.in.Write([]byte{'\n'})
		type rd struct {
			b   []byte
			err error
		}
		rc := make(chan rd, 1)
		go func(c *child) {
			b, err := c.out.ReadBytes('\n')
			rc <- rd{b, err}
		}(ch)
		select {
		case r := <-rc:
			if r.err != nil {
				code := "worker died"
				ch.kill()
				if ch.cmd.ProcessState != nil {
					code = ch.cmd.ProcessState.String()
				}
				results[i] = failObs(lines[i], "exit", code, time.Since(t0).Milliseconds())
			} else {
				results[i] = r.b[:len(r.b)-1]
				ch.kill()
			}
		case <-time.After(*timeout):
			ch.kill()
			results[i] = failObs(lines[i], "timeout", timeout.String()+" (also when run alone)", time.Since(t0).Milliseconds())
		}
	}
	w := bufio.NewWriter(out)
	for _, r := range results {
		w.Write(r)
		w.WriteByte('\n')
	}
	w.Flush()
}

func failObs(line []byte, st, code string, ms int64) []byte {
	var c Case
	json.Unmarshal(line, &c)
	b, _ := json.Marshal(Obs{ID: c.ID, St: st, Code: code, Ms: ms})
	return b
}
