package main

import (
	"bytes"
	"runtime"
	"strconv"
)

// goid returns the current goroutine's id (parsed from the stack header); used only to map a
// yield callback to the request whose handler goroutine invoked it.
func goid() int64 {
	b := make([]byte, 64)
	b = b[:runtime.Stack(b, false)]
	b = bytes.TrimPrefix(b, []byte("goroutine "))
	b = b[:bytes.IndexByte(b, ' ')]
	n, _ := strconv.ParseInt(string(b), 10, 64)
	return n
}
