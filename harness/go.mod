module igh

go 1.21

require IG-Parser v0.0.0

replace IG-Parser => /repo
