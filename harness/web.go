package main

import (
	"IG-Parser/core/endpoints"
	"IG-Parser/web/converter"
	"bytes"
	"encoding/json"
	"fmt"
	"html"
	"net/http"
	"net/http/httptest"
	"net/url"
	"os"
	"os/exec"
	"regexp"
	"sort"
	"strconv"
	"strings"
	"sync"
	"time"
)

var webInit sync.Once

func initWeb() {
	webInit.Do(func() {
		converter.Init()
		converter.Logging = false
	})
}

func init() {
	ops["web"] = opWeb
	ops["webseq"] = opWebSeq
	ops["sched"] = opSched
	ops["webcore"] = opWebCore
}

// webcore: one page request and, independently, the core conversion with the options the
// model decoded from the same request; the judge compares the two.
func opWebCore(a map[string]interface{}) (string, string, interface{}) {
	m, _ := a["req"].(map[string]interface{})
	r := reqOf(m)
	code, body := serve(r)
	o := pageObs(r.Page, code, body)
	if mk := aStrs(a, "markers"); len(mk) > 0 {
		found := []string{}
		for _, mkr := range mk {
			if strings.Contains(body, mkr) {
				found = append(found, mkr)
			}
		}
		o["rawMarkers"] = found
	}
	if core, ok := a["core"].(map[string]interface{}); ok {
		switch aStr(core, "kind") {
		case "tab":
			res, err := runTab(core)
			out := ""
			for _, x := range res {
				out += x.Output
			}
			o["coreCode"] = err.ErrorCode
			o["coreOut"] = out
		case "vis":
			setVisOpts(core)
			out, err := endpoints.ConvertIGScriptToVisualTree(aStr(core, "text"), aStr(core, "id"), "")
			o["coreCode"] = err.ErrorCode
			o["coreOut"] = out
		}
	}
	return "ok", "", o
}

type webReq struct {
	Page   string            // "tab" | "vis"
	Method string            // "POST" | "GET"
	Form   map[string]string // form fields (POST) or URL parameters (GET)
}

func reqOf(m map[string]interface{}) webReq {
	r := webReq{Page: aStr(m, "page"), Method: aStr(m, "method"), Form: map[string]string{}}
	if f, ok := m["form"].(map[string]interface{}); ok {
		for k, v := range f {
			if s, ok := v.(string); ok {
				r.Form[k] = s
			}
		}
	}
	if r.Method == "" {
		r.Method = "POST"
	}
	return r
}

func serve(r webReq) (int, string) {
	initWeb()
	vals := url.Values{}
	keys := []string{}
	for k := range r.Form {
		keys = append(keys, k)
	}
	sort.Strings(keys)
	for _, k := range keys {
		vals.Set(k, r.Form[k])
	}
	var req *http.Request
	if r.Method == "GET" {
		req = httptest.NewRequest("GET", "/?"+vals.Encode(), nil)
	} else {
		req = httptest.NewRequest("POST", "/", strings.NewReader(vals.Encode()))
		req.Header.Set("Content-Type", "application/x-www-form-urlencoded")
	}
	w := httptest.NewRecorder()
	if r.Page == "vis" {
		converter.ConverterHandlerVisual(w, req)
	} else {
		converter.ConverterHandlerTabular(w, req)
	}
	return w.Code, w.Body.String()
}

var reOutputDiv = regexp.MustCompile(`(?s)<div id="output"[^>]*>(.*?)</div>`)
var reJSONParse = regexp.MustCompile(`(?s)JSON\.parse\((".*?")\);`)
var reRawStmt = regexp.MustCompile(`(?s)<textarea id="rawStmt"[^>]*>(.*?)</textarea>`)
var reCodedStmt = regexp.MustCompile(`(?s)<textarea id="codedStmt"[^>]*>(.*?)</textarea>`)
var reStmtId = regexp.MustCompile(`(?s)<input id="stmtId"[^>]*value="([^"]*)"`)
var reError = regexp.MustCompile(`(?s)Error: (.*?)\n`)
var reTxId = regexp.MustCompile(`(?s)Request ID[^<]*`)

// jsUnquote decodes the JS string literal html/template writes for {{.Output}} in script context.
func jsUnquote(lit string) (string, bool) {
	if len(lit) < 2 {
		return "", false
	}
	s := lit[1 : len(lit)-1]
	var b strings.Builder
	for i := 0; i < len(s); i++ {
		c := s[i]
		if c != '\\' {
			b.WriteByte(c)
			continue
		}
		i++
		if i >= len(s) {
			return "", false
		}
		switch s[i] {
		case 'n':
			b.WriteByte('\n')
		case 'r':
			b.WriteByte('\r')
		case 't':
			b.WriteByte('\t')
		case 'u':
			if i+4 >= len(s)+0 && i+4 > len(s)-1+0 && i+4 > len(s) {
				return "", false
			}
			n, err := strconv.ParseUint(s[i+1:i+5], 16, 32)
			if err != nil {
				return "", false
			}
			b.WriteRune(rune(n))
			i += 4
		case 'x':
			n, err := strconv.ParseUint(s[i+1:i+3], 16, 32)
			if err != nil {
				return "", false
			}
			b.WriteRune(rune(n))
			i += 2
		default:
			b.WriteByte(s[i])
		}
	}
	return b.String(), true
}

// pageObs extracts the property-relevant parts of a response page.
func pageObs(page string, code int, body string) J {
	o := J{"status": code, "len": len(body)}
	if m := reRawStmt.FindStringSubmatch(body); m != nil {
		o["rawStmt"] = html.UnescapeString(m[1])
	}
	if m := reCodedStmt.FindStringSubmatch(body); m != nil {
		o["codedStmt"] = html.UnescapeString(m[1])
	}
	if m := reStmtId.FindStringSubmatch(body); m != nil {
		o["stmtId"] = html.UnescapeString(m[1])
	}
	if m := reError.FindStringSubmatch(body); m != nil {
		o["error"] = html.UnescapeString(strings.TrimSpace(m[1]))
	}
	if page == "vis" {
		if m := reJSONParse.FindStringSubmatch(body); m != nil {
			if s, ok := jsUnquote(m[1]); ok {
				o["output"] = s
				o["hasOutput"] = true
			} else {
				o["outputUndecodable"] = m[1]
			}
		}
	} else {
		if m := reOutputDiv.FindStringSubmatch(body); m != nil {
			o["output"] = html.UnescapeString(m[1])
			o["hasOutput"] = true
		}
	}
	return o
}

func stripVolatile(body string) string {
	// nothing volatile when logging is off (no transaction id); kept for safety
	return reTxId.ReplaceAllString(body, "")
}

func opWeb(a map[string]interface{}) (string, string, interface{}) {
	r := reqOf(a)
	code, body := serve(r)
	o := pageObs(r.Page, code, body)
	if aBool(a, "body") {
		o["body"] = body
	}
	// hostile markers: the raw marker must not occur in the page
	if mk := aStrs(a, "markers"); len(mk) > 0 {
		found := []string{}
		for _, m := range mk {
			if strings.Contains(body, m) {
				found = append(found, m)
			}
		}
		o["rawMarkers"] = found
	}
	return "ok", "", o
}

// webseq: a history of requests in this process; observation = the last response and, for
// comparison, the response a fresh process gives to the last request alone.
func opWebSeq(a map[string]interface{}) (string, string, interface{}) {
	hist, _ := a["hist"].([]interface{})
	if len(hist) == 0 {
		return "badop", "empty history", nil
	}
	var lastCode int
	var lastBody string
	var lastReq webReq
	for _, h := range hist {
		m, _ := h.(map[string]interface{})
		lastReq = reqOf(m)
		lastCode, lastBody = serve(lastReq)
	}
	// fresh process for the last request
	lastJSON, _ := json.Marshal(Case{ID: "fresh", Op: "web", Args: map[string]interface{}{
		"page": lastReq.Page, "method": lastReq.Method, "form": lastReq.Form, "body": true}})
	fo, err := runFresh(lastJSON)
	if err != nil {
		return "err", "fresh process failed: " + err.Error(), nil
	}
	fm, _ := fo.Obs.(map[string]interface{})
	freshBody, _ := fm["body"].(string)
	freshCode := 0
	if f, ok := fm["status"].(float64); ok {
		freshCode = int(f)
	}
	same := lastCode == freshCode && stripVolatile(lastBody) == stripVolatile(freshBody)
	o := J{"same": same, "status": lastCode, "freshStatus": freshCode, "n": len(hist)}
	if !same {
		o["diff"] = firstDiff(lastBody, freshBody)
	}
	return "ok", "", o
}

func firstDiff(a, b string) string {
	i := 0
	for i < len(a) && i < len(b) && a[i] == b[i] {
		i++
	}
	lo := i - 80
	if lo < 0 {
		lo = 0
	}
	ha, hb := i+160, i+160
	if ha > len(a) {
		ha = len(a)
	}
	if hb > len(b) {
		hb = len(b)
	}
	return fmt.Sprintf("at %d: history=%q fresh=%q", i, a[lo:ha], b[lo:hb])
}

func runFresh(caseJSON []byte) (*Obs, error) {
	cmd := exec.Command(os.Args[0], "worker")
	cmd.Stdin = bytes.NewReader(append(caseJSON, '\n'))
	var out bytes.Buffer
	cmd.Stdout = &out
	done := make(chan error, 1)
	if err := cmd.Start(); err != nil {
		return nil, err
	}
	go func() { done <- cmd.Wait() }()
	select {
	case err := <-done:
		if err != nil {
			return nil, err
		}
	case <-time.After(60 * time.Second):
		cmd.Process.Kill()
		return nil, fmt.Errorf("timeout")
	}
	var o Obs
	line := bytes.TrimSpace(out.Bytes())
	if err := json.Unmarshal(line, &o); err != nil {
		return nil, err
	}
	return &o, nil
}

// ---- controlled scheduler (C14) ------------------------------------------------------------

type gor struct {
	point chan string   // goroutine -> scheduler: reached a yield point ("" = finished)
	goon  chan struct{} // scheduler -> goroutine: proceed
	code  int
	body  string
	at    string
	done  bool
	// probe mode: released from the "lock" yield point while another request holds the lock
	// and not seen again yet (it is blocked inside the real Lock call)
	waiting bool
}

var schedMu sync.Mutex
var schedCur map[int64]*gor // goroutine id -> control block (keyed by a per-request token)

// opSched: requests r[0..n-1] run concurrently on the real handlers; "order" lists which
// request advances at each step (to its next yield point or to completion). A request that
// waits at the "lock" point while another request holds the lock cannot be chosen
// (observation "infeasible"). Returns each response compared with the request run alone.
func opSched(a map[string]interface{}) (string, string, interface{}) {
	initWeb()
	rs, _ := a["reqs"].([]interface{})
	order := aInts(a, "order")
	n := len(rs)
	reqs := make([]webReq, n)
	alone := make([]string, n)
	aloneCode := make([]int, n)
	for i, r := range rs {
		m, _ := r.(map[string]interface{})
		reqs[i] = reqOf(m)
	}
	// responses of each request processed alone (no yield control installed)
	converter.VerifYield = nil
	for i := range reqs {
		aloneCode[i], alone[i] = serve(reqs[i])
	}
	gs := make([]*gor, n)
	// the yield callback identifies its request by goroutine-local token: the handler runs on
	// the goroutine we start, so a map from goroutine to control block is kept via closure
	tokens := sync.Map{}
	converter.VerifYield = func(point string) {
		id := goid()
		v, ok := tokens.Load(id)
		if !ok {
			return
		}
		g := v.(*gor)
		g.point <- point
		<-g.goon
	}
	defer func() { converter.VerifYield = nil }()
	for i := 0; i < n; i++ {
		g := &gor{point: make(chan string), goon: make(chan struct{})}
		gs[i] = g
		go func(i int, g *gor) {
			tokens.Store(goid(), g)
			g.point <- "start"
			<-g.goon
			c, b := serve(reqs[i])
			g.code, g.body = c, b
			tokens.Delete(goid())
			g.point <- ""
		}(i, g)
	}
	// all goroutines reach "start"
	for _, g := range gs {
		g.at = <-g.point
	}
	holder := -1
	trace := []string{}
	infeasible := ""
	probe := aBool(a, "probe")
	bypassed := []string{}
	for _, i := range order {
		if probe && i >= 0 && i < n && gs[i].done {
			continue
		}
		if i < 0 || i >= n || gs[i].done {
			infeasible = fmt.Sprintf("request %d cannot advance (finished or unknown)", i)
			break
		}
		g := gs[i]
		if g.waiting {
			// blocked in the real lock: it can only move once the holder has finished
			if holder >= 0 && holder != i {
				trace = append(trace, fmt.Sprintf("%d:still-blocked", i))
				continue
			}
			p := <-g.point
			g.waiting = false
			g.at = p
			holder = i
			trace = append(trace, fmt.Sprintf("%d:%s", i, g.at))
			continue
		}
		if g.at == "lock" {
			if holder >= 0 && holder != i {
				if !probe {
					infeasible = fmt.Sprintf("request %d waits for the lock held by %d", i, holder)
					break
				}
				// probe: does the real lock keep this request out while the holder is inside?
				g.goon <- struct{}{}
				select {
				case p := <-g.point:
					bypassed = append(bypassed, fmt.Sprintf("request %d passed the lock point and reached '%s' while request %d was between taking the lock and finishing", i, p, holder))
					g.at = p
					if p == "" {
						g.done = true
					}
					trace = append(trace, fmt.Sprintf("%d:%s(bypassed)", i, g.at))
				case <-time.After(400 * time.Millisecond):
					g.waiting = true
					trace = append(trace, fmt.Sprintf("%d:blocked", i))
				}
				continue
			}
			holder = i
		}
		g.goon <- struct{}{}
		select {
		case p := <-g.point:
			g.at = p
			if p == "" {
				g.done = true
				if holder == i {
					holder = -1
				}
			}
		case <-time.After(30 * time.Second):
			infeasible = fmt.Sprintf("request %d did not reach a yield point within 30s after %s", i, g.at)
		}
		trace = append(trace, fmt.Sprintf("%d:%s", i, g.at))
		if infeasible != "" {
			break
		}
	}
	// drain: let everything finish (in index order, respecting the lock)
	for k := 0; k < 64; k++ {
		progressed := false
		for i, g := range gs {
			if g.done {
				continue
			}
			if g.waiting {
				if holder >= 0 && holder != i {
					continue
				}
				p := <-g.point
				g.waiting = false
				g.at = p
				holder = i
				if p == "" {
					g.done = true
					holder = -1
				}
				progressed = true
				continue
			}
			if g.at == "lock" && holder >= 0 && holder != i {
				continue
			}
			if g.at == "lock" {
				holder = i
			}
			g.goon <- struct{}{}
			p := <-g.point
			g.at = p
			if p == "" {
				g.done = true
				if holder == i {
					holder = -1
				}
			}
			progressed = true
		}
		if !progressed {
			break
		}
	}
	res := []interface{}{}
	allSame := true
	for i, g := range gs {
		same := g.code == aloneCode[i] && g.body == alone[i]
		if !same {
			allSame = false
		}
		e := J{"same": same, "status": g.code}
		if !same {
			e["diff"] = firstDiff(g.body, alone[i])
		}
		res = append(res, e)
	}
	o := J{"res": res, "allSame": allSame, "trace": trace}
	if len(bypassed) > 0 {
		o["bypassed"] = strings.Join(bypassed, "; ")
	}
	if infeasible != "" {
		o["infeasible"] = infeasible
	}
	return "ok", "", o
}
