import IGVerif.Model.Vis
/-! The values of a component shown by the visual tree do not depend on the display options:
    under every combination of flat / binary / activation-conditions-first / annotations /
    Degree of Variability the printer emits, for a component tree, exactly one value object per
    leaf, in order, with the leaf's text framed by its shared text, its component label and
    the nesting level (C09, C17). -/
namespace IGVerif.Vis
open IGVerif IGVerif.Json

mutual
/-- the value objects of a document fragment: (name, component, level), in order; operator
    objects contribute the values of their children, nested statements are separate documents -/
def valuesN : JNode → List (Str × Str × Nat)
  | .leaf name comp level _ _ _ => [(name, comp, level)]
  | .comb _ ch _ _ _ _ _ => valuesL ch
  | .stmt _ _ _ _ _ => []
def valuesL : JList → List (Str × Str × Nat)
  | .nil => []
  | .cons x _ rest => valuesN x ++ valuesL rest
end

theorem valuesL_append : (a b : JList) → valuesL (a.append b) = valuesL a ++ valuesL b
  | .nil, b => by simp [JList.append, valuesL]
  | .cons x s rest, b => by simp [JList.append, valuesL, valuesL_append rest b]

theorem valuesL_withLastSep (sep : Str) : (l : JList) → valuesL (l.withLastSep sep) = valuesL l
  | .nil => by simp [JList.withLastSep]
  | .cons x s .nil => by simp [JList.withLastSep, valuesL]
  | .cons x s (.cons y t rest) => by
    simp only [JList.withLastSep, valuesL]
    rw [valuesL_withLastSep sep (.cons y t rest)]
    simp [valuesL]

theorem valuesL_fragments2 (sep : Str) (a b : JList) : valuesL (jlistOfFragments sep [a, b]) = valuesL a ++ valuesL b := by
  simp [jlistOfFragments, valuesL_append, valuesL_withLastSep]

/-- what the tree says: the values of a component tree, each with its text framed by the
    shared text it inherits, its component label and the level -/
def pvalues (level : Nat) : Ctx → PNode → List (Str × Str × Nat)
  | c, .leaf t sl sr m _ =>
    let esl := stringify (c.sl ++ effShared sl)
    let esr := stringify (c.sr ++ effShared sr)
    [(escape ((if esl.isEmpty then [] else esl ++ [' ']) ++ t ++ (if esr.isEmpty then [] else ' ' :: esr)), effComp c m, level)]
  | c, .comb op sl sr m _ l r => pvalues level (childCtx c op sl sr m) l ++ pvalues level (childCtx c op sl sr m) r
  | _, _ => []

theorem stmtJ_values (o : VOpts) (f : Nat) (fs : PStmt) (level : Nat) (pc : Str) (pa : Option Str) (b : Bool) :
    valuesN (stmtJ o f fs level pc pa b) = [] := by
  cases f <;> simp [stmtJ, valuesN]

def height : PNode → Nat
  | .comb _ _ _ _ _ l r => 1 + max (height l) (height r)
  | _ => 1

/-- **The printed values are the tree's values, whatever the options** -/
theorem values_nodeJ (o : VOpts) (fs : PStmt) (level : Nat) :
    ∀ (fuel : Nat) (n : PNode) (c : Ctx) (pop : Option Str) (pcomp : Str), height n ≤ fuel →
      valuesL (nodeJ o fuel fs level c pop pcomp n) = pvalues level c n := by
  intro fuel
  induction fuel with
  | zero => intro n c pop pcomp h; cases n <;> simp [height] at h <;> omega
  | succ f ih =>
    intro n c pop pcomp h
    cases n with
    | empty => simp [nodeJ, valuesL, pvalues]
    | leaf t sl sr m priv => simp [nodeJ, JList.single, valuesL, valuesN, pvalues]
    | comb op sl sr m priv l r =>
      have hl : height l ≤ f := by simp [height] at h; omega
      have hr : height r ≤ f := by simp [height] at h; omega
      simp only [nodeJ, pvalues]
      split
      · rw [valuesL_fragments2, ih l _ _ _ hl, ih r _ _ _ hr]
      · simp only [JList.single, valuesL, valuesN, List.append_nil]
        rw [valuesL_fragments2, ih l _ _ _ hl, ih r _ _ _ hr]
    | stmt m inner => simp [nodeJ, JList.single, valuesL, stmtJ_values, pvalues]
    | pairs m ns =>
      cases ns with
      | nil => simp [nodeJ, valuesL, pvalues]
      | cons x rest => cases x <;> simp [nodeJ, JList.single, valuesL, stmtJ_values, pvalues]

/-- **Display options change presentation only**: two option sets show the same values with the
    same component labels on the same levels -/
theorem values_option_independent (o₁ o₂ : VOpts) (fs₁ fs₂ : PStmt) (level : Nat) (fuel₁ fuel₂ : Nat) (n : PNode) (c : Ctx)
    (p₁ p₂ : Option Str) (q₁ q₂ : Str) (h₁ : height n ≤ fuel₁) (h₂ : height n ≤ fuel₂) :
    valuesL (nodeJ o₁ fuel₁ fs₁ level c p₁ q₁ n) = valuesL (nodeJ o₂ fuel₂ fs₂ level c p₂ q₂ n) := by
  rw [values_nodeJ o₁ fs₁ level fuel₁ n c p₁ q₁ h₁, values_nodeJ o₂ fs₂ level fuel₂ n c p₂ q₂ h₂]

end IGVerif.Vis

namespace IGVerif.Vis
open IGVerif IGVerif.Json

theorem toList_append : (a b : JList) → (a.append b).toList = a.toList ++ b.toList
  | .nil, b => by simp [JList.append, JList.toList]
  | .cons x s rest, b => by simp [JList.append, JList.toList, toList_append rest b]

theorem toList_withLastSep (sep : Str) : (l : JList) → (l.withLastSep sep).toList = l.toList
  | .nil => by simp [JList.withLastSep]
  | .cons x s .nil => by simp [JList.withLastSep, JList.toList]
  | .cons x s (.cons y t rest) => by
    simp only [JList.withLastSep, JList.toList]
    rw [toList_withLastSep sep (.cons y t rest)]
    simp [JList.toList]

theorem toList_fragments2 (sep : Str) (a b : JList) : (jlistOfFragments sep [a, b]).toList = a.toList ++ b.toList := by
  simp [jlistOfFragments, toList_append, toList_withLastSep]

/-- in binary mode every node is printed as at most one object (nothing is spliced) -/
theorem bin_fragment_single (o : VOpts) (hb : o.bin = true) (fs : PStmt) (level : Nat) :
    ∀ (fuel : Nat) (n : PNode) (c : Ctx) (pop : Option Str) (pcomp : Str),
      (nodeJ o fuel fs level c pop pcomp n).toList.length ≤ 1 := by
  intro fuel
  cases fuel with
  | zero => intro n c pop pcomp; simp [nodeJ, JList.toList]
  | succ f =>
    intro n c pop pcomp
    cases n with
    | empty => simp [nodeJ, JList.toList]
    | leaf => simp [nodeJ, JList.single, JList.toList]
    | comb op sl sr m priv l r => simp [nodeJ, hb, JList.single, JList.toList]
    | stmt => simp [nodeJ, JList.single, JList.toList]
    | pairs m ns =>
      cases ns with
      | nil => simp [nodeJ, JList.toList]
      | cons x rest => cases x <;> simp [nodeJ, JList.single, JList.toList]

/-- **Binary mode: every operator is printed as one object of its own whose children are the
    printed operands — at most two, exactly two when both operands are printed** -/
theorem bin_operator_children (o : VOpts) (hb : o.bin = true) (fs : PStmt) (level : Nat) (f : Nat)
    (op : Str) (sl sr : List Str) (m : Meta) (priv : List PNode) (l r : PNode) (c : Ctx) (pop : Option Str) (pcomp : Str) :
    let lf := nodeJ o f fs level (childCtx c op sl sr m) (some op) (effComp c m) l
    let rf := nodeJ o f fs level (childCtx c op sl sr m) (some op) (effComp c m) r
    let ch := jlistOfFragments (str ",\n") [lf, rf]
    nodeJ o (f + 1) fs level c pop pcomp (.comb op sl sr m priv l r) =
      JList.single (.comb op ch (effComp c m) level (propsJ o f fs level (effComp c m) false priv) (optAnn o (effAnn c m.ann))
        (if o.dov then (Dov.node Dov.defaultFuel (.comb op sl sr m priv l r)).map intStr else none)) ∧
    ch.toList.length = lf.toList.length + rf.toList.length ∧ ch.toList.length ≤ 2 := by
  refine ⟨?_, ?_, ?_⟩
  · simp only [nodeJ, hb, Bool.not_true, Bool.false_and, Bool.false_eq_true, if_false]
  · rw [toList_fragments2, List.length_append]
  · rw [toList_fragments2, List.length_append]
    have h1 := bin_fragment_single o hb fs level f l (childCtx c op sl sr m) (some op) (effComp c m)
    have h2 := bin_fragment_single o hb fs level f r (childCtx c op sl sr m) (some op) (effComp c m)
    omega

end IGVerif.Vis
