import IGVerif.Model.Header
/-! Helper lemmas for the component-type identification (`Model/Header.lean`): on a header whose
    only capital letter is its first character, `strings.Contains` with a symbol that begins with
    a capital is the same as `strings.HasPrefix`; occurrence of the property marker. -/
namespace IGVerif.Header
open IGVerif

theorem contains_nil_upper (u : Char) (vs cs : Str) (hu : u.isUpper = true)
    (hcs : ∀ x ∈ cs, x.isUpper = false) : contains (u :: vs) cs = false := by
  induction cs with
  | nil => simp [contains]
  | cons x xs ih =>
    have hx : x.isUpper = false := hcs x (by simp)
    have hne : (u == x) = false := by
      cases h : (u == x) with
      | false => rfl
      | true => have := eq_of_beq h; subst this; simp [hu] at hx
    simp only [contains, isPrefix, hne, Bool.false_and, Bool.false_or]
    exact ih (fun y hy => hcs y (by simp [hy]))

/-- on `c :: cs` with no capital in `cs`, a pattern starting with a capital occurs iff it is a prefix -/
theorem contains_eq_isPrefix (u : Char) (vs : Str) (c : Char) (cs : Str) (hu : u.isUpper = true)
    (hcs : ∀ x ∈ cs, x.isUpper = false) : contains (u :: vs) (c :: cs) = isPrefix (u :: vs) (c :: cs) := by
  simp only [contains, contains_nil_upper u vs cs hu hcs, Bool.or_false]

theorem contains_absent (a : Char) (p l : Str) (h : ∀ x ∈ l, (a == x) = false) : contains (a :: p) l = false := by
  induction l with
  | nil => simp [contains]
  | cons x xs ih =>
    simp only [contains, isPrefix, h x (by simp), Bool.false_and, Bool.false_or]
    exact ih (fun y hy => h y (by simp [hy]))

theorem isPrefix_append (p r : Str) : isPrefix p (p ++ r) = true := by
  induction p with
  | nil => simp [isPrefix]
  | cons a as ih => simp [isPrefix, ih]

theorem contains_of_prefix (p l : Str) (h : isPrefix p l = true) : contains p l = true := by
  cases l with
  | nil => cases p with
    | nil => simp [contains]
    | cons a as => simp [isPrefix] at h
  | cons c cs => simp [contains, h]

theorem contains_mid (p xs ys : Str) : contains p (xs ++ p ++ ys) = true := by
  induction xs with
  | nil => simpa using contains_of_prefix p (p ++ ys) (isPrefix_append p ys)
  | cons x xs ih =>
    simp only [List.cons_append, contains, ih, Bool.or_true]

/-- the loop over the symbols that occur in the input -/
def loopHits (hasP : Bool) : List Str → Str → Bool → Res
  | [], ret, prop => if ret = [] then .notFound prop else .ok ret prop
  | v :: vs, ret, prop =>
    if ret ≠ [] ∧ ret ≠ v then .multiple ret prop
    else if hasP then loopHits hasP vs (if isSuffix marker v then v else v ++ marker) true
    else loopHits hasP vs v prop

/-- symbols that are not contained in the input do not change the loop -/
theorem loop_filter (input : Str) (hasP : Bool) (tbl : List Str) (ret : Str) (prop : Bool) :
    loop input hasP tbl ret prop = loopHits hasP (tbl.filter (fun v => contains v input)) ret prop := by
  induction tbl generalizing ret prop with
  | nil => rfl
  | cons v vs ih =>
    by_cases hc : contains v input = true
    · simp only [List.filter_cons, hc, if_true, loop, loopHits]
      split
      · rfl
      · split
        · exact ih _ _
        · exact ih _ _
    · simp only [List.filter_cons, hc, loop]
      simpa using ih ret prop

/-- digits are neither capitals nor one of the characters that continue a table symbol -/
theorem digit_facts (c : Char) (h : c.isDigit = true) :
    c.isUpper = false ∧ (',' == c) = false ∧ (' ' == c) = false ∧ ('-' == c) = false ∧ ('[' == c) = false := by
  simp only [Char.isDigit, Char.isUpper, Bool.and_eq_true, decide_eq_true_eq] at *
  have h1 : c.val ≥ 48 := h.1
  have h2 : c.val ≤ 57 := h.2
  refine ⟨?_, ?_, ?_, ?_, ?_⟩
  · have : ¬ (c.val ≥ 65) := by
      intro h3; have := UInt32.le_trans h3 h2; revert this; decide
    simp [this]
  all_goals
    cases hh : (_ == c) with
    | false => rfl
    | true =>
      have := eq_of_beq hh; subst this; revert h1 h2; decide

end IGVerif.Header
