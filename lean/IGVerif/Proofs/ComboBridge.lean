import IGVerif.Proofs.ComboNorm
/-! Bridge between the grammar AST of the specification (`Expr` with `chain`) and the chain
    notation `T` of the normalisation development: every expression built from values,
    parenthesised binary combinations and same-operator chains, at any depth, is a well-formed
    `T` term with the same text and the same documented meaning. -/
namespace IGVerif.Combo
open IGVerif

mutual
/-- the chain notation of an expression -/
def ofE : Expr → T
  | .leaf t => .leaf t
  | .comb o l r => .bin o true (ofE l) (ofE r)
  | .chain o e₁ e₂ es => (ofChain o (.bin o false (ofE e₁) (ofE e₂)) es).close
  | _ => .leaf []
/-- further operands of a chain, nested to the left without parentheses of their own -/
def ofChain (o : Op3) (acc : T) : List Expr → T
  | [] => acc
  | e :: es => ofChain o (.bin o false acc (ofE e)) es
end

mutual
/-- expressions of values, binary combinations and chains only -/
def Chainy : Expr → Prop
  | .leaf t => Plain t ∧ Word t
  | .comb _ l r => Chainy l ∧ Chainy r
  | .chain _ e₁ e₂ es => Chainy e₁ ∧ Chainy e₂ ∧ ChainyL es
  | _ => False
def ChainyL : List Expr → Prop
  | [] => True
  | e :: es => Chainy e ∧ ChainyL es
end

theorem isOpen_ofChain (o : Op3) (es : List Expr) : ∀ acc : T, acc.isOpen = true → (ofChain o acc es).isOpen = true := by
  induction es with
  | nil => intro acc h; simpa [ofChain] using h
  | cons e es ih => intro acc _; simp only [ofChain]; exact ih _ rfl

mutual
theorem rT_ofE : (e : Expr) → Chainy e → rT (ofE e) = renderE e
  | .leaf t, _ => by simp [ofE, rT, renderE]
  | .comb o l r, h => by
    have h' : Chainy l ∧ Chainy r := by simpa [Chainy] using h
    have a := rT_ofE l h'.1
    have b := rT_ofE r h'.2
    simp [ofE, rT, renderE, a, b]
  | .chain o e₁ e₂ es, h => by
    have h' : Chainy e₁ ∧ Chainy e₂ ∧ ChainyL es := by simpa [Chainy] using h
    have a := rT_ofE e₁ h'.1
    have b := rT_ofE e₂ h'.2.1
    have c := rT_ofChainL o es h'.2.2 (.bin o false (ofE e₁) (ofE e₂))
    have ho := isOpen_ofChain o es (.bin o false (ofE e₁) (ofE e₂)) rfl
    simp only [ofE]
    rw [rT_close _ ho, c]
    simp [rT, renderE, a, b]
  | .shared _ _ _, h => by simp [Chainy] at h
  | .multi2 _ _ _ _ _, h => by simp [Chainy] at h
  | .multi3 _ _ _ _ _ _ _, h => by simp [Chainy] at h
theorem rT_ofChainL : (o : Op3) → (es : List Expr) → ChainyL es → ∀ acc : T, rT (ofChain o acc es) = rT acc ++ renderChain o es
  | _, [], _, acc => by simp [ofChain, renderChain]
  | o, e :: es, h, acc => by
    have h' : Chainy e ∧ ChainyL es := by simpa [ChainyL] using h
    have a := rT_ofE e h'.1
    have b := rT_ofChainL o es h'.2 (.bin o false acc (ofE e))
    simp [ofChain, renderChain, rT, a, b]
end

theorem wf_ctx_closed (x : T) (hc : x.isOpen = false) (c c' : Option Op3) (h : wf x c) : wf x c' := by
  cases x with
  | leaf t => exact h
  | bin o p l r =>
    cases p with
    | true => simpa [wf] using h
    | false => simp [T.isOpen] at hc

theorem wf_ofChain (o : Op3) (es : List Expr) (hes : ∀ e ∈ es, wf (ofE e) none) :
    ∀ acc : T, wf acc (some o) → wf (ofChain o acc es) (some o) := by
  induction es with
  | nil => intro acc h; simpa [ofChain] using h
  | cons e es ih =>
    intro acc h
    simp only [ofChain]
    exact ih (fun x hx => hes x (by simp [hx])) _ (by simp [wf, h, hes e (by simp)])

mutual
theorem wf_ofE : (e : Expr) → Chainy e → wf (ofE e) none
  | .leaf t, h => by simpa [ofE, wf, Chainy] using h
  | .comb o l r, h => by
    have h' : Chainy l ∧ Chainy r := by simpa [Chainy] using h
    have a := wf_ofE l h'.1
    have b := wf_ofE r h'.2
    have hc := wf_none_closed _ a
    simp [ofE, wf, b, wf_ctx_closed _ hc none (some o) a]
  | .chain o e₁ e₂ es, h => by
    have h' : Chainy e₁ ∧ Chainy e₂ ∧ ChainyL es := by simpa [Chainy] using h
    have a := wf_ofE e₁ h'.1
    have b := wf_ofE e₂ h'.2.1
    have c := wf_ofEL es h'.2.2
    have hacc : wf (.bin o false (ofE e₁) (ofE e₂)) (some o) := by
      simp [wf, b, wf_ctx_closed _ (wf_none_closed _ a) none (some o) a]
    have hX := wf_ofChain o es c _ hacc
    have ho := isOpen_ofChain o es (.bin o false (ofE e₁) (ofE e₂)) rfl
    obtain ⟨hw, _, _, hcl⟩ := wf_close o _ hX ho
    simp only [ofE]
    exact wf_ctx_closed _ hcl (some o) none hw
  | .shared _ _ _, h => by simp [Chainy] at h
  | .multi2 _ _ _ _ _, h => by simp [Chainy] at h
  | .multi3 _ _ _ _ _ _ _, h => by simp [Chainy] at h
theorem wf_ofEL : (es : List Expr) → ChainyL es → ∀ e ∈ es, wf (ofE e) none
  | [], _ => by intro e he; simp at he
  | x :: xs, h => by
    have h' : Chainy x ∧ ChainyL xs := by simpa [ChainyL] using h
    intro e he
    have hx := wf_ofE x h'.1
    have hxs := wf_ofEL xs h'.2
    rcases List.mem_cons.mp he with he' | he'
    · rw [he']; exact hx
    · exact hxs e he'
end

theorem toE_close (x : T) : toE x.close = toE x := by
  cases x with
  | leaf t => rfl
  | bin o p l r => cases p <;> rfl

theorem toP_ofChain (o : Op3) (es : List Expr) (hes : ∀ e ∈ es, toP (treeOf (toE (ofE e))) = denoteE [] [] e) :
    ∀ acc : T, toP (treeOf (toE (ofChain o acc es))) = denoteChain o [] [] (toP (treeOf (toE acc))) es := by
  induction es with
  | nil => intro acc; simp [ofChain, denoteChain]
  | cons e es ih =>
    intro acc
    simp only [ofChain]
    rw [ih (fun x hx => hes x (by simp [hx])), denoteChain_cons]
    simp [toE, treeOf, toP, hes e (by simp)]

mutual
theorem meaning_ofE : (e : Expr) → Chainy e → toP (treeOf (toE (ofE e))) = denoteE [] [] e
  | .leaf t, _ => by simp [ofE, toE, treeOf, toP, denoteE]
  | .comb o l r, h => by
    have h' : Chainy l ∧ Chainy r := by simpa [Chainy] using h
    have a := meaning_ofE l h'.1
    have b := meaning_ofE r h'.2
    simp [ofE, toE, treeOf, toP, denoteE, a, b]
  | .chain o e₁ e₂ es, h => by
    have h' : Chainy e₁ ∧ Chainy e₂ ∧ ChainyL es := by simpa [Chainy] using h
    have a := meaning_ofE e₁ h'.1
    have b := meaning_ofE e₂ h'.2.1
    have c := meaning_ofEL es h'.2.2
    simp only [ofE]
    rw [toE_close, toP_ofChain o es c]
    cases es <;> simp [toE, treeOf, toP, denoteE, a, b]
  | .shared _ _ _, h => by simp [Chainy] at h
  | .multi2 _ _ _ _ _, h => by simp [Chainy] at h
  | .multi3 _ _ _ _ _ _ _, h => by simp [Chainy] at h
theorem meaning_ofEL : (es : List Expr) → ChainyL es → ∀ e ∈ es, toP (treeOf (toE (ofE e))) = denoteE [] [] e
  | [], _ => by intro e he; simp at he
  | x :: xs, h => by
    have h' : Chainy x ∧ ChainyL xs := by simpa [ChainyL] using h
    have hx := meaning_ofE x h'.1
    have hxs := meaning_ofEL xs h'.2
    intro e he
    rcases List.mem_cons.mp he with he' | he'
    · rw [he']; exact hx
    · exact hxs e he'
end

theorem ofE_top (e : Expr) (h : Chainy e) (hnl : ∀ t, e ≠ .leaf t) : ∃ o l r, ofE e = .bin o true l r := by
  cases e with
  | leaf t => exact absurd rfl (hnl t)
  | comb o l r => exact ⟨o, ofE l, ofE r, by simp [ofE]⟩
  | chain o e₁ e₂ es =>
    have ho := isOpen_ofChain o es (.bin o false (ofE e₁) (ofE e₂)) rfl
    simp only [ofE]
    cases hx : ofChain o (.bin o false (ofE e₁) (ofE e₂)) es with
    | leaf t => rw [hx] at ho; simp [T.isOpen] at ho
    | bin o' p l r =>
      rw [hx] at ho
      cases p with
      | true => simp [T.isOpen] at ho
      | false => exact ⟨o', l, r, by simp [T.close]⟩
  | shared _ _ _ => simp [Chainy] at h
  | multi2 _ _ _ _ _ => simp [Chainy] at h
  | multi3 _ _ _ _ _ _ _ => simp [Chainy] at h

/-- **Round trip for the grammar AST with chains at any depth**: for every expression of the
    specification built from values, parenthesised binary combinations and same-operator chains,
    the combination parser applied to its rendering returns the tree the notation denotes. -/
theorem parse_renderE_chains (e : Expr) (h : Chainy e) (hnl : ∀ t, e ≠ .leaf t) (nested : Bool) (fuel : Nat)
    (hf : depth (toE (ofE e)) ≤ fuel) :
    ∃ n out, parse false fuel (renderE e) nested = .res ⟨n, out, cNoError⟩ ∧ toP n = denoteE [] [] e := by
  obtain ⟨o, l, r, hx⟩ := ofE_top e h hnl
  have hw := wf_ofE e h
  have ht := rT_ofE e h
  have hm := meaning_ofE e h
  rw [hx] at hw hf hm ht
  refine ⟨treeOf (toE (.bin o true l r)), renderE (toE (.bin o true l r)), ?_, hm⟩
  rw [← ht]
  exact parse_chains o l r hw nested fuel hf

end IGVerif.Combo
