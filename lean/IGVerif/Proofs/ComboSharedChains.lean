import IGVerif.Proofs.ComboNorm
import IGVerif.Proofs.ComboShared
import IGVerif.Proofs.ComboContent
/-! Shared text around a group that holds chains: `(l (a [o] b [o] c) r)` and deeper. The
    rewritings of `detectCombinations` happen inside the group while the text around it stays
    (`detect_norm_ctx`); what remains is the shared form of the round-trip theorem. -/
namespace IGVerif.Combo
open IGVerif

theorem scanPre_shared (sl : Option Str) (hsl : ∀ t, sl = some t → SWord t) :
    ScanPre ('(' :: optPre sl) { modes := [.left], lm := [[{ left := 1 }]], gpar := 1 } := by
  refine ⟨fun cs => ?_, by simp⟩
  have e : ('(' :: optPre sl) ++ cs = '(' :: (optPre sl ++ cs) := by simp
  rw [e, scan_open, scan_plain _ _ _ _ (plain_optPre sl hsl)]
  have hlm1 : openAt ([] : LM) 0 { left := 0 + 1 } = [[{ left := 1 }]] := by simp [openAt]
  simp only [List.length_nil, hlm1]
  congr 1
  simp; omega

theorem balCtx_shared (sl sr : Option Str) (hsl : ∀ t, sl = some t → SWord t) (hsr : ∀ t, sr = some t → SWord t) :
    BalCtx ('(' :: optPre sl) (optPost sr ++ [')']) := by
  intro y hy
  have e : ('(' :: optPre sl) ++ y ++ (optPost sr ++ [')']) = '(' :: (optPre sl ++ (y ++ (optPost sr ++ [')']))) := by simp
  rw [e, Validate.parCount]
  simp only [if_true]
  rw [parCount_nopar _ _ _ (plain_optPre sl hsl).noPar, hy, parCount_nopar _ _ _ (plain_optPost sr hsr).noPar]
  simp [Validate.parCount]

/-- **Shared text around a group with chains.** -/
theorem parse_shared_chains (sl sr : Option Str) (o : Op3) (l r : T) (hw : wf (.bin o true l r) none)
    (hsl : ∀ t, sl = some t → SWord t) (hsr : ∀ t, sr = some t → SWord t) (nested : Bool) (fuel : Nat)
    (hf : depth (toE (.bin o true l r)) ≤ fuel) :
    parse false fuel ('(' :: optPre sl ++ rT (.bin o true l r) ++ (optPost sr ++ [')'])) nested
      = .res ⟨.comb o.str (optList sl) (optList sr) (treeOf (toE l)) (treeOf (toE r)),
              sharedText sl o (toE l) (toE r) sr, cNoError⟩ := by
  obtain ⟨x, hx⟩ : ∃ x, x = T.bin o true l r := ⟨_, rfl⟩
  rw [← hx] at hw hf ⊢
  have hE : toE x = .comb o (toE l) (toE r) := by rw [hx]; rfl
  cases fuel with
  | zero => rw [hE] at hf; simp [depth] at hf
  | succ f =>
    obtain ⟨text, htext⟩ : ∃ t, t = '(' :: optPre sl ++ rT x ++ (optPost sr ++ [')']) := ⟨_, rfl⟩
    rw [← htext]
    have hT : text = ('(' :: optPre sl ++ '(' :: rT l ++ [' ']) ++ o.br ++ (' ' :: rT r ++ ')' :: optPost sr ++ [')']) := by
      rw [htext, hx]; simp [rT]
    have hu := parse_unfold o ('(' :: optPre sl ++ '(' :: rT l ++ [' ']) (' ' :: rT r ++ ')' :: optPost sr ++ [')']) f nested
    rw [← hT] at hu
    rw [hu]
    obtain ⟨k, hk⟩ : ∃ k, text.length + 1 = k + opens x := by
      refine ⟨text.length + 1 - opens x, ?_⟩
      have h1 := opens_le_length x
      have h2 : (rT x).length ≤ text.length := by rw [htext]; simp; omega
      omega
    obtain ⟨x', hw', ho', ht', hd'⟩ := detect_norm_ctx ('(' :: optPre sl) (optPost sr ++ [')']) _
      (scanPre_shared sl hsl) (balCtx_shared sl sr hsl hsr) (opens x) x rfl hw k
    obtain ⟨hb, hr⟩ := closed_is_binw x' none hw' ho'
    have htx : text = ('(' :: optPre sl) ++ rT x ++ (optPost sr ++ [')']) := by rw [htext]
    rw [hk, htx, hd', hr, ht', hE]
    rw [ht', hE] at hb
    cases hb with
    | comb _ _ _ ha hb' =>
      have hS : ('(' :: optPre sl) ++ renderE (.comb o (toE l) (toE r)) ++ (optPost sr ++ [')'])
          = sharedText sl o (toE l) (toE r) sr := by simp [sharedText]
      rw [hS]
      obtain ⟨rest, hd⟩ := detect_shared sl sr o (toE l) (toE r) ha.bin hb'.bin hsl hsr k
      rw [hd]
      rw [hE] at hf
      exact afterDetect_shared sl sr o (toE l) (toE r) ha hb' hsl hsr nested f hf rest

theorem scanPre_plain (w : Str) (h : Plain w) : ScanPre w {} := by
  refine ⟨fun cs => ?_, by simp⟩
  rw [scan_plain _ _ _ _ h]
  simp

theorem balCtx_plain (u v : Str) (hu : Plain u) (hv : Plain v) : BalCtx u v := by
  intro y hy
  rw [List.append_assoc, parCount_nopar _ _ _ hu.noPar, hy]
  have := parCount_nopar v [] 0 hv.noPar
  simpa [Validate.parCount] using this

/-- **Shared text written directly inside the component's parentheses, around a group with
    chains** (`Cex(shared (a [AND] b [AND] c) text)`). -/
theorem parse_shared_stripped_chains (sl sr : Option Str) (o : Op3) (l r : T) (hw : wf (.bin o true l r) none)
    (hsl : ∀ t, sl = some t → SWord t) (hsr : ∀ t, sr = some t → SWord t) (nested : Bool) (fuel : Nat)
    (hf : depth (toE (.bin o true l r)) ≤ fuel) :
    parse false fuel (optPre sl ++ rT (.bin o true l r) ++ optPost sr) nested
      = .res ⟨.comb o.str (optList sl) (optList sr) (treeOf (toE l)) (treeOf (toE r)),
              optPre sl ++ renderE (.comb o (toE l) (toE r)) ++ optPost sr, cNoError⟩ := by
  obtain ⟨x, hx⟩ : ∃ x, x = T.bin o true l r := ⟨_, rfl⟩
  rw [← hx] at hw hf ⊢
  have hE : toE x = .comb o (toE l) (toE r) := by rw [hx]; rfl
  cases fuel with
  | zero => rw [hE] at hf; simp [depth] at hf
  | succ f =>
    obtain ⟨text, htext⟩ : ∃ t, t = optPre sl ++ rT x ++ optPost sr := ⟨_, rfl⟩
    rw [← htext]
    have hT : text = (optPre sl ++ '(' :: rT l ++ [' ']) ++ o.br ++ (' ' :: rT r ++ ')' :: optPost sr) := by
      rw [htext, hx]; simp [rT]
    have hu := parse_unfold o (optPre sl ++ '(' :: rT l ++ [' ']) (' ' :: rT r ++ ')' :: optPost sr) f nested
    rw [← hT] at hu
    rw [hu]
    obtain ⟨k, hk⟩ : ∃ k, text.length + 1 = k + opens x := by
      refine ⟨text.length + 1 - opens x, ?_⟩
      have h1 := opens_le_length x
      have h2 : (rT x).length ≤ text.length := by rw [htext]; simp; omega
      omega
    obtain ⟨x', hw', ho', ht', hd'⟩ := detect_norm_ctx (optPre sl) (optPost sr) _
      (scanPre_plain _ (plain_optPre sl hsl)) (balCtx_plain _ _ (plain_optPre sl hsl) (plain_optPost sr hsr)) (opens x) x rfl hw k
    obtain ⟨hb, hr⟩ := closed_is_binw x' none hw' ho'
    rw [hk, htext, hd', hr, ht', hE]
    rw [ht', hE] at hb
    cases hb with
    | comb _ _ _ ha hb' =>
      obtain ⟨rest, hd⟩ := detect_shared_stripped sl sr o (toE l) (toE r) ha.bin hb'.bin hsl hsr k
      rw [hd]
      rw [hE] at hf
      exact afterDetect_shared_stripped sl sr o (toE l) (toE r) ha hb' hsl hsr nested f hf rest

end IGVerif.Combo
