import IGVerif.Proofs.ComboSharedChains
import IGVerif.Proofs.ComboMulti
/-! Two groups in one component, each of which may hold chains: the first group is normalised
    with the second still as written, then the second with the first already parenthesised. -/
namespace IGVerif.Combo
open IGVerif

theorem plain_blank_optPre (m : Option Str) (hm : ∀ t, m = some t → SWord t) : Plain (' ' :: optPre m) := by
  have : ' ' :: optPre m = [' '] ++ optPre m := rfl
  rw [this]; exact plain_append plain_blank (plain_optPre m hm)

/-- **Two groups with chains in one component.** -/
theorem parse_multi2_chains (l m r : Option Str) (o₁ o₂ : Op3) (l₁ r₁ l₂ r₂ : T)
    (hw₁ : wf (.bin o₁ true l₁ r₁) none) (hw₂ : wf (.bin o₂ true l₂ r₂) none)
    (hl : ∀ t, l = some t → SWord t) (hm : ∀ t, m = some t → SWord t) (hr : ∀ t, r = some t → SWord t)
    (nested : Bool) (fuel : Nat) (hf₁ : depth (toE (.bin o₁ true l₁ r₁)) ≤ fuel) (hf₂ : depth (toE (.bin o₂ true l₂ r₂)) ≤ fuel) :
    parse false fuel ('(' :: optPre l ++ rT (.bin o₁ true l₁ r₁) ++ ((' ' :: optPre m) ++ rT (.bin o₂ true l₂ r₂) ++ (optPost r ++ [')']))) nested
      = .res ⟨.comb sWAND [] [] (.comb o₁.str (optList l) (optList m) (treeOf (toE l₁)) (treeOf (toE r₁)))
                (.comb o₂.str (optList m) (optList r) (treeOf (toE l₂)) (treeOf (toE r₂))),
              multiText l o₁ (toE l₁) (toE r₁) m o₂ (toE l₂) (toE r₂) r, cNoError⟩ := by
  obtain ⟨x, hx⟩ : ∃ x, x = T.bin o₁ true l₁ r₁ := ⟨_, rfl⟩
  obtain ⟨y, hy⟩ : ∃ y, y = T.bin o₂ true l₂ r₂ := ⟨_, rfl⟩
  rw [← hx] at hw₁ hf₁ ⊢
  rw [← hy] at hw₂ hf₂ ⊢
  have hEx : toE x = .comb o₁ (toE l₁) (toE r₁) := by rw [hx]; rfl
  have hEy : toE y = .comb o₂ (toE l₂) (toE r₂) := by rw [hy]; rfl
  cases fuel with
  | zero => rw [hEx] at hf₁; simp [depth] at hf₁
  | succ f =>
    obtain ⟨text, htext⟩ : ∃ t, t = '(' :: optPre l ++ rT x ++ ((' ' :: optPre m) ++ rT y ++ (optPost r ++ [')'])) := ⟨_, rfl⟩
    rw [← htext]
    -- the early exit does not apply
    have hT : text = ('(' :: optPre l ++ '(' :: rT l₁ ++ [' ']) ++ o₁.br
        ++ (' ' :: rT r₁ ++ ')' :: ' ' :: optPre m ++ rT y ++ optPost r ++ [')']) := by
      rw [htext, hx]; simp [rT]
    have hu := parse_unfold o₁ ('(' :: optPre l ++ '(' :: rT l₁ ++ [' '])
      (' ' :: rT r₁ ++ ')' :: ' ' :: optPre m ++ rT y ++ optPost r ++ [')']) f nested
    rw [← hT] at hu
    rw [hu]
    -- fuel for both normalisations
    obtain ⟨k, hk⟩ : ∃ k, text.length + 1 = (k + opens y) + opens x := by
      refine ⟨text.length + 1 - opens y - opens x, ?_⟩
      have h1 := opens_le_length x
      have h2 := opens_le_length y
      have h3 : (rT x).length + (rT y).length ≤ text.length := by rw [htext]; simp; omega
      omega
    -- first group
    have hb1 : BalCtx ('(' :: optPre l) ((' ' :: optPre m) ++ rT y ++ (optPost r ++ [')'])) := by
      intro z hz
      have e : ('(' :: optPre l) ++ z ++ ((' ' :: optPre m) ++ rT y ++ (optPost r ++ [')']))
          = '(' :: (optPre l ++ (z ++ ((' ' :: optPre m) ++ (rT y ++ (optPost r ++ [')']))))) := by simp
      rw [e, Validate.parCount]
      simp only [if_true]
      rw [parCount_nopar _ _ _ (plain_optPre l hl).noPar, hz, parCount_nopar _ _ _ (plain_blank_optPre m hm).noPar,
        parCount_rT y none hw₂, parCount_nopar _ _ _ (plain_optPost r hr).noPar]
      simp [Validate.parCount]
    obtain ⟨x', hwx', hox', htx', hdx'⟩ := detect_norm_ctx ('(' :: optPre l) ((' ' :: optPre m) ++ rT y ++ (optPost r ++ [')'])) _
      (scanPre_shared l hl) hb1 (opens x) x rfl hw₁ (k + opens y)
    obtain ⟨hbx, hrx⟩ := closed_is_binw x' none hwx' hox'
    -- second group, behind the first one in parentheses
    have hvx' : ∀ i, viol x' i = none := fun i => opens_zero_viol_none x' i hox'
    have hcx' := wf_none_closed x' hwx'
    obtain ⟨lmx, hsx, hlowx⟩ := (((scan_wf x' none hwx').1 hcx') (('(' :: optPre l).length)
      { modes := [.left], lm := [[{ left := 1 }]], gpar := 1 } (by simp)).1 (hvx' _)
    have hp2 : ScanPre ('(' :: optPre l ++ rT x' ++ (' ' :: optPre m)) { modes := [.left], lm := lmx, gpar := 1 } := by
      refine ⟨fun cs => ?_, by have := hlowx.len; simpa using this⟩
      have e : ('(' :: optPre l ++ rT x' ++ (' ' :: optPre m)) ++ cs = ('(' :: optPre l) ++ (rT x' ++ ((' ' :: optPre m) ++ cs)) := by simp
      rw [e, (scanPre_shared l hl).run, hsx, scan_plain _ _ _ _ (plain_blank_optPre m hm)]
      congr 1
      simp; omega
    have hb2 : BalCtx ('(' :: optPre l ++ rT x' ++ (' ' :: optPre m)) (optPost r ++ [')']) := by
      intro z hz
      have e : ('(' :: optPre l ++ rT x' ++ (' ' :: optPre m)) ++ z ++ (optPost r ++ [')'])
          = '(' :: (optPre l ++ (rT x' ++ ((' ' :: optPre m) ++ (z ++ (optPost r ++ [')']))))) := by simp
      rw [e, Validate.parCount]
      simp only [if_true]
      rw [parCount_nopar _ _ _ (plain_optPre l hl).noPar, parCount_rT x' none hwx',
        parCount_nopar _ _ _ (plain_blank_optPre m hm).noPar, hz, parCount_nopar _ _ _ (plain_optPost r hr).noPar]
      simp [Validate.parCount]
    obtain ⟨y', hwy', hoy', hty', hdy'⟩ := detect_norm_ctx ('(' :: optPre l ++ rT x' ++ (' ' :: optPre m)) (optPost r ++ [')']) _
      hp2 hb2 (opens y) y rfl hw₂ k
    obtain ⟨hby, hry⟩ := closed_is_binw y' none hwy' hoy'
    -- the text after both normalisations is the two-combination form of the round-trip theorem
    have ht1 : text = ('(' :: optPre l) ++ rT x ++ ((' ' :: optPre m) ++ rT y ++ (optPost r ++ [')'])) := by rw [htext]
    have ht2 : ('(' :: optPre l) ++ rT x' ++ ((' ' :: optPre m) ++ rT y ++ (optPost r ++ [')']))
        = ('(' :: optPre l ++ rT x' ++ (' ' :: optPre m)) ++ rT y ++ (optPost r ++ [')']) := by simp
    rw [hk, ht1, hdx', ht2, hdy', hrx, hry, htx', hty', hEx, hEy]
    rw [htx', hEx] at hbx
    rw [hty', hEy] at hby
    cases hbx with
    | comb _ _ _ ha₁ hb₁ =>
      cases hby with
      | comb _ _ _ ha₂ hb₂ =>
        have hM : ('(' :: optPre l ++ renderE (.comb o₁ (toE l₁) (toE r₁)) ++ (' ' :: optPre m)) ++ renderE (.comb o₂ (toE l₂) (toE r₂))
            ++ (optPost r ++ [')']) = multiText l o₁ (toE l₁) (toE r₁) m o₂ (toE l₂) (toE r₂) r := by simp [multiText]
        rw [hM]
        obtain ⟨rest, hd⟩ := detect_multi l m r o₁ o₂ (toE l₁) (toE r₁) (toE l₂) (toE r₂)
          (.comb _ _ _ ha₁.bin hb₁.bin) (.comb _ _ _ ha₂.bin hb₂.bin) hl hm hr k
        rw [hd]
        rw [hEx] at hf₁
        rw [hEy] at hf₂
        exact afterDetect_multi l m r o₁ o₂ _ _ _ _ ha₁ hb₁ ha₂ hb₂ hl hm hr nested f hf₁ hf₂ rest

end IGVerif.Combo
