import IGVerif.Proofs.ComboParse
/-! Brace mode of the combination parser (`ParseIntoNodeTree(…, "{", "}")`, as called by
    `parseNestedStatementCombination`): a braced combination of nested statements yields exactly
    the written operator tree over those statements. Operators inside the parentheses of a
    component are not taken for statement-level operators (`generalParCount`). -/
namespace IGVerif.Combo
open IGVerif

/-- new value of `generalParCount` after a character -/
def gparAfter (g : Int) (c : Char) : Int := if c = '(' then g + 1 else if c = ')' then g - 1 else g

/-- a character that is no brace is skipped in brace mode, unless it starts an operator outside
    all parentheses -/
theorem scan_brace_skip (c : Char) (cs : Str) (i : Nat) (st : St) (h1 : c ≠ '{') (h2 : c ≠ '}')
    (h3 : c = '[' → st.gpar ≠ 0) :
    scan '{' '}' (c :: cs) i st = scan '{' '}' cs (i+1) { st with gpar := gparAfter st.gpar c } := by
  rw [scan]
  by_cases hb : c = '['
  · subst hb
    have hg := h3 rfl
    cases hop : opAt ('[' :: cs) with
    | none => simp [hop, gparAfter]
    | some o => simp [hop, gparAfter, hg]
  · simp [h1, h2, hb, gparAfter]

/-- text of a nested statement without braces: parentheses balanced from depth `n`, brackets
    only inside parentheses -/
def flatOK : Str → Nat → Bool
  | [], n => n == 0
  | c :: cs, n =>
    if c = '{' || c = '}' then false
    else if c = '(' then flatOK cs (n+1)
    else if c = ')' then (decide (1 ≤ n) && flatOK cs (n-1))
    else if c = '[' then (decide (1 ≤ n) && flatOK cs n)
    else flatOK cs n

theorem scan_flat (w : Str) : ∀ (n : Nat) (cs : Str) (i : Nat) (st : St), flatOK w n = true → st.gpar = (n : Int) →
    scan '{' '}' (w ++ cs) i st = scan '{' '}' cs (i + w.length) { st with gpar := 0 } := by
  induction w with
  | nil =>
    intro n cs i st h hg
    simp [flatOK] at h
    subst h
    simp at hg
    cases st; simp_all
  | cons c w ih =>
    intro n cs i st h hg
    rw [flatOK] at h
    by_cases hb : c = '{' ∨ c = '}'
    · rcases hb with hb | hb <;> simp [hb] at h
    · have h1 : c ≠ '{' := fun e => hb (Or.inl e)
      have h2 : c ≠ '}' := fun e => hb (Or.inr e)
      simp only [h1, h2, decide_false, Bool.or_self, Bool.false_eq_true, if_false] at h
      have hlen : i + (c :: w).length = (i + 1) + w.length := by simp; omega
      rw [List.cons_append, hlen]
      by_cases hp : c = '('
      · subst hp
        simp only [if_true] at h
        rw [scan_brace_skip _ _ _ _ h1 h2 (fun e => absurd e (by decide))]
        have := ih (n+1) cs (i+1) { st with gpar := gparAfter st.gpar '(' } h (by simp [gparAfter, hg])
        simpa using this
      · by_cases hq : c = ')'
        · subst hq
          simp only [show (')' = '(') = False by decide, if_false, if_true, Bool.and_eq_true, decide_eq_true_eq] at h
          rw [scan_brace_skip _ _ _ _ h1 h2 (fun e => absurd e (by decide))]
          have := ih (n-1) cs (i+1) { st with gpar := gparAfter st.gpar ')' } h.2 (by simp [gparAfter, hg]; omega)
          simpa using this
        · by_cases hk : c = '['
          · subst hk
            simp only [show ('[' = '(') = False by decide, show ('[' = ')') = False by decide, if_false, if_true,
              Bool.and_eq_true, decide_eq_true_eq] at h
            rw [scan_brace_skip _ _ _ _ h1 h2 (by intro _; rw [hg]; omega)]
            have := ih n cs (i+1) { st with gpar := gparAfter st.gpar '[' } h.2 (by simp [gparAfter, hg])
            simpa using this
          · simp only [hp, hq, hk, if_false] at h
            rw [scan_brace_skip _ _ _ _ h1 h2 (by intro e; exact absurd e hk)]
            have := ih n cs (i+1) { st with gpar := gparAfter st.gpar c } h (by simp [gparAfter, hp, hq, hg])
            simpa using this

/-! ### single steps of the scan (brace mode) -/

def BPlain (w : Str) : Prop := ∀ c ∈ w, c ≠ '{' ∧ c ≠ '}' ∧ c ≠ '[' ∧ c ≠ '(' ∧ c ≠ ')'

theorem scan_plainB (w cs : Str) (i : Nat) (st : St) (h : BPlain w) :
    scan '{' '}' (w ++ cs) i st = scan '{' '}' cs (i + w.length) st := by
  induction w generalizing i st with
  | nil => simp
  | cons c w ih =>
    obtain ⟨h1, h2, h3, h4, h5⟩ := h c (by simp)
    have hw : BPlain w := fun x hx => h x (by simp [hx])
    rw [List.cons_append, scan_brace_skip _ _ _ _ h1 h2 (fun e => absurd e h3)]
    have hg : ({ st with gpar := gparAfter st.gpar c } : St) = st := by simp [gparAfter, h4, h5]
    rw [hg, ih _ _ hw]
    simp only [List.length_cons]
    congr 1
    omega

theorem scan_openB (rest : Str) (i : Nat) (st : St) :
    scan '{' '}' ('{' :: rest) i st =
      scan '{' '}' rest (i+1)
        { modes := .left :: st.modes, lm := openAt st.lm st.modes.length { left := i + 1 }, gpar := st.gpar } := by
  rw [scan]; simp

theorem scan_opB (o : Op3) (rest : Str) (p : Nat) (st : St) (ms : List Mode) (X : List Bnd) (b : Bnd)
    (hm : st.modes = .left :: ms) (hl : st.lm[ms.length]? = some (X ++ [b])) (hb : b.left ≠ p) (hg : st.gpar = 0) :
    scan '{' '}' ('[' :: (o.str ++ ']' :: rest)) p st =
      scan '{' '}' (o.str ++ ']' :: rest) (p+1)
        { modes := .right :: ms, lm := modAt st.lm ms.length (modLast fun b => { b with op := p, opVal := o.str }),
          gpar := st.gpar } := by
  have hop : opAt ('[' :: (o.str ++ ']' :: rest)) = some o.str := by
    have := opAt_br o rest
    simpa [Op3.br] using this
  rw [scan]
  simp [hop, hm, lastAt_of _ _ _ _ hl, hb, hg]

theorem scan_closeB (rest : Str) (q : Nat) (st : St) (m : Mode) (ms : List Mode) (X : List Bnd) (b : Bnd)
    (hm : st.modes = m :: ms) (hl : st.lm[ms.length]? = some (X ++ [b])) (hb : b.op + b.opVal.length + 2 ≠ q) :
    scan '{' '}' ('}' :: rest) q st =
      scan '{' '}' rest (q+1)
        { modes := ms, lm := modAt st.lm ms.length (modLast fun b => { b with right := q, complete := b.opVal ≠ [] }),
          gpar := st.gpar } := by
  rw [scan]
  simp [hm, lastAt_of _ _ _ _ hl, hb]

/-- applying `f` to the entry just appended on level `d` -/
theorem ext_modLast {d : Nat} {lm lm1 : LM} {e0 : Bnd} (hE : Ext d lm lm1 [e0]) (f : Bnd → Bnd) :
    Ext d lm (modAt lm1 d (modLast f)) [f e0] := by
  have hat := some_of_getD_append _ _ _ _ hE.at_
  refine ⟨by simpa [length_modAt] using hE.len, fun j hj => ?_, ?_⟩
  · rw [getElem?_modAt_ne _ _ _ _ (by omega)]; exact hE.low j hj
  · rw [getElem?_modAt_eq, hat]; simp [modLast_append_single]

theorem Ext.trans_inner {d : Nat} {lm lm1 lm2 : LM} {es es' : List Bnd} (h1 : Ext d lm lm1 es)
    (h2 : Ext (d+1) lm1 lm2 es') : Ext d lm lm2 es :=
  ⟨Nat.le_trans h1.len h2.len, fun j hj => (h2.low j (by omega)).trans (h1.low j hj),
    by rw [h2.low d (by omega)]; exact h1.at_⟩

/-! ### trees of nested statements -/

/-- operator tree over nested statements; a leaf is `hdr{flat}` -/
inductive BT
  | one (hdr flat : Str)
  | op (o : Op3) (l r : BT)

def renderB : BT → Str
  | .one hdr flat => hdr ++ '{' :: flat ++ ['}']
  | .op o l r => '{' :: renderB l ++ ' ' :: o.br ++ ' ' :: renderB r ++ ['}']

inductive BOk : BT → Prop
  | one (hdr flat : Str) : BPlain hdr → hdr ≠ [] → hdr.head? ≠ some ' ' → flatOK flat 0 = true → flat ≠ [] →
      BOk (.one hdr flat)
  | op (o : Op3) (l r : BT) : BOk l → BOk r → BOk (.op o l r)

def entsB : BT → Nat → List Bnd
  | .one hdr flat, i =>
      [{ left := i + hdr.length + 1, right := i + hdr.length + 1 + flat.length, op := 0, opVal := [], complete := false }]
  | .op o l r, i =>
      [{ left := i + 1, right := i + (renderB l).length + (renderB r).length + o.str.length + 5,
         op := i + (renderB l).length + 2, opVal := o.str, complete := true }]

theorem renderB_op (o : Op3) (l r : BT) (cs : Str) :
    renderB (.op o l r) ++ cs =
      '{' :: (renderB l ++ ([' '] ++ ('[' :: (o.str ++ ']' :: ([' '] ++ (renderB r ++ ('}' :: cs))))))) := by
  simp [renderB, Op3.br]

theorem length_renderB_op (o : Op3) (l r : BT) :
    (renderB (.op o l r)).length = (renderB l).length + (renderB r).length + o.str.length + 6 := by
  simp [renderB, Op3.br]; omega

theorem bplain_opstr (o : Op3) : BPlain (o.str ++ [']', ' ']) := by
  cases o <;> simp [BPlain, Op3.str, opAND, opOR, opXOR, str]

theorem bplain_blank : BPlain [' '] := by intro c hc; simp at hc; subst hc; decide

theorem scan_renderB (t : BT) (hb : BOk t) : ∀ (cs : Str) (i : Nat) (st : St), st.modes.length ≤ st.lm.length →
    st.gpar = 0 →
    ∃ lm', scan '{' '}' (renderB t ++ cs) i st = scan '{' '}' cs (i + (renderB t).length) { st with lm := lm' }
      ∧ Ext st.modes.length st.lm lm' (entsB t i) := by
  induction hb with
  | one hdr flat hp hne hhd hf hfne =>
    intro cs i st hinv hg
    obtain ⟨hE1, hlen1⟩ := ext_openAt st.lm st.modes.length { left := i + hdr.length + 1 } hinv
    have e : renderB (.one hdr flat) ++ cs = hdr ++ ('{' :: (flat ++ ('}' :: cs))) := by simp [renderB]
    rw [e, scan_plainB _ _ _ _ hp, scan_openB]
    rw [scan_flat flat 0 _ _ _ hf (by simpa using hg)]
    have hat1 := some_of_getD_append _ _ _ _ hE1.at_
    have hfl : 0 < flat.length := List.length_pos_iff.mpr hfne
    have hhl : 0 < hdr.length := List.length_pos_iff.mpr hne
    rw [scan_closeB _ _ _ .left st.modes _ _ rfl hat1 (by simp; omega)]
    have h5 := ext_modLast hE1 (fun b => { b with right := i + hdr.length + 1 + flat.length, complete := b.opVal ≠ [] })
    refine ⟨modAt (openAt st.lm st.modes.length { left := i + hdr.length + 1 }) st.modes.length
      (modLast fun b => { b with right := i + hdr.length + 1 + flat.length, complete := b.opVal ≠ [] }), ?_, h5.len, h5.low, ?_⟩
    · congr 1
      · simp [renderB]; omega
      · simp [hg]
    · rw [h5.at_]; simp [entsB]
  | op o l r hl hr ihl ihr =>
    intro cs i st hinv hg
    obtain ⟨hE1, hlen1⟩ := ext_openAt st.lm st.modes.length { left := i + 1 } hinv
    rw [renderB_op, scan_openB]
    obtain ⟨lm2, h2, hE2⟩ := ihl ([' '] ++ ('[' :: (o.str ++ ']' :: ([' '] ++ (renderB r ++ ('}' :: cs)))))) (i+1)
      { modes := .left :: st.modes, lm := openAt st.lm st.modes.length { left := i + 1 }, gpar := st.gpar }
      (by simpa using hlen1) hg
    rw [h2, scan_plainB [' '] _ _ _ bplain_blank]
    have hE12 := hE1.trans_inner (by simpa using hE2)
    have hat2 := some_of_getD_append _ _ _ _ hE12.at_
    rw [scan_opB o _ _ _ st.modes _ _ rfl hat2 (by simp; omega) (by exact hg)]
    have hsp : o.str ++ ']' :: ([' '] ++ (renderB r ++ ('}' :: cs))) = (o.str ++ [']', ' ']) ++ (renderB r ++ ('}' :: cs)) := by simp
    rw [hsp, scan_plainB _ _ _ _ (bplain_opstr o)]
    have hE3 := ext_modLast hE12 (fun b => { b with op := i + 1 + (renderB l).length + [' '].length, opVal := o.str })
    obtain ⟨lm4, h4, hE4⟩ := ihr ('}' :: cs) (i + 1 + (renderB l).length + [' '].length + 1 + (o.str ++ [']', ' ']).length)
      { modes := .right :: st.modes,
        lm := modAt lm2 st.modes.length (modLast fun b => { b with op := i + 1 + (renderB l).length + [' '].length, opVal := o.str }),
        gpar := st.gpar }
      (by simp [length_modAt]; exact Nat.le_trans hlen1 (by simpa using hE2.len)) hg
    rw [h4]
    have hE34 := hE3.trans_inner (by simpa using hE4)
    have hat4 := some_of_getD_append _ _ _ _ hE34.at_
    rw [scan_closeB _ _ _ .right st.modes _ _ rfl hat4 (by simp; omega)]
    have h5 := ext_modLast hE34 (fun b => { b with
        right := i + 1 + (renderB l).length + [' '].length + 1 + (o.str ++ [']', ' ']).length + (renderB r).length,
        complete := b.opVal ≠ [] })
    refine ⟨modAt lm4 st.modes.length (modLast fun b => { b with
        right := i + 1 + (renderB l).length + [' '].length + 1 + (o.str ++ [']', ' ']).length + (renderB r).length,
        complete := b.opVal ≠ [] }), ?_, h5.len, h5.low, ?_⟩
    · congr 1
      rw [length_renderB_op]; simp; omega
    · rw [h5.at_]; simp [entsB, opstr_ne_nil]; omega

end IGVerif.Combo
