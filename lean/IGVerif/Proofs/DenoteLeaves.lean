import IGVerif.Spec.Grammar
/-! The documented meaning keeps every annotated text, in source order, and nothing else (C01):
    the leaves of the tree denoted by a component's content are exactly the texts written in it. -/
namespace IGVerif

mutual
/-- the texts written in a component's content, in source order -/
def Expr.texts : Expr → List Str
  | .leaf t => [t]
  | .comb _ l r => l.texts ++ r.texts
  | .chain _ a b es => a.texts ++ b.texts ++ textsList es
  | .shared _ e _ => e.texts
  | .multi2 _ a _ b _ => a.texts ++ b.texts
  | .multi3 _ a _ b _ c _ => a.texts ++ b.texts ++ c.texts
def textsList : List Expr → List Str
  | [] => []
  | e :: es => e.texts ++ textsList es
end

/-- leaf texts of a parsed tree, left to right -/
def leafTextsP : PNode → List Str
  | .leaf t _ _ _ _ => [t]
  | .comb _ _ _ _ _ l r => leafTextsP l ++ leafTextsP r
  | _ => []

mutual
theorem leaves_denoteE : (e : Expr) → (sl sr : List Str) → leafTextsP (denoteE sl sr e) = e.texts
  | .leaf t, sl, sr => by simp [denoteE, leafTextsP, Expr.texts]
  | .comb o l r, sl, sr => by
    simp [denoteE, leafTextsP, Expr.texts, leaves_denoteE l [] [], leaves_denoteE r [] []]
  | .chain o a b es, sl, sr => by
    simp only [denoteE, Expr.texts]
    rw [leaves_denoteChain es o sl sr]
    simp [leafTextsP, leaves_denoteE a [] [], leaves_denoteE b [] []]
  | .shared l e r, sl, sr => by simp [denoteE, Expr.texts, leaves_denoteE e _ _]
  | .multi2 l a m b r, sl, sr => by
    simp [denoteE, leafTextsP, Expr.texts, leaves_denoteE a _ _, leaves_denoteE b _ _]
  | .multi3 l a m b n c r, sl, sr => by
    simp [denoteE, leafTextsP, Expr.texts, leaves_denoteE a _ _, leaves_denoteE b _ _, leaves_denoteE c _ _]
theorem leaves_denoteChain : (es : List Expr) → (o : Op3) → (sl sr : List Str) → (acc : PNode) →
    leafTextsP (denoteChain o sl sr acc es) = leafTextsP acc ++ textsList es
  | [], o, sl, sr, acc => by simp [denoteChain, textsList]
  | [e], o, sl, sr, acc => by simp [denoteChain, textsList, leafTextsP, leaves_denoteE e [] []]
  | e :: e' :: es, o, sl, sr, acc => by
    simp only [denoteChain, textsList]
    rw [leaves_denoteChain (e' :: es) o sl sr]
    simp [leafTextsP, textsList, leaves_denoteE e [] []]
end

/-- a chain of one operator associates to the left -/
theorem chain_left_assoc (o : Op3) (a b c : Expr) (sl sr : List Str) :
    denoteE sl sr (.chain o a b [c]) =
      .comb o.str sl sr {} [] (.comb o.str [] [] {} [] (denoteE [] [] a) (denoteE [] [] b)) (denoteE [] [] c) := by
  simp [denoteE, denoteChain]

/-- parentheses bind as written -/
theorem parentheses_bind_as_written (o₁ o₂ : Op3) (a b c : Expr) :
    denoteE [] [] (.comb o₁ a (.comb o₂ b c)) =
      .comb o₁.str [] [] {} [] (denoteE [] [] a) (.comb o₂.str [] [] {} [] (denoteE [] [] b) (denoteE [] [] c)) := by
  simp [denoteE]

/-- text written outside an inner combination is shared by every value of that combination:
    it sits on the combination's node -/
theorem shared_text_on_combination (l r : Str) (o : Op3) (a b : Expr) :
    denoteE [] [] (.shared (some l) (.comb o a b) (some r)) =
      .comb o.str [l] [r] {} [] (denoteE [] [] a) (denoteE [] [] b) := by
  simp [denoteE, optList]

end IGVerif
