import IGVerif.Proofs.OdoB
/-! Odometer, part C: the rows of `generate` are the Cartesian product of the non-empty
    arrays (first array slowest), each exactly once; the loop stops by itself within
    `count + 1` iterations (so the preallocated result slice is never overrun). -/
namespace IGVerif.Odo

variable {α : Type}

def rlens (arrays : List (List α)) : List Nat := arrays.reverse.map List.length

def sel (arrays : List (List α)) (q : List Nat) : List α := select arrays q.reverse

theorem loop_emit (arrays : List (List α)) (hne : arrays ≠ []) (f : Nat) (q : List Nat)
    (hq : valid (rlens arrays) q) :
    loop arrays f (bump q) = (emit (rlens arrays) f (succR (rlens arrays) q)).map (sel arrays) := by
  have hrl : rlens arrays ≠ [] := by
    simp only [rlens]; intro h; apply hne
    simpa using h
  induction f generalizing q with
  | zero => simp [loop, emit]
  | succ f ih =>
    have hc := carry_bump (rlens arrays) q hq
    simp only [hrl, if_false] at hc
    simp only [loop]
    change (match carry (rlens arrays) (bump q) with
      | none => []
      | some rpos' => select arrays rpos'.reverse :: loop arrays f (bump rpos')) = _
    rw [hc]
    cases hs : succR (rlens arrays) q with
    | none => simp [emit]
    | some q' =>
      simp only [emit, List.map_cons]
      rw [ih q' (succR_valid _ q q' hq hs)]
      rfl

theorem loop_zeros (arrays : List (List α)) (hne : arrays ≠ []) (f : Nat) :
    loop arrays (f + 1) (zerosOf (rlens arrays)) =
      (emit (rlens arrays) (f + 1) (some (zerosOf (rlens arrays)))).map (sel arrays) := by
  have hv := valid_zeros (rlens arrays)
  simp only [loop]
  change (match carry (rlens arrays) (zerosOf (rlens arrays)) with
    | none => []
    | some rpos' => select arrays rpos'.reverse :: loop arrays f (bump rpos')) = _
  rw [carry_valid _ _ hv]
  simp only [emit, List.map_cons]
  rw [loop_emit arrays hne f _ hv]
  rfl

theorem zeros_eq (arrays : List (List α)) :
    arrays.map (fun _ => 0) = (zerosOf (rlens arrays)) := by
  simp only [zerosOf, rlens, List.map_const', List.length_map, List.length_reverse]

theorem count_eq_total_aux (arrays : List (List α)) (acc : Nat) :
    arrays.foldl (fun acc a => if a.length = 0 then acc else acc * a.length) acc =
      acc * ((arrays.map List.length).map rad).foldr (· * ·) 1 := by
  induction arrays generalizing acc with
  | nil => simp
  | cons a as ih =>
    simp only [List.foldl_cons, List.map_cons, List.foldr_cons]
    rw [ih]
    unfold rad
    split <;> simp_all [Nat.mul_assoc]

theorem foldr_mul_reverse (xs : List Nat) : (xs.reverse).foldr (· * ·) 1 = xs.foldr (· * ·) 1 := by
  induction xs with
  | nil => rfl
  | cons x xs ih =>
    simp only [List.reverse_cons, List.foldr_append, List.foldr_cons, List.foldr_nil, Nat.mul_one]
    have : ∀ (ys : List Nat) (k : Nat), ys.foldr (· * ·) k = k * ys.foldr (· * ·) 1 := by
      intro ys k
      induction ys with
      | nil => simp
      | cons y ys ihy => simp only [List.foldr_cons]; rw [ihy]; rw [Nat.mul_left_comm]
    rw [this, ih, Nat.mul_comm]

theorem count_eq_total (arrays : List (List α)) : count arrays = total (rlens arrays) := by
  simp only [count, total, rlens]
  rw [count_eq_total_aux, Nat.one_mul, List.map_reverse, List.map_reverse, foldr_mul_reverse]

/-- `generate` in terms of the clean enumeration -/
theorem generate_eq (arrays : List (List α)) (hne : arrays ≠ []) :
    generate arrays = some ((allR (rlens arrays)).map (sel arrays)) := by
  simp only [generate]
  have : arrays.isEmpty = false := by cases arrays <;> simp_all
  simp only [this, Bool.false_eq_true, if_false]
  rw [zeros_eq, loop_zeros arrays hne, emit_all _ _ (by rw [count_eq_total]; omega)]

end IGVerif.Odo
