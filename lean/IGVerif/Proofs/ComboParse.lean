import IGVerif.Proofs.ComboScan
/-! Round trip through the combination parser: for every fully parenthesised binary operator
    expression (any depth, any of the three documented operators, values without parentheses or
    brackets), `ParseIntoNodeTree` applied to the rendered text returns exactly the tree the
    notation denotes, without error, and leaves the text unchanged. -/
namespace IGVerif.Combo
open IGVerif

def sp (n : Nat) : Str := List.replicate n ' '

theorem plain_sp (n : Nat) : Plain (sp n) := by
  intro c hc
  have : c = ' ' := by simpa [sp] using (List.eq_of_mem_replicate hc)
  subst this; decide

theorem plain_append {u v : Str} (hu : Plain u) (hv : Plain v) : Plain (u ++ v) := by
  intro c hc
  rcases List.mem_append.mp hc with h | h
  · exact hu c h
  · exact hv c h

/-! ### balance count -/

def NoPar (w : Str) : Prop := ∀ c ∈ w, c ≠ '(' ∧ c ≠ ')'

theorem parCount_nopar (w cs : Str) (n : Int) (h : NoPar w) :
    Validate.parCount '(' ')' (w ++ cs) n = Validate.parCount '(' ')' cs n := by
  induction w generalizing n with
  | nil => rfl
  | cons c w ih =>
    have hc := h c (by simp)
    have hw : NoPar w := fun x hx => h x (by simp [hx])
    simp only [List.cons_append, Validate.parCount, hc.1, hc.2, if_false]
    exact ih _ hw

theorem Plain.noPar {w : Str} (h : Plain w) : NoPar w := fun c hc => ⟨(h c hc).1, (h c hc).2.1⟩

theorem parCount_render (e : Expr) (hb : Bin e) : ∀ (cs : Str) (n : Int),
    Validate.parCount '(' ')' (renderE e ++ cs) n = Validate.parCount '(' ')' cs n := by
  induction hb with
  | leaf t ht => intro cs n; rw [renderE]; exact parCount_nopar _ _ _ ht.noPar
  | comb o l r hl hr ihl ihr =>
    intro cs n
    rw [render_comb]
    have h1 : ('[' :: (o.str ++ ']' :: ([' '] ++ (renderE r ++ ')' :: cs)))) = ('[' :: o.str ++ [']', ' ']) ++ (renderE r ++ ')' :: cs) := by simp
    have hp : NoPar ('[' :: o.str ++ [']', ' ']) := by
      cases o <;> simp [NoPar, Op3.str, opAND, opOR, opXOR, str]
    rw [Validate.parCount]
    simp only [if_true]
    rw [ihl, parCount_nopar [' '] _ _ (by intro c hc; simp at hc; subst hc; decide), h1, parCount_nopar _ _ _ hp, ihr,
      Validate.parCount]
    simp only [show (')' = '(') = False by decide, if_false, if_true]
    congr 1
    omega

/-! ### `detectCombinations` -/

theorem detect_plain (w : Str) (h : Plain w) (fuel : Nat) : detect '(' ')' fuel w = .ok [] w := by
  have h1 : Validate.parCount '(' ')' w 0 = 0 := by
    have := parCount_nopar w [] 0 h.noPar
    simpa [Validate.parCount] using this
  have h2 : scan '(' ')' w 0 {} = .done [] := by
    have := scan_plain w [] 0 {} h
    simpa [scan] using this
  rw [detect]
  simp [h1, h2]

theorem detect_render (o : Op3) (l r : Expr) (hl : Bin l) (hr : Bin r) (a b fuel : Nat) :
    ∃ lm', detect '(' ')' fuel (sp a ++ renderE (.comb o l r) ++ sp b) = .ok lm' (sp a ++ renderE (.comb o l r) ++ sp b)
      ∧ lm'[0]? = some (ents (.comb o l r) a) := by
  have hb : Bin (.comb o l r) := .comb o l r hl hr
  have h1 : Validate.parCount '(' ')' (sp a ++ renderE (.comb o l r) ++ sp b) 0 = 0 := by
    rw [List.append_assoc, parCount_nopar _ _ _ (plain_sp a).noPar, parCount_render _ hb]
    have := parCount_nopar (sp b) [] 0 (plain_sp b).noPar
    simpa [Validate.parCount] using this
  obtain ⟨lm', h2, hE⟩ := scan_render _ hb (sp b) (0 + (sp a).length) {} (by simp)
  have h3 : scan '(' ')' (sp a ++ renderE (.comb o l r) ++ sp b) 0 {} = .done lm' := by
    rw [List.append_assoc, scan_plain _ _ _ _ (plain_sp a), h2]
    have := scan_plain (sp b) [] (0 + (sp a).length + (renderE (.comb o l r)).length) { ({} : St) with lm := lm' } (plain_sp b)
    simpa [scan] using this
  refine ⟨lm', ?_, ?_⟩
  · rw [detect]
    simp only [h1, h3]
    simp
  · have := hE.at_
    simp only [List.length_nil, List.getElem?_nil, Option.getD_none, List.nil_append] at this
    have hs : (sp a).length = a := by simp [sp]
    rw [ents] at this ⊢
    have := some_of_getD_append lm' 0 [] _ (by simpa using this)
    simpa [hs] using this

/-! ### trimming, slicing, searching -/

theorem reverse_sp (n : Nat) : (sp n).reverse = sp n := by simp [sp]

theorem trimL_sp (p : Char → Bool) (hp : p ' ' = true) (n : Nat) (t : Str) : trimL p (sp n ++ t) = trimL p t := by
  induction n with
  | zero => simp [sp]
  | succ n ih => simpa [sp, List.replicate_succ, trimL, hp] using ih

theorem trimL_stop (p : Char → Bool) (c : Char) (u : Str) (h : p c = false) : trimL p (c :: u) = c :: u := by
  simp [trimL, h]

/-- a value that is not empty and neither starts nor ends with a blank -/
structure Word (t : Str) : Prop where
  ne : t ≠ []
  hd : t.head? ≠ some ' '
  lst : t.getLast? ≠ some ' '

theorem trimSp_word (t : Str) (h : Word t) (a b : Nat) : trimSp (sp a ++ t ++ sp b) = t := by
  obtain ⟨c, u, rfl⟩ : ∃ c u, t = c :: u := by
    cases t with
    | nil => exact absurd rfl h.ne
    | cons c u => exact ⟨c, u, rfl⟩
  have hc : c ≠ ' ' := by simpa using h.hd
  obtain ⟨d, v, hdv⟩ : ∃ d v, (c :: u).reverse = d :: v := by
    cases hr : (c :: u).reverse with
    | nil => simp at hr
    | cons d v => exact ⟨d, v, rfl⟩
  have hd : d ≠ ' ' := by
    have h1 : (c :: u).getLast? = some d := by
      rw [← List.head?_reverse, hdv]; rfl
    intro hh; subst hh; exact h.lst h1
  unfold trimSp trimBoth
  rw [List.append_assoc, trimL_sp _ (by simp), List.cons_append, trimL_stop _ _ _ (by simpa using hc),
    ← List.cons_append, List.reverse_append, reverse_sp, hdv, trimL_sp _ (by simp), trimL_stop _ _ _ (by simpa using hd),
    ← hdv, List.reverse_reverse]

theorem trimWs_sp (n : Nat) : trimWs (sp n) = [] := by
  have h : trimL isWs (sp n) = [] := by
    have := trimL_sp isWs (by decide) n []
    simpa [trimL] using this
  simp [trimWs, trimBoth, h, trimL]

theorem cleanShared_left (a : Nat) : cleanShared (sp a ++ ['(']) = [] := by
  have h : trimBoth isIgnoredShared (sp a ++ ['(']) = sp a := by
    cases a with
    | zero => simp [sp, trimBoth, trimL, isIgnoredShared]
    | succ n =>
      have e : sp (n+1) = ' ' :: sp n := by simp [sp, List.replicate_succ]
      unfold trimBoth
      rw [e, List.cons_append, trimL_stop _ _ _ (by decide), ← List.cons_append, ← e, List.reverse_append, reverse_sp]
      simp only [List.reverse_cons, List.reverse_nil, List.nil_append, List.cons_append]
      rw [trimL, if_pos (by decide), e, trimL_stop _ _ _ (by decide), ← e, reverse_sp]
  simp [cleanShared, h, trimWs_sp]

theorem cleanShared_right (b : Nat) : cleanShared (')' :: sp b) = [] := by
  have h : trimBoth isIgnoredShared (')' :: sp b) = sp b := by
    cases b with
    | zero => simp [sp, trimBoth, trimL, isIgnoredShared]
    | succ n =>
      have e : sp (n+1) = ' ' :: sp n := by simp [sp, List.replicate_succ]
      unfold trimBoth
      rw [trimL, if_pos (by decide), e, trimL_stop _ _ _ (by decide), ← e, reverse_sp, e, trimL_stop _ _ _ (by decide),
        ← e, reverse_sp]
  simp [cleanShared, h, trimWs_sp]

theorem slice_mid (X M Z : Str) : slice (X ++ M ++ Z) X.length (X.length + M.length) = M := by
  simp [slice]

theorem slice_of (s X M Z : Str) (a b : Nat) (hs : s = X ++ M ++ Z) (ha : a = X.length) (hb : b = X.length + M.length) :
    slice s a b = M := by
  subst hs ha hb; exact slice_mid _ _ _

theorem isPrefix_append (p v : Str) : isPrefix p (p ++ v) = true := by
  induction p with
  | nil => cases v <;> simp [isPrefix]
  | cons c p ih => simp [isPrefix, ih]

theorem contains_mid (u p v : Str) (hp : p ≠ []) : contains p (u ++ p ++ v) = true := by
  induction u with
  | nil =>
    cases p with
    | nil => exact absurd rfl hp
    | cons c p =>
      have := isPrefix_append (c :: p) v
      simp only [List.nil_append, List.cons_append] at this ⊢
      rw [contains]
      simp [this]
  | cons c u ih =>
    simp only [List.cons_append]
    rw [contains]
    simp only [List.append_assoc] at ih
    simp [ih]

/-! ### the round trip -/

/-- fully parenthesised binary expressions over plain, trimmed, non-empty values -/
inductive BinW : Expr → Prop
  | leaf (t : Str) : Plain t → Word t → BinW (.leaf t)
  | comb (o : Op3) (l r : Expr) : BinW l → BinW r → BinW (.comb o l r)

theorem BinW.bin {e : Expr} (h : BinW e) : Bin e := by
  induction h with
  | leaf t hp _ => exact .leaf t hp
  | comb o l r _ _ ihl ihr => exact .comb o l r ihl ihr

/-- the tree the notation denotes, as a tree of the combination parser -/
def treeOf : Expr → CNode
  | .leaf t => .leaf t
  | .comb o l r => .comb o.str [] [] (treeOf l) (treeOf r)
  | _ => .nil

def depth : Expr → Nat
  | .comb _ l r => 1 + max (depth l) (depth r)
  | _ => 0

theorem side_operand (x : Expr) (hx : BinW x) (P : Str → Bool → PR) (a b : Nat) (input : Str) (soFar : CNode)
    (hP : ∀ o l r, x = .comb o l r →
      P (sp a ++ renderE x ++ sp b) true = .res ⟨treeOf x, sp a ++ renderE x ++ sp b, cNoError⟩) :
    side '(' ')' P input soFar (sp a ++ renderE x ++ sp b) = .child (treeOf x) := by
  cases hx with
  | leaf t hp hw =>
    have hpl : Plain (sp a ++ renderE (.leaf t) ++ sp b) := by
      rw [renderE]; exact plain_append (plain_append (plain_sp a) hp) (plain_sp b)
    unfold side
    rw [detect_plain _ hpl]
    have ht : trimSp (sp a ++ (t ++ sp b)) = t := by rw [← List.append_assoc]; exact trimSp_word t hw a b
    simp [renderE, ht, hw.ne, treeOf]
  | comb o l r hl hr =>
    obtain ⟨lm', hd, hl0⟩ := detect_render o l r hl.bin hr.bin a b ((sp a ++ renderE (.comb o l r) ++ sp b).length + 1)
    have hne : lm'.isEmpty = false := by
      cases lm' with
      | nil => simp at hl0
      | cons _ _ => rfl
    unfold side
    rw [hd]
    simp only [hne, hP o l r rfl]
    simp [treeOf]

theorem length_sp (n : Nat) : (sp n).length = n := by simp [sp]

/-- the boundary the scan records for `(l [o] r)` written at position `n` -/
def bnd (o : Op3) (l r : Expr) (n : Nat) : Bnd :=
  { left := n + 1, right := n + (renderE l).length + (renderE r).length + o.str.length + 5,
    op := n + (renderE l).length + 2, opVal := o.str, complete := true }

theorem ents_comb (o : Op3) (l r : Expr) (n : Nat) : ents (.comb o l r) n = [bnd o l r n] := rfl

/-- one turn of the loop over the entries of a level: the node of the complete combination
    `(l [o] r)` that stands anywhere in the text (`pre`, `post` arbitrary) at any index of the
    level, given the shared text found for it -/
theorem procEntries_step (o : Op3) (l r : Expr) (hl : BinW l) (hr : BinW r) (f : Nat) (pre post : Str)
    (nested : Bool) (lm : LM) (k idx : Nat) (es bs : List Bnd) (acc : List CNode) (sl sr : List Str)
    (ihl : ∀ o' l' r', l = .comb o' l' r' → ∀ a b,
      parse false f (sp a ++ renderE l ++ sp b) true = .res ⟨treeOf l, sp a ++ renderE l ++ sp b, cNoError⟩)
    (ihr : ∀ o' l' r', r = .comb o' l' r' → ∀ a b,
      parse false f (sp a ++ renderE r ++ sp b) true = .res ⟨treeOf r, sp a ++ renderE r ++ sp b, cNoError⟩)
    (hsh : extractShared (pre ++ renderE (.comb o l r) ++ post) lm k idx es (bnd o l r pre.length) = (sl, sr)) :
    procEntries '(' ')' (parse false f) (pre ++ renderE (.comb o l r) ++ post) nested lm k es
        (bnd o l r pre.length :: bs) idx acc
      = if !nested || es.length > 1 then
          procEntries '(' ')' (parse false f) (pre ++ renderE (.comb o l r) ++ post) nested lm k es bs (idx+1)
            (acc ++ [.comb o.str sl sr (treeOf l) (treeOf r)])
        else .res ⟨.comb o.str sl sr (treeOf l) (treeOf r), pre ++ renderE (.comb o l r) ++ post, cNoError⟩ := by
  obtain ⟨I, hI⟩ : ∃ I, I = pre ++ renderE (.comb o l r) ++ post := ⟨_, rfl⟩
  rw [← hI] at hsh ⊢
  have hI1 : I = (pre ++ ['(']) ++ (renderE l ++ [' ']) ++ (o.br ++ ' ' :: renderE r ++ ')' :: post) := by
    rw [hI]; simp [renderE]
  have hI2 : I = (pre ++ '(' :: renderE l ++ ' ' :: o.br) ++ (' ' :: renderE r) ++ (')' :: post) := by
    rw [hI]; simp [renderE]
  have hbr : (o.br).length = o.str.length + 2 := by simp [Op3.br]
  have hleft : slice I (pre.length + 1) (pre.length + (renderE l).length + 2) = sp 0 ++ renderE l ++ sp 1 :=
    slice_of I _ _ _ _ _ hI1 (by simp) (by simp; omega) |>.trans (by simp [sp])
  have hright : slice I (pre.length + (renderE l).length + 2 + o.str.length + 2)
      (pre.length + (renderE l).length + (renderE r).length + o.str.length + 5) = sp 1 ++ renderE r ++ sp 0 :=
    slice_of I _ _ _ _ _ hI2 (by simp [hbr]; omega) (by simp [hbr]; omega) |>.trans (by simp [sp])
  have hs1 := side_operand l hl (parse false f) 0 1 I (.comb o.str sl sr .nil .nil) (fun o' l' r' h => ihl o' l' r' h 0 1)
  have hs2 := side_operand r hr (parse false f) 1 0 I (.comb o.str sl sr (treeOf l) .nil) (fun o' l' r' h => ihr o' l' r' h 1 0)
  rw [procEntries]
  simp only [hsh]
  simp only [bnd, hleft, hright]
  simp only [Bool.not_true, Bool.false_eq_true, if_false, hs1]
  simp only [hs2]

/-- building the node of one complete combination that is alone on its level -/
theorem procEntries_comb (o : Op3) (l r : Expr) (hl : BinW l) (hr : BinW r) (f : Nat) (pre post : Str)
    (nested : Bool) (lm : LM) (k : Nat) (sl sr : List Str)
    (ihl : ∀ o' l' r', l = .comb o' l' r' → ∀ a b,
      parse false f (sp a ++ renderE l ++ sp b) true = .res ⟨treeOf l, sp a ++ renderE l ++ sp b, cNoError⟩)
    (ihr : ∀ o' l' r', r = .comb o' l' r' → ∀ a b,
      parse false f (sp a ++ renderE r ++ sp b) true = .res ⟨treeOf r, sp a ++ renderE r ++ sp b, cNoError⟩)
    (hsh : extractShared (pre ++ renderE (.comb o l r) ++ post) lm k 0 [bnd o l r pre.length] (bnd o l r pre.length) = (sl, sr)) :
    procEntries '(' ')' (parse false f) (pre ++ renderE (.comb o l r) ++ post) nested lm k [bnd o l r pre.length]
        [bnd o l r pre.length] 0 []
      = .res ⟨.comb o.str sl sr (treeOf l) (treeOf r), pre ++ renderE (.comb o l r) ++ post, cNoError⟩ := by
  rw [procEntries_step o l r hl hr f pre post nested lm k 0 _ [] [] sl sr ihl ihr hsh]
  cases nested <;> simp [procEntries, finish]

/-- the part of `ParseIntoNodeTree` after the scan, on the level map of a rendered combination -/
theorem afterDetect_comb (o : Op3) (l r : Expr) (hl : BinW l) (hr : BinW r) (f a b : Nat) (nested : Bool) (rest : LM)
    (ihl : ∀ o' l' r', l = .comb o' l' r' → ∀ a b,
      parse false f (sp a ++ renderE l ++ sp b) true = .res ⟨treeOf l, sp a ++ renderE l ++ sp b, cNoError⟩)
    (ihr : ∀ o' l' r', r = .comb o' l' r' → ∀ a b,
      parse false f (sp a ++ renderE r ++ sp b) true = .res ⟨treeOf r, sp a ++ renderE r ++ sp b, cNoError⟩) :
    afterDetect '(' ')' (parse false f) nested
        (.ok (ents (.comb o l r) a :: rest) (sp a ++ renderE (.comb o l r) ++ sp b))
      = .res ⟨treeOf (.comb o l r), sp a ++ renderE (.comb o l r) ++ sp b, cNoError⟩ := by
  have hbr : (o.br).length = o.str.length + 2 := by simp [Op3.br]
  have hI1 : sp a ++ renderE (.comb o l r) ++ sp b
      = (sp a ++ ['(']) ++ ((renderE l ++ [' ']) ++ (o.br ++ ' ' :: renderE r ++ ')' :: sp b)) := by
    simp [renderE]
  have hI2 : sp a ++ renderE (.comb o l r) ++ sp b
      = (sp a ++ '(' :: renderE l ++ ' ' :: o.br ++ ' ' :: renderE r) ++ (')' :: sp b) := by
    simp [renderE]
  have hsh : extractShared (sp a ++ renderE (.comb o l r) ++ sp b) (ents (.comb o l r) a :: rest) 0 0
      [bnd o l r (sp a).length] (bnd o l r (sp a).length) = ([], []) := by
    have htake : (sp a ++ renderE (.comb o l r) ++ sp b).take (a + 1) = sp a ++ ['('] := by
      rw [hI1, List.take_left' (by simp [length_sp])]
    have hdrop : (sp a ++ renderE (.comb o l r) ++ sp b).drop (a + (renderE l).length + (renderE r).length + o.str.length + 5)
        = ')' :: sp b := by
      rw [hI2, List.drop_left' (by simp [length_sp, hbr]; omega)]
    simp only [extractShared, enclosing, bnd, length_sp, htake, hdrop, if_true, Nat.zero_add,
      List.getElem?_cons_succ, List.getElem?_nil, cleanShared_left, cleanShared_right]
  have := procEntries_comb o l r hl hr f (sp a) (sp b) nested (ents (.comb o l r) a :: rest) 0 [] [] ihl ihr hsh
  rw [afterDetect]
  simp only [ents_comb, firstComplete] at this ⊢
  simp only [length_sp] at this
  simp only [List.isEmpty_cons, Bool.false_eq_true, if_false, List.any_cons, List.any_nil, Bool.or_false, bnd, if_true]
  simp only [bnd] at this
  rw [this]
  simp [treeOf]

/-- the early exit of `ParseIntoNodeTree` does not apply to a text that holds an operator -/
theorem parse_unfold (o : Op3) (u v : Str) (f : Nat) (nested : Bool) :
    parse false (f+1) (u ++ o.br ++ v) nested
      = afterDetect '(' ')' (parse false f) nested (detect '(' ')' ((u ++ o.br ++ v).length + 1) (u ++ o.br ++ v)) := by
  have hcont : (contains bAND (u ++ o.br ++ v) || contains bXOR (u ++ o.br ++ v) || contains bOR (u ++ o.br ++ v)
      || contains bBAND (u ++ o.br ++ v)) = true := by
    have := contains_mid u o.br v (by simp [Op3.br])
    cases o <;> simp_all [Op3.br, Op3.str, bAND, bXOR, bOR, opAND, opOR, opXOR, str]
  rw [parse]
  simp only [hcont, Bool.false_eq_true, if_false, Bool.not_false, Bool.not_true, Bool.and_false]

theorem parse_comb (o : Op3) (l r : Expr) (hl : BinW l) (hr : BinW r) (f a b : Nat) (nested : Bool)
    (ihl : ∀ o' l' r', l = .comb o' l' r' → ∀ a b,
      parse false f (sp a ++ renderE l ++ sp b) true = .res ⟨treeOf l, sp a ++ renderE l ++ sp b, cNoError⟩)
    (ihr : ∀ o' l' r', r = .comb o' l' r' → ∀ a b,
      parse false f (sp a ++ renderE r ++ sp b) true = .res ⟨treeOf r, sp a ++ renderE r ++ sp b, cNoError⟩) :
    parse false (f+1) (sp a ++ renderE (.comb o l r) ++ sp b) nested
      = .res ⟨treeOf (.comb o l r), sp a ++ renderE (.comb o l r) ++ sp b, cNoError⟩ := by
  obtain ⟨lm', hd, hl0⟩ := detect_render o l r hl.bin hr.bin a b ((sp a ++ renderE (.comb o l r) ++ sp b).length + 1)
  obtain ⟨es0, rest, hlm⟩ : ∃ es0 rest, lm' = es0 :: rest := by
    cases lm' with
    | nil => simp at hl0
    | cons x xs => exact ⟨x, xs, rfl⟩
  subst hlm
  simp only [List.getElem?_cons_zero, Option.some.injEq] at hl0
  subst hl0
  have hI3 : sp a ++ renderE (.comb o l r) ++ sp b
      = (sp a ++ '(' :: renderE l ++ [' ']) ++ o.br ++ (' ' :: renderE r ++ ')' :: sp b) := by
    simp [renderE]
  have := parse_unfold o (sp a ++ '(' :: renderE l ++ [' ']) (' ' :: renderE r ++ ')' :: sp b) f nested
  rw [← hI3] at this
  rw [this, hd]
  exact afterDetect_comb o l r hl hr f a b nested rest ihl ihr

theorem parse_render_aux (e : Expr) (he : BinW e) : ∀ o l r, e = .comb o l r → ∀ (fuel a b : Nat) (nested : Bool),
    depth e ≤ fuel →
    parse false fuel (sp a ++ renderE e ++ sp b) nested = .res ⟨treeOf e, sp a ++ renderE e ++ sp b, cNoError⟩ := by
  induction he with
  | leaf t _ _ => intro o l r h; cases h
  | comb o l r hl hr ihl ihr =>
    intro _ _ _ _ fuel a b nested hf
    cases fuel with
    | zero => simp [depth] at hf
    | succ f =>
      simp only [depth] at hf
      apply parse_comb o l r hl hr f a b nested
      · intro o' l' r' h a b; exact ihl o' l' r' h f a b true (by omega)
      · intro o' l' r' h a b; exact ihr o' l' r' h f a b true (by omega)

/-- **Round trip.** The combination parser, applied to the rendering of a fully parenthesised
    binary operator expression of any depth, returns the denoted tree, the unchanged text and no
    error — as a top-level call and as a nested call, with any sufficient fuel. -/
theorem parse_render (o : Op3) (l r : Expr) (h : BinW (.comb o l r)) (nested : Bool) (fuel : Nat)
    (hf : depth (.comb o l r) ≤ fuel) :
    parse false fuel (renderE (.comb o l r)) nested
      = .res ⟨treeOf (.comb o l r), renderE (.comb o l r), cNoError⟩ := by
  have := parse_render_aux _ h o l r rfl fuel 0 0 nested hf
  simpa [sp] using this

/-- image of a combination-parser tree among the parsed trees of the specification -/
def toP : CNode → PNode
  | .leaf t => .leaf t [] [] {} []
  | .comb op sl sr l r => .comb op sl sr {} [] (toP l) (toP r)
  | _ => .empty

theorem toP_treeOf (e : Expr) (h : BinW e) : toP (treeOf e) = denoteE [] [] e := by
  induction h with
  | leaf t _ _ => simp [treeOf, toP, denoteE]
  | comb o l r _ _ ihl ihr => simp [treeOf, toP, denoteE, ihl, ihr]

/-- a value without operators is returned as one leaf, trimmed, with the code "no combinations" -/
theorem contains_of_not_mem (c : Char) (p t : Str) (h : c ∉ t) : contains (c :: p) t = false := by
  induction t with
  | nil => simp [contains]
  | cons d t ih =>
    rw [contains]
    have hd : (c == d) = false := by
      simp only [beq_eq_false_iff_ne, ne_eq]; intro hh; exact h (by simp [hh])
    simp [isPrefix, hd, ih (fun hh => h (by simp [hh]))]

theorem parse_plain (t : Str) (h : Plain t) (nested : Bool) (fuel : Nat) :
    parse false (fuel+1) t nested = .res ⟨.leaf (trimSp t), t, cNoCombinations⟩ := by
  have hb : '[' ∉ t := fun hh => (h _ hh).2.2 rfl
  rw [parse]
  simp [bAND, bXOR, bOR, bBAND, contains_of_not_mem _ _ _ hb]

end IGVerif.Combo
