import IGVerif.Proofs.TabRows
/-! The Statement ID cell of every own row of `Tab.stmtRows` is the id computed for that row
    (`id.N`), never overwritten by a component cell, and these ids are pairwise different. -/
namespace IGVerif.Tab
open IGVerif

theorem find_map_ne (r : Row) (k k' v : Str) (h : k ≠ k') :
    (r.map (fun p => if p.1 = k then (k, v) else p)).find? (fun p => p.1 = k') = r.find? (fun p => p.1 = k') := by
  induction r with
  | nil => rfl
  | cons p r ih =>
    simp only [List.map_cons, List.find?_cons]
    by_cases hp : p.1 = k
    · have : ¬ p.1 = k' := fun e => h (hp.symm.trans e)
      simp [hp, h, this, ih]
    · simp [hp, ih]

theorem get_set_ne (r : Row) (k k' v : Str) (h : k ≠ k') : (r.set k v).get k' = r.get k' := by
  unfold Row.set
  split
  · unfold Row.get; rw [find_map_ne r k k' v h]
  · unfold Row.get; rw [List.find?_append]; simp [h]

/-- a column name derived from a component never is the id column -/
theorem ref_ne_kID (k : Str) : k ++ refSuffix ≠ kID := by
  intro e
  have : refSuffix <:+ kID := ⟨k, e⟩
  revert this; decide

theorem ann_ne_kID (k : Str) : k ++ annSuffix ≠ kID := by
  intro e
  have : annSuffix <:+ kID := ⟨k, e⟩
  revert this; decide

/-- values whose component names (own and of their private nodes) are not the id column's name -/
def OKv (v : LeafV) : Prop :=
  v.comp ≠ kID ∧ ∀ t sl sr m priv, v.node = .leaf t sl sr m priv → ∀ p ∈ priv, p.meta.ct ≠ kID

theorem addPrivate_id (o : Opts) (stmtId : Str) (key : List Nat) (priv : List PNode) (hp : ∀ p ∈ priv, p.meta.ct ≠ kID) :
    ∀ (row : Row) (reg : List Nested) (i : Nat), (addPrivate o stmtId key row reg priv i).1.get kID = row.get kID := by
  induction priv with
  | nil => intro row reg i; simp [addPrivate]
  | cons p ps ih =>
    intro row reg i
    have h1 : p.meta.ct ≠ kID := hp p (by simp)
    have h2 : ∀ q ∈ ps, q.meta.ct ≠ kID := fun q hq => hp q (by simp [hq])
    cases p with
    | leaf t sl sr m pr => simp only [addPrivate]; rw [ih h2]; exact get_set_ne _ _ _ _ h1
    | stmt m fs =>
      simp only [addPrivate]
      split <;> (rw [ih h2]; first | exact get_set_ne _ _ _ _ (ref_ne_kID _) | exact get_set_ne _ _ _ _ h1)
    | pairs m ns =>
      simp only [addPrivate]
      split <;> (rw [ih h2]; first | exact get_set_ne _ _ _ _ (ref_ne_kID _) | exact get_set_ne _ _ _ _ h1)
    | comb => simp only [addPrivate]; rw [ih h2]
    | empty => simp only [addPrivate]; rw [ih h2]

theorem leafCell_id (o : Opts) (stmtId : Str) (col : Column) (ci : Nat) (v : LeafV) (t : Str) (priv : List PNode)
    (hv : v.comp ≠ kID) (hp : ∀ p ∈ priv, p.meta.ct ≠ kID) (row : Row) (reg : List Nested) :
    (leafCell o stmtId col ci v t priv row reg).1.get kID = row.get kID := by
  unfold leafCell
  simp only []
  split
  · rw [get_set_ne _ _ _ _ (ann_ne_kID _), addPrivate_id o stmtId _ priv hp, get_set_ne _ _ _ _ hv]
  · rw [addPrivate_id o stmtId _ priv hp, get_set_ne _ _ _ _ hv]

theorem nestedEntry_id (o : Opts) (stmtId : Str) (col : Column) (comp : Str)
    (entries : List (PNode × Link.NPath × Option Str)) (st : Row × List Nested) (ei : Nat) :
    (nestedEntry o stmtId col (comp ++ refSuffix) entries st ei).1.get kID = st.1.get kID := by
  unfold nestedEntry
  simp only []
  split <;> (try split) <;> exact get_set_ne _ _ _ _ (ref_ne_kID _)

theorem foldl_fst_inv {β : Type} (f : Row × β → Nat → Row × β) (hf : ∀ st i, (f st i).1.get kID = st.1.get kID)
    (is : List Nat) (st : Row × β) : (is.foldl f st).1.get kID = st.1.get kID := by
  induction is generalizing st with
  | nil => rfl
  | cons i is ih => simp only [List.foldl_cons]; rw [ih, hf]

theorem nestedCell_id (o : Opts) (stmtId : Str) (col : Column) (v : LeafV) (n : PNode) (row : Row) (reg : List Nested) :
    (nestedCell o stmtId col v n row reg).1.get kID = row.get kID := by
  unfold nestedCell
  simp only []
  exact foldl_fst_inv _ (nestedEntry_id o stmtId col v.comp _) _ _

theorem cellStep_id (o : Opts) (stmtId : Str) (cols : List Column) (perm : List LeafV)
    (refs : List (List (List Bool × List Refs.Ref))) (st : Row × List Nested × List Str) (ci : Nat)
    (hv : OKv (perm.getD ci default)) :
    (cellStep o stmtId cols perm refs st ci).1.get kID = st.1.get kID := by
  unfold cellStep
  simp only []
  split
  · rename_i t sl sr m priv heq
    exact leafCell_id o stmtId _ ci _ t priv hv.1 (hv.2 t sl sr m priv heq) _ _
  · rfl
  · exact nestedCell_id o stmtId _ _ _ _ _

theorem foldl_cells_id (o : Opts) (stmtId : Str) (cols : List Column) (perm : List LeafV)
    (refs : List (List (List Bool × List Refs.Ref))) (hv : ∀ ci, OKv (perm.getD ci default)) :
    ∀ (is : List Nat) (st : Row × List Nested × List Str),
      (is.foldl (cellStep o stmtId cols perm refs) st).1.get kID = st.1.get kID := by
  intro is
  induction is with
  | nil => intro st; rfl
  | cons i is ih => intro st; simp only [List.foldl_cons]; rw [ih, cellStep_id o stmtId cols perm refs st i (hv i)]

theorem kStmtAnn_ne : kStmtAnn ≠ kID := by decide
theorem kLinkComps_ne : kLinkComps ≠ kID := by decide
theorem kLinkStmts_ne : kLinkStmts ≠ kID := by decide

theorem get_ite_set (p : Prop) [Decidable p] (r : Row) (k v : Str) (hk : k ≠ kID) :
    (if p then r else r.set k v).get kID = r.get kID := by
  by_cases h : p <;> simp [h, get_set_ne _ _ _ _ hk]

theorem row0_id (o : Opts) (stmtAnn : Option Str) (id : Str) :
    Row.get (match o.ann, stmtAnn with
      | true, some a => Row.set [(kID, id)] kStmtAnn (adjust o.gs a)
      | _, _ => [(kID, id)]) kID = id := by
  have hb : Row.get [(kID, id)] kID = id := by simp [Row.get]
  split
  · rw [get_set_ne _ _ _ _ kStmtAnn_ne]; exact hb
  · exact hb

/-- the row added by one step carries the id computed for it -/
theorem rowStep_id (o : Opts) (stmtId : Str) (stmtAnn : Option Str) (stmtLinks : Str) (cols : List Column)
    (perms : List (List LeafV)) (refs : List (List (List Bool × List Refs.Ref))) (acc : List Row × List Nested) (ri : Nat)
    (hv : ∀ ci, OKv ((perms.getD ri []).getD ci default)) :
    ∃ row, (rowStep o stmtId stmtAnn stmtLinks cols perms refs acc ri).1 = acc.1 ++ [row] ∧
      row.get kID = subId stmtId (perms.length > 1) ri := by
  unfold rowStep
  simp only []
  refine ⟨_, rfl, ?_⟩
  rw [get_ite_set _ _ _ _ kLinkStmts_ne, get_ite_set _ _ _ _ kLinkComps_ne,
    foldl_cells_id o stmtId cols _ refs hv]
  exact row0_id o stmtAnn _

end IGVerif.Tab

namespace IGVerif.Tab
open IGVerif

theorem foldl_rows_ids {σ : Type} (f : List Row × σ → Nat → List Row × σ) (g : Nat → Str)
    (hf : ∀ acc i, ∃ r, (f acc i).1 = acc.1 ++ [r] ∧ r.get kID = g i) :
    ∀ (is : List Nat) (acc : List Row × σ),
      ((is.foldl f acc).1.map (fun r => r.get kID)) = acc.1.map (fun r => r.get kID) ++ is.map g := by
  intro is
  induction is with
  | nil => intro acc; simp
  | cons i is ih =>
    intro acc
    obtain ⟨r, hr, hg⟩ := hf acc i
    simp only [List.foldl_cons]
    rw [ih, hr]
    simp [hg]

/-- **The Statement ID column of a statement's own rows is `id.1 … id.n`** (or `id` for a single
    row): no component cell ever overwrites it -/
theorem ownRows_ids (o : Opts) (fs : PStmt) (stmtId : Str) (stmtAnn : Option Str) (stmtLinks : Str)
    (hv : ∀ ri ci, OKv (((permsOf (columnsOf fs)).getD ri []).getD ci default)) :
    (ownRows o fs stmtId stmtAnn stmtLinks).1.map (fun r => r.get kID) =
      (List.range (permsOf (columnsOf fs)).length).map (subId stmtId ((permsOf (columnsOf fs)).length > 1)) := by
  unfold ownRows
  simp only []
  rw [foldl_rows_ids _ (subId stmtId ((permsOf (columnsOf fs)).length > 1))
    (fun acc i => rowStep_id o stmtId stmtAnn stmtLinks _ _ _ acc i (hv i))]
  simp

end IGVerif.Tab
