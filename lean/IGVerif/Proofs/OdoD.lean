import IGVerif.Proofs.OdoC
/-! Odometer, part D: selecting along all positions is the Cartesian product. -/
namespace IGVerif.Odo

variable {α : Type}

def optElem (a : List α) (d : Nat) : List α := match a[d]? with | some x => [x] | none => []

theorem select_cons (a : List α) (as : List (List α)) (p : Nat) (ps : List Nat) :
    select (a :: as) (p :: ps) = optElem a p ++ select as ps := rfl

theorem select_snoc (as : List (List α)) (a : List α) (ps : List Nat) (d : Nat) (h : as.length = ps.length) :
    select (as ++ [a]) (ps ++ [d]) = select as ps ++ optElem a d := by
  induction as generalizing ps with
  | nil =>
    cases ps with
    | nil =>
      show optElem a d ++ select [] [] = select [] [] ++ optElem a d
      simp [select]
    | cons _ _ => simp at h
  | cons b bs ih =>
    cases ps with
    | nil => simp at h
    | cons p ps' =>
      simp only [List.cons_append, select_cons, List.append_assoc]
      rw [ih ps' (by simpa using h)]

/-- row for a reversed position on the reversed array list -/
def rowOf : (ras : List (List α)) → (q : List Nat) → List α
  | a :: ras, d :: hi => rowOf ras hi ++ optElem a d
  | _, _ => []

theorem sel_rowOf (ras : List (List α)) (q : List Nat) (h : ras.length = q.length) :
    select ras.reverse q.reverse = rowOf ras q := by
  induction ras generalizing q with
  | nil => cases q <;> simp_all [select, rowOf]
  | cons a ras ih =>
    cases q with
    | nil => simp at h
    | cons d hi =>
      simp only [List.reverse_cons, rowOf]
      rw [select_snoc _ _ _ _ (by simpa using h), ih hi (by simpa using h)]

theorem length_of_mem_allR (rls q : List Nat) (h : q ∈ allR rls) : q.length = rls.length := by
  induction rls generalizing q with
  | nil => simp [allR] at h; simp [h]
  | cons l ls ih =>
    simp only [allR, List.mem_flatMap, List.mem_map, List.mem_range] at h
    obtain ⟨hi, hhi, d, _, rfl⟩ := h
    simp [ih hi hhi]

/-- elements of an array as one-element rows; an empty array contributes the empty row once -/
def elemsOrSkip (a : List α) : List (List α) := if a = [] then [[]] else a.map (fun x => [x])

theorem range_optElem (a : List α) : (List.range (rad a.length)).map (optElem a) = elemsOrSkip a := by
  unfold elemsOrSkip rad
  by_cases h : a = []
  · subst h; simp [optElem]
  · have hl : a.length ≠ 0 := by simpa using h
    simp only [hl, h, if_false]
    apply List.ext_getElem
    · simp
    · intro i h1 h2
      simp only [List.length_map, List.length_range] at h1
      simp [optElem, List.getElem?_eq_getElem h1]

/-- product in the reversed convention -/
def prodR : List (List α) → List (List α)
  | [] => [[]]
  | a :: ras => (prodR ras).flatMap (fun row => (elemsOrSkip a).map (fun x => row ++ x))

theorem allR_rowOf (ras : List (List α)) :
    (allR (ras.map List.length)).map (rowOf ras) = prodR ras := by
  induction ras with
  | nil => simp [allR, rowOf, prodR]
  | cons a ras ih =>
    simp only [List.map_cons, allR, prodR, List.map_flatMap, List.map_map]
    rw [← ih, List.flatMap_map]
    congr 1
    funext h
    rw [← range_optElem a, List.map_map]
    rfl

theorem flatMap_single (a : List α) : a.flatMap (fun x => [[x]]) = a.map (fun x => [x]) := by
  induction a with
  | nil => rfl
  | cons x xs ih => simp [List.flatMap_cons, ih]

theorem product_snoc (as : List (List α)) (a : List α) :
    product (as ++ [a]) = (product as).flatMap (fun row => a.map (fun x => row ++ [x])) := by
  induction as with
  | nil => simp [product, flatMap_single]
  | cons b bs ih =>
    simp only [List.cons_append, product, ih, List.flatMap_assoc, List.map_flatMap, List.flatMap_map, List.map_map]
    rfl

theorem prodR_eq' (ras : List (List α)) : prodR ras = product (ras.reverse.filter (fun a => a ≠ [])) := by
  induction ras with
  | nil => rfl
  | cons a ras ih =>
    simp only [List.reverse_cons, prodR, List.filter_append]
    rw [ih]
    by_cases h : a = []
    · subst h
      simp [elemsOrSkip]
    · have hd : decide (a ≠ []) = true := by simp [h]
      simp only [List.filter_cons, hd, if_true, List.filter_nil, elemsOrSkip, h, if_false]
      rw [product_snoc]
      simp only [List.map_map]
      rfl

theorem prodR_eq (as : List (List α)) : prodR as.reverse = product (as.filter (fun a => a ≠ [])) := by
  simpa using prodR_eq' as.reverse

/-- **The odometer enumerates the Cartesian product**: for any number of arrays of any lengths
    (empty arrays are skipped), `GenerateNodeArrayPermutations` returns every way of choosing
    one element per non-empty array exactly in lexicographic order, first array slowest. -/
theorem generate_eq_product (arrays : List (List α)) (hne : arrays ≠ []) :
    generate arrays = some (product (arrays.filter (fun a => a ≠ []))) := by
  rw [generate_eq arrays hne]
  congr 1
  have h1 : ∀ q ∈ allR (rlens arrays), sel arrays q = rowOf arrays.reverse q := by
    intro q hq
    have hl := length_of_mem_allR _ q hq
    have := sel_rowOf arrays.reverse q (by simp [hl, rlens])
    simpa [sel] using this
  rw [List.map_congr_left h1]
  have := allR_rowOf arrays.reverse
  simp only [rlens]
  rw [this, prodR_eq]

end IGVerif.Odo
