import IGVerif.Proofs.ComboParse
/-! Chains: `(e₁ [o] e₂ [o] e₃ …)` with one operator. `detectCombinations` meets the repeated
    operator, wraps what precedes it in its own parentheses and starts over; after one such
    rewriting per additional operand the text is the rendering of the left-nested binary
    expression, which the round-trip theorem covers. -/
namespace IGVerif.Combo
open IGVerif

theorem scan_op_repeat (o : Op3) (rest : Str) (p : Nat) (st : St) (ms : List Mode) (X : List Bnd) (b : Bnd)
    (hm : st.modes = .right :: ms) (hl : st.lm[ms.length]? = some (X ++ [b])) (hb : b.left ≠ p)
    (hv : b.opVal = o.str) :
    scan '(' ')' ('[' :: (o.str ++ ']' :: rest)) p st = .rewrite b.left p := by
  have hop : opAt ('[' :: (o.str ++ ']' :: rest)) = some o.str := by
    have := opAt_br o rest
    simpa [Op3.br] using this
  rw [scan]
  simp [hop, hm, lastAt_of _ _ _ _ hl, hb, hv]

/-- the scan of `(e₁ [o] e₂ [o] …` stops at the second operator and asks for the rewriting -/
theorem scan_chain (o : Op3) (e1 e2 : Expr) (h1 : Bin e1) (h2 : Bin e2) (tail : Str) :
    scan '(' ')' ('(' :: (renderE e1 ++ ([' '] ++ ('[' :: (o.str ++ ']' :: ([' '] ++ (renderE e2 ++ ([' '] ++ ('[' :: (o.str ++ ']' :: tail)))))))))) 0 {}
      = .rewrite 1 ((renderE e1).length + (renderE e2).length + o.str.length + 6) := by
  rw [scan_open]
  obtain ⟨hE1, hlen1⟩ := ext_openAt ([] : LM) 0 { left := 0 + 1 } (by simp)
  obtain ⟨lm2, hs2, hE2⟩ := scan_render e1 h1 ([' '] ++ ('[' :: (o.str ++ ']' :: ([' '] ++ (renderE e2 ++ ([' '] ++ ('[' :: (o.str ++ ']' :: tail)))))))) (0+1)
    { modes := [.left], lm := openAt [] 0 { left := 0 + 1 }, gpar := (0 : Int) + 1 } (by simpa using hlen1)
  simp only [List.length_nil] at hs2 hE2 ⊢
  rw [hs2]
  rw [scan_plain [' '] _ _ _ (by intro c hc; simp at hc; subst hc; decide)]
  have hat1 := some_of_getD_append _ _ _ _ hE1.at_
  have hat2 : lm2[0]? = some (([] : LM)[0]?.getD [] ++ [{ left := 0 + 1 }]) := by
    rw [← hat1]; exact hE2.low _ (by simp)
  rw [scan_op o _ _ _ [] _ _ rfl hat2 (by simp)]
  have hsp : o.str ++ ']' :: ([' '] ++ (renderE e2 ++ ([' '] ++ ('[' :: (o.str ++ ']' :: tail)))))
      = (o.str ++ [']', ' ']) ++ (renderE e2 ++ ([' '] ++ ('[' :: (o.str ++ ']' :: tail)))) := by simp
  rw [hsp, scan_plain _ _ _ _ (plain_opstr o)]
  have hat3 := getElem?_modAt_eq lm2 0
    (modLast fun b => { b with op := 0 + 1 + (renderE e1).length + [' '].length, opVal := o.str })
  rw [hat2] at hat3
  simp only [Option.map_some, modLast_append_single] at hat3
  obtain ⟨lm4, hs4, hE4⟩ := scan_render e2 h2 ([' '] ++ ('[' :: (o.str ++ ']' :: tail)))
    (0 + 1 + (renderE e1).length + [' '].length + 1 + (o.str ++ [']', ' ']).length)
    { modes := [.right],
      lm := modAt lm2 0 (modLast fun b => { b with op := 0 + 1 + (renderE e1).length + [' '].length, opVal := o.str }),
      gpar := (0 : Int) + 1 }
    (by simp [length_modAt]; exact Nat.le_trans hlen1 hE2.len)
  simp only [List.length_nil] at hs4 hE4 ⊢
  rw [hs4]
  have hat4 : lm4[0]? = _ := (hE4.low _ (by simp)).trans hat3
  rw [scan_plain [' '] _ _ _ (by intro c hc; simp at hc; subst hc; decide)]
  rw [scan_op_repeat o _ _ _ [] _ _ rfl hat4 (by simp) rfl]
  simp
  omega

/-- text of `(e₁ [o] x₁ [o] x₂ …)` -/
def chainText (o : Op3) (e1 : Expr) (ops : List Expr) : Str := '(' :: renderE e1 ++ renderChain o ops ++ [')']

/-- left-nested binary expression of a chain -/
def assocL (o : Op3) : Expr → List Expr → Expr
  | acc, [] => acc
  | acc, x :: xs => assocL o (.comb o acc x) xs

theorem chainText_single (o : Op3) (e1 e2 : Expr) : chainText o e1 [e2] = renderE (.comb o e1 e2) := by
  simp [chainText, renderChain, renderE]

theorem render_chain (o : Op3) (e1 e2 : Expr) (es : List Expr) :
    renderE (.chain o e1 e2 es) = chainText o e1 (e2 :: es) := by
  simp [chainText, renderChain, renderE]

theorem parCount_renderChain (o : Op3) (ops : List Expr) (h : ∀ x ∈ ops, Bin x) : ∀ (cs : Str) (n : Int),
    Validate.parCount '(' ')' (renderChain o ops ++ cs) n = Validate.parCount '(' ')' cs n := by
  induction ops with
  | nil => intro cs n; simp [renderChain]
  | cons x xs ih =>
    intro cs n
    have hp : NoPar (' ' :: o.br ++ [' ']) := by
      cases o <;> simp [NoPar, Op3.br, Op3.str, opAND, opOR, opXOR, str]
    have e : renderChain o (x :: xs) ++ cs = (' ' :: o.br ++ [' ']) ++ (renderE x ++ (renderChain o xs ++ cs)) := by
      simp [renderChain]
    rw [e, parCount_nopar _ _ _ hp, parCount_render x (h x (by simp)), ih (fun y hy => h y (by simp [hy]))]

theorem parCount_chainText (o : Op3) (e1 : Expr) (ops : List Expr) (h1 : Bin e1) (h : ∀ x ∈ ops, Bin x) :
    Validate.parCount '(' ')' (chainText o e1 ops) 0 = 0 := by
  have e : chainText o e1 ops = '(' :: (renderE e1 ++ (renderChain o ops ++ [')'])) := by simp [chainText]
  rw [e, Validate.parCount]
  simp only [if_true]
  rw [parCount_render e1 h1, parCount_renderChain o ops h]
  simp [Validate.parCount]

/-- one rewriting step of `detectCombinations` on a chain with at least three operands -/
theorem detect_chain_step (o : Op3) (e1 e2 e3 : Expr) (es : List Expr) (h1 : Bin e1) (h2 : Bin e2)
    (h : ∀ x ∈ e3 :: es, Bin x) (fuel : Nat) :
    detect '(' ')' (fuel+1) (chainText o e1 (e2 :: e3 :: es))
      = detect '(' ')' fuel (chainText o (.comb o e1 e2) (e3 :: es)) := by
  have hpc := parCount_chainText o e1 (e2 :: e3 :: es) h1 (by
    intro x hx; simp at hx; rcases hx with rfl | hx
    · exact h2
    · exact h x (by simpa using hx))
  obtain ⟨tail, htail⟩ : ∃ tail, tail = [' '] ++ (renderE e3 ++ (renderChain o es ++ [')'])) := ⟨_, rfl⟩
  have hE : chainText o e1 (e2 :: e3 :: es)
      = '(' :: (renderE e1 ++ ([' '] ++ ('[' :: (o.str ++ ']' :: ([' '] ++ (renderE e2 ++ ([' '] ++ ('[' :: (o.str ++ ']' :: tail))))))))) := by
    rw [htail]; simp [chainText, renderChain, Op3.br]
  have hsc := scan_chain o e1 e2 h1 h2 tail
  rw [← hE] at hsc
  rw [detect]
  simp only [hpc, hsc]
  simp only [ne_eq, not_true_eq_false, if_false]
  congr 1
  -- the rewritten text
  obtain ⟨X, hX⟩ : ∃ X, X = renderE e1 ++ ' ' :: o.br ++ ' ' :: renderE e2 := ⟨_, rfl⟩
  have hE2 : chainText o e1 (e2 :: e3 :: es) = (['('] ++ X ++ [' ']) ++ (o.br ++ tail) := by
    rw [hE, hX]; simp [Op3.br]
  have hlen : (renderE e1).length + (renderE e2).length + o.str.length + 6 = X.length + 2 := by
    rw [hX]; simp [Op3.br]; omega
  have ht : (chainText o e1 (e2 :: e3 :: es)).take 1 = ['('] := by rw [hE]; rfl
  have hd1 : ((chainText o e1 (e2 :: e3 :: es)).drop 1).take (X.length + 2 - 1 - 1) = X := by
    rw [hE2]; simp
  have hd2 : (chainText o e1 (e2 :: e3 :: es)).drop (X.length + 2) = o.br ++ tail := by
    rw [hE2, List.drop_left' (by simp)]
  unfold rewriteExpr
  rw [hlen, ht, hd1, hd2, hX, htail]
  simp [chainText, renderChain, renderE]

theorem length_renderChain (o : Op3) (ops : List Expr) : ops.length ≤ (renderChain o ops).length := by
  induction ops with
  | nil => simp
  | cons x xs ih => simp [renderChain]; omega

/-- after one rewriting per additional operand the chain has become the left-nested expression -/
theorem detect_chain (o : Op3) (ops : List Expr) : ∀ (e1 e2 : Expr), Bin e1 → Bin e2 → (∀ x ∈ ops, Bin x) → ∀ fuel,
    detect '(' ')' (fuel + ops.length) (chainText o e1 (e2 :: ops))
      = detect '(' ')' fuel (renderE (assocL o e1 (e2 :: ops))) := by
  induction ops with
  | nil => intro e1 e2 _ _ _ fuel; simp [chainText_single, assocL]
  | cons e3 es ih =>
    intro e1 e2 h1 h2 h fuel
    have : fuel + (e3 :: es).length = (fuel + es.length) + 1 := by simp; omega
    rw [this, detect_chain_step o e1 e2 e3 es h1 h2 h, ih (.comb o e1 e2) e3 (.comb o e1 e2 h1 h2) (h e3 (by simp))
      (fun x hx => h x (by simp [hx]))]
    simp [assocL]

theorem assocL_comb (o : Op3) (ops : List Expr) : ∀ (e1 e2 : Expr), BinW e1 → BinW e2 → (∀ x ∈ ops, BinW x) →
    ∃ l r, assocL o e1 (e2 :: ops) = .comb o l r ∧ BinW l ∧ BinW r := by
  induction ops with
  | nil => intro e1 e2 h1 h2 _; exact ⟨e1, e2, by simp [assocL], h1, h2⟩
  | cons e3 es ih =>
    intro e1 e2 h1 h2 h
    have := ih (.comb o e1 e2) e3 (.comb o e1 e2 h1 h2) (h e3 (by simp)) (fun x hx => h x (by simp [hx]))
    simpa [assocL] using this

/-- **Chains.** The combination parser turns `(e₁ [o] e₂ [o] … [o] eₙ)` into the left-nested
    tree, returns the text with the parentheses it has introduced, and no error. -/
theorem parse_chain (o : Op3) (e1 e2 : Expr) (es : List Expr) (h1 : BinW e1) (h2 : BinW e2) (hes : ∀ x ∈ es, BinW x)
    (nested : Bool) (fuel : Nat) (hf : depth (assocL o e1 (e2 :: es)) ≤ fuel) :
    parse false fuel (renderE (.chain o e1 e2 es)) nested
      = .res ⟨treeOf (assocL o e1 (e2 :: es)), renderE (assocL o e1 (e2 :: es)), cNoError⟩ := by
  obtain ⟨l, r, hA, hl, hr⟩ := assocL_comb o es e1 e2 h1 h2 hes
  rw [hA] at hf ⊢
  cases fuel with
  | zero => simp [depth] at hf
  | succ f =>
    simp only [depth] at hf
    rw [render_chain]
    -- the early exit does not apply
    have hT : chainText o e1 (e2 :: es) = ('(' :: renderE e1 ++ [' ']) ++ o.br ++ (' ' :: renderE e2 ++ renderChain o es ++ [')']) := by
      simp [chainText, renderChain]
    have hu := parse_unfold o ('(' :: renderE e1 ++ [' ']) (' ' :: renderE e2 ++ renderChain o es ++ [')']) f nested
    rw [← hT] at hu
    rw [hu]
    -- the rewritings
    have hlen : es.length ≤ (chainText o e1 (e2 :: es)).length + 1 := by
      have := length_renderChain o es
      simp [chainText, renderChain]; omega
    obtain ⟨k, hk⟩ : ∃ k, (chainText o e1 (e2 :: es)).length + 1 = k + es.length := ⟨_, (Nat.sub_add_cancel hlen).symm⟩
    rw [hk, detect_chain o es e1 e2 h1.bin h2.bin (fun x hx => (hes x hx).bin), hA]
    obtain ⟨lm', hd, hl0⟩ := detect_render o l r hl.bin hr.bin 0 0 k
    obtain ⟨es0, rest, hlm⟩ : ∃ es0 rest, lm' = es0 :: rest := by
      cases lm' with
      | nil => simp at hl0
      | cons x xs => exact ⟨x, xs, rfl⟩
    subst hlm
    simp only [List.getElem?_cons_zero, Option.some.injEq] at hl0
    subst hl0
    have h0 : sp 0 ++ renderE (.comb o l r) ++ sp 0 = renderE (.comb o l r) := by simp [sp]
    rw [h0] at hd
    rw [hd]
    have := afterDetect_comb o l r hl hr f 0 0 nested rest
      (fun o' l' r' h a b => parse_render_aux l hl o' l' r' h f a b true (by omega))
      (fun o' l' r' h a b => parse_render_aux r hr o' l' r' h f a b true (by omega))
    rw [h0] at this
    exact this

theorem denoteChain_cons (o : Op3) (A : PNode) (e : Expr) (es : List Expr) :
    denoteChain o [] [] A (e :: es) = denoteChain o [] [] (.comb o.str [] [] {} [] A (denoteE [] [] e)) es := by
  cases es <;> simp [denoteChain]

/-- the left-nested tree is the documented meaning of the chain -/
theorem toP_assocL (o : Op3) (es : List Expr) : ∀ (acc : Expr), BinW acc → (∀ x ∈ es, BinW x) →
    toP (treeOf (assocL o acc es)) = denoteChain o [] [] (toP (treeOf acc)) es := by
  induction es with
  | nil => intro acc _ _; simp [assocL, denoteChain]
  | cons e es ih =>
    intro acc ha h
    have he := h e (by simp)
    rw [assocL, ih (.comb o acc e) (.comb o acc e ha he) (fun x hx => h x (by simp [hx])), denoteChain_cons]
    simp [treeOf, toP, toP_treeOf e he]

theorem toP_chain (o : Op3) (e1 e2 : Expr) (es : List Expr) (h1 : BinW e1) (h2 : BinW e2) (hes : ∀ x ∈ es, BinW x) :
    toP (treeOf (assocL o e1 (e2 :: es))) = denoteE [] [] (.chain o e1 e2 es) := by
  rw [assocL, toP_assocL o es (.comb o e1 e2) (.comb o e1 e2 h1 h2) hes]
  cases es <;> simp [denoteE, treeOf, toP, toP_treeOf e1 h1, toP_treeOf e2 h2]

end IGVerif.Combo
