import IGVerif.Proofs.ComboNorm
import IGVerif.Proofs.ComboBraceParse
/-! Chains of nested statements: `Cac{Cac{…} [AND] Cac{…} [AND] Cac{…}}` and deeper — the
    development of `ComboNorm.lean` repeated for brace mode (operators count only outside all
    parentheses, `generalParCount = 0`). -/
namespace IGVerif.Combo.BN
open IGVerif IGVerif.Combo

inductive T
  | one (hdr flat : Str)
  | bin (o : Op3) (p : Bool) (l r : T)

def T.isOpen : T → Bool
  | .bin _ false _ _ => true
  | _ => false

/-- concrete syntax -/
def rT : T → Str
  | .one hdr flat => hdr ++ ('{' :: (flat ++ ['}']))
  | .bin o true l r => '{' :: (rT l ++ (' ' :: (o.br ++ (' ' :: (rT r ++ ['}'])))))
  | .bin o false l r => rT l ++ (' ' :: (o.br ++ (' ' :: rT r)))

def okLeaf (hdr flat : Str) : Prop :=
  BPlain hdr ∧ hdr ≠ [] ∧ hdr.head? ≠ some ' ' ∧ flatOK flat 0 = true ∧ flat ≠ []

def wf : T → Option Op3 → Prop
  | .one hdr flat, _ => okLeaf hdr flat
  | .bin o true l r, _ => wf l (some o) ∧ wf r none
  | .bin o false l r, some o' => o = o' ∧ wf l (some o) ∧ wf r none
  | .bin _ false _ _, none => False

def viol : T → Nat → Option (Nat × Nat)
  | .one _ _, _ => none
  | .bin o p l r, i =>
    let s := if p then i + 1 else i
    match viol l s with
    | some v => some v
    | none => if l.isOpen then some (s, s + (rT l).length + 1)
              else viol r (s + (rT l).length + o.str.length + 4)

def T.close : T → T
  | .bin o false l r => .bin o true l r
  | x => x

def step : T → Option T
  | .one _ _ => none
  | .bin o p l r =>
    match step l with
    | some l' => some (.bin o p l' r)
    | none => if l.isOpen then some (.bin o p l.close r) else (step r).map (.bin o p l ·)

def ScanC (x : T) : Prop :=
  ∀ (i : Nat) (st : St), st.modes.length ≤ st.lm.length → st.gpar = 0 →
    (viol x i = none → ∃ lm', (∀ cs, scan '{' '}' (rT x ++ cs) i st = scan '{' '}' cs (i + (rT x).length) { st with lm := lm' })
        ∧ Low st.modes.length st.lm lm')
    ∧ (∀ L j, viol x i = some (L, j) → ∀ cs, scan '{' '}' (rT x ++ cs) i st = .rewrite L j)

def ScanO (o : Op3) (x : T) : Prop :=
  ∀ (i : Nat) (st : St) (ms : List Mode) (X : List Bnd) (b : Bnd),
    st.modes = .left :: ms → st.lm[ms.length]? = some (X ++ [b]) → b.left = i → st.gpar = 0 →
    (viol x i = none → ∃ lm' p, (∀ cs, scan '{' '}' (rT x ++ cs) i st
          = scan '{' '}' cs (i + (rT x).length) { modes := .right :: ms, lm := lm', gpar := st.gpar })
        ∧ lm'[ms.length]? = some (X ++ [{ b with op := p, opVal := o.str }])
        ∧ p + o.str.length + 3 ≤ i + (rT x).length
        ∧ Low ms.length st.lm lm')
    ∧ (∀ L j, viol x i = some (L, j) → ∀ cs, scan '{' '}' (rT x ++ cs) i st = .rewrite L j)

theorem scan_op_repeatB (o : Op3) (rest : Str) (p : Nat) (st : St) (ms : List Mode) (X : List Bnd) (b : Bnd)
    (hm : st.modes = .right :: ms) (hl : st.lm[ms.length]? = some (X ++ [b])) (hb : b.left ≠ p)
    (hv : b.opVal = o.str) (hg : st.gpar = 0) :
    scan '{' '}' ('[' :: (o.str ++ ']' :: rest)) p st = .rewrite b.left p := by
  have hop : opAt ('[' :: (o.str ++ ']' :: rest)) = some o.str := by
    have := opAt_br o rest
    simpa [Op3.br] using this
  rw [scan]
  simp [hop, hm, lastAt_of _ _ _ _ hl, hb, hv, hg]

theorem scanC_one (hdr flat : Str) (h : okLeaf hdr flat) : ScanC (.one hdr flat) := by
  obtain ⟨hp, hne, hhd, hf, hfne⟩ := h
  intro i st hinv hg
  refine ⟨fun _ => ?_, fun L j hv => by simp [viol] at hv⟩
  obtain ⟨hE1, hlen1⟩ := ext_openAt st.lm st.modes.length { left := i + hdr.length + 1 } hinv
  have hat1 := some_of_getD_append _ _ _ _ hE1.at_
  have hfl : 0 < flat.length := List.length_pos_iff.mpr hfne
  have hhl : 0 < hdr.length := List.length_pos_iff.mpr hne
  refine ⟨modAt (openAt st.lm st.modes.length { left := i + hdr.length + 1 }) st.modes.length
      (modLast fun b => { b with right := i + hdr.length + 1 + flat.length, complete := b.opVal ≠ [] }), fun cs => ?_, ?_⟩
  · have e : rT (.one hdr flat) ++ cs = hdr ++ ('{' :: (flat ++ ('}' :: cs))) := by simp [rT]
    rw [e, scan_plainB _ _ _ _ hp, scan_openB, scan_flat flat 0 _ _ _ hf (by simpa using hg),
      scan_closeB _ _ _ .left st.modes _ _ rfl hat1 (by simp; omega)]
    congr 1
    · simp [rT]; omega
    · simp [hg]
  · exact (low_openAt _ _ _ hinv).trans (low_modAt _ _ _ _ (Nat.le_refl _))

/-- an unparenthesised group `l [o] r`, given the scans of its parts -/
theorem scanO_body (o : Op3) (l r : T)
    (Hl : (l.isOpen = true → ScanO o l) ∧ (l.isOpen = false → ScanC l)) (Hr : ScanC r) :
    ScanO o (.bin o false l r) := by
  intro i st ms X b hm hlm hb hg
  have hlen : ms.length + 1 ≤ st.lm.length := length_of_getElem?_some hlm
  have hr : ∀ cs, rT (.bin o false l r) ++ cs
      = rT l ++ ([' '] ++ ('[' :: (o.str ++ ']' :: ([' '] ++ (rT r ++ cs))))) := by intro cs; simp [rT, Op3.br]
  have hlenx : (rT (.bin o false l r)).length = (rT l).length + (rT r).length + o.str.length + 4 := by
    simp [rT, Op3.br]; omega
  cases hopen : l.isOpen with
  | true =>
    obtain ⟨hlN, hlS⟩ := Hl.1 hopen i st ms X b hm hlm hb hg
    cases hv : viol l i with
    | some v =>
      refine ⟨fun h => by simp [viol, hv] at h, fun L j h cs => ?_⟩
      have hvv : v = (L, j) := by simpa [viol, hv] using h
      rw [hr]; exact hlS L j (by rw [hv, hvv]) _
    | none =>
      obtain ⟨lm1, p, hs1, hat1, hp1, hlow1⟩ := hlN hv
      refine ⟨fun h => by simp [viol, hv, hopen] at h, fun L j h cs => ?_⟩
      have hLj : i = L ∧ i + (rT l).length + 1 = j := by simpa [viol, hv, hopen] using h
      rw [hr, hs1, scan_plainB [' '] _ _ _ bplain_blank,
        scan_op_repeatB o _ _ _ ms X { b with op := p, opVal := o.str } rfl hat1 (by simp [hb]; omega) rfl (by exact hg)]
      simp [hb, hLj.1, ← hLj.2]
  | false =>
    obtain ⟨hlN, hlS⟩ := Hl.2 hopen i st (by rw [hm]; simpa using hlen) hg
    cases hv : viol l i with
    | some v =>
      refine ⟨fun h => by simp [viol, hv] at h, fun L j h cs => ?_⟩
      have hvv : v = (L, j) := by simpa [viol, hv] using h
      rw [hr]; exact hlS L j (by rw [hv, hvv]) _
    | none =>
      obtain ⟨lm1, hs1, hlow1⟩ := hlN hv
      have hml : st.modes.length = ms.length + 1 := by rw [hm]; simp
      have hat1 : lm1[ms.length]? = some (X ++ [b]) := by
        rw [hlow1.low _ (by omega)]; exact hlm
      have hsp : ∀ cs, o.str ++ ']' :: ([' '] ++ (rT r ++ cs)) = (o.str ++ [']', ' ']) ++ (rT r ++ cs) := by intro cs; simp
      have hst1 : ({ st with lm := lm1 } : St).modes = .left :: ms := hm
      -- the state after the first operator
      obtain ⟨hrN, hrS⟩ := Hr (i + (rT l).length + [' '].length + 1 + (o.str ++ [']', ' ']).length)
        { modes := .right :: ms,
          lm := modAt lm1 ms.length (modLast fun b => { b with op := i + (rT l).length + [' '].length, opVal := o.str }),
          gpar := st.gpar }
        (by simp [length_modAt]; have := hlow1.len; omega) (by exact hg)
      have hscan : ∀ cs, scan '{' '}' (rT (.bin o false l r) ++ cs) i st
          = scan '{' '}' (rT r ++ cs) (i + (rT l).length + [' '].length + 1 + (o.str ++ [']', ' ']).length)
              { modes := .right :: ms,
                lm := modAt lm1 ms.length (modLast fun b => { b with op := i + (rT l).length + [' '].length, opVal := o.str }),
                gpar := st.gpar } := by
        intro cs
        rw [hr, hs1, scan_plainB [' '] _ _ _ bplain_blank,
          scan_opB o _ _ _ ms X b hst1 hat1 (by simp [hb]; omega) (by exact hg), hsp, scan_plainB _ _ _ _ (bplain_opstr o)]
      have hpos : i + (rT l).length + [' '].length + 1 + (o.str ++ [']', ' ']).length = i + (rT l).length + o.str.length + 4 := by
        simp; omega
      have hviolx : viol (.bin o false l r) i = viol r (i + (rT l).length + o.str.length + 4) := by
        simp [viol, hv, hopen]
      refine ⟨fun h => ?_, fun L j h cs => ?_⟩
      · rw [hviolx, ← hpos] at h
        obtain ⟨lm3, hs3, hlow3⟩ := hrN h
        refine ⟨lm3, i + (rT l).length + [' '].length, fun cs => ?_, ?_, ?_, ?_⟩
        · rw [hscan, hs3]
          congr 1
          rw [hlenx]; simp; omega
        · have := hlow3.low ms.length (by simp)
          simp only at this
          rw [this, getElem?_modAt_eq, hat1]
          simp [modLast_append_single]
        · rw [hlenx]; simp; omega
        · exact (hlow1.mono (by omega)).trans ((low_modAt ms.length ms.length lm1 _ (Nat.le_refl _)).trans (hlow3.mono (by simp)))
      · rw [hviolx, ← hpos] at h
        rw [hscan]; exact hrS L j h cs

/-- a parenthesised group, given the scan of what stands between its parentheses -/
theorem scanC_bin (o : Op3) (l r : T) (HB : ScanO o (.bin o false l r)) : ScanC (.bin o true l r) := by
  intro i st hinv hg
  have hr : ∀ cs, rT (.bin o true l r) ++ cs = '{' :: (rT (.bin o false l r) ++ ('}' :: cs)) := by intro cs; simp [rT]
  have hlenx : (rT (.bin o true l r)).length = (rT (.bin o false l r)).length + 2 := by simp [rT]; omega
  have hviol : viol (.bin o true l r) i = viol (.bin o false l r) (i+1) := by simp [viol]
  obtain ⟨n, hn⟩ : ∃ n, n = (rT (.bin o false l r)).length := ⟨_, rfl⟩
  rw [← hn] at hlenx
  obtain ⟨hE1, hlen1⟩ := ext_openAt st.lm st.modes.length { left := i + 1 } hinv
  have hat1 := some_of_getD_append _ _ _ _ hE1.at_
  obtain ⟨hN, hS⟩ := HB (i+1)
    { modes := .left :: st.modes, lm := openAt st.lm st.modes.length { left := i + 1 }, gpar := st.gpar }
    st.modes _ { left := i + 1 } rfl hat1 rfl (by exact hg)
  refine ⟨fun h => ?_, fun L j h cs => ?_⟩
  · rw [hviol] at h
    obtain ⟨lm2, p, hs2, hat2, hp2, hlow2⟩ := hN h
    rw [← hn] at hp2
    refine ⟨modAt lm2 st.modes.length (modLast fun b => { b with right := i + 1 + n, complete := b.opVal ≠ [] }), fun cs => ?_, ?_⟩
    · rw [hr, scan_openB, hs2, ← hn, scan_closeB _ _ _ .right st.modes _ _ rfl hat2 (by simp; omega)]
      congr 1
      all_goals (first | (rw [hlenx]; omega) | simp)
    · exact (low_openAt _ _ _ hinv).trans (hlow2.trans (low_modAt _ _ _ _ (Nat.le_refl _)))
  · rw [hviol] at h
    rw [hr, scan_openB]; exact hS L j h _

/-- well-formed terms outside a group are parenthesised -/
theorem wf_none_closed (x : T) (h : wf x none) : x.isOpen = false := by
  cases x with
  | one hdr flat => rfl
  | bin o p l r => cases p <;> simp_all [wf, T.isOpen]

/-- the scan of every well-formed term, in operand position and as an unparenthesised group -/
theorem scan_wf (x : T) : ∀ ctx, wf x ctx →
    (x.isOpen = false → ScanC x) ∧ (∀ o, ctx = some o → x.isOpen = true → ScanO o x) := by
  induction x with
  | one hdr flat =>
    intro ctx h
    exact ⟨fun _ => scanC_one hdr flat h, fun o _ ho => by simp [T.isOpen] at ho⟩
  | bin o p l r ihl ihr =>
    intro ctx h
    have body : ∀ (hl : wf l (some o)) (hr : wf r none), ScanO o (.bin o false l r) := fun hl hr =>
      scanO_body o l r ⟨fun ho => (ihl (some o) hl).2 o rfl ho, fun hc => (ihl (some o) hl).1 hc⟩
        ((ihr none hr).1 (wf_none_closed r hr))
    cases p with
    | true =>
      have h' : wf l (some o) ∧ wf r none := by simpa [wf] using h
      exact ⟨fun _ => scanC_bin o l r (body h'.1 h'.2), fun o' _ ho => by simp [T.isOpen] at ho⟩
    | false =>
      cases ctx with
      | none => simp [wf] at h
      | some o' =>
        have h' : o = o' ∧ wf l (some o) ∧ wf r none := by simpa [wf] using h
        refine ⟨fun hc => by simp [T.isOpen] at hc, fun o'' ho _ => ?_⟩
        have : o'' = o := by
          have : o' = o'' := by simpa using ho
          rw [← this, h'.1]
        rw [this]
        exact body h'.2.1 h'.2.2

/-! ### the rewriting is `step` -/

theorem viol_step_none (x : T) : ∀ i, viol x i = none → step x = none := by
  induction x with
  | one hdr flat => intro i _; rfl
  | bin o p l r ihl ihr =>
    intro i h
    simp only [viol] at h
    split at h
    · simp at h
    · rename_i hv
      split at h
      · simp at h
      · rename_i hopen
        simp [step, ihl _ hv, hopen, ihr _ h]

theorem rT_close (l : T) (h : l.isOpen = true) : rT l.close = '{' :: (rT l ++ ['}']) := by
  cases l with
  | one hdr flat => simp [T.isOpen] at h
  | bin o p a b => cases p <;> simp_all [T.isOpen, T.close, rT]

/-- the text after the first rewriting is the text of `step` -/
theorem rewrite_is_step (x : T) : ∀ (pre post : Str) (L j : Nat), viol x pre.length = some (L, j) →
    ∃ x', step x = some x' ∧ rewriteExpr '{' '}' (pre ++ rT x ++ post) L j = pre ++ rT x' ++ post := by
  induction x with
  | one hdr flat => intro pre post L j h; simp [viol] at h
  | bin o p l r ihl ihr =>
    intro pre post L j h
    -- the text around the left part
    obtain ⟨pre', hpre'⟩ : ∃ q, q = if p then pre ++ ['{'] else pre := ⟨_, rfl⟩
    obtain ⟨tl, htl⟩ : ∃ q, q = (if p then ['}'] else []) ++ post := ⟨_, rfl⟩
    have hs : (if p then pre.length + 1 else pre.length) = pre'.length := by rw [hpre']; cases p <;> simp
    have htext : ∀ l' r' : T, pre ++ rT (.bin o p l' r') ++ post = pre' ++ rT l' ++ (' ' :: o.br ++ ' ' :: rT r' ++ tl) := by
      intro l' r'; rw [hpre', htl]; cases p <;> simp [rT]
    simp only [viol, hs] at h
    split at h
    · -- inside the left part
      rename_i v hv
      have hv' : viol l pre'.length = some (L, j) := by rw [hv]; simpa using h
      obtain ⟨l', hl', he⟩ := ihl pre' (' ' :: o.br ++ ' ' :: rT r ++ tl) L j hv'
      refine ⟨.bin o p l' r, by simp [step, hl'], ?_⟩
      rw [htext, he, htext]
    · rename_i hv
      split at h
      · -- the group itself: its left part gets its parentheses
        rename_i hopen
        have hLj : pre'.length = L ∧ pre'.length + (rT l).length + 1 = j := by simpa using h
        refine ⟨.bin o p l.close r, by simp [step, viol_step_none l _ hv, hopen], ?_⟩
        rw [htext, htext, rT_close l hopen, ← hLj.1, ← hLj.2]
        unfold rewriteExpr
        have e1 : (pre' ++ rT l ++ (' ' :: o.br ++ ' ' :: rT r ++ tl)).take pre'.length = pre' := by
          rw [List.append_assoc, List.take_left' rfl]
        have e2 : ((pre' ++ rT l ++ (' ' :: o.br ++ ' ' :: rT r ++ tl)).drop pre'.length).take
            (pre'.length + (rT l).length + 1 - 1 - pre'.length) = rT l := by
          rw [List.append_assoc, List.drop_left' rfl]
          have : pre'.length + (rT l).length + 1 - 1 - pre'.length = (rT l).length := by omega
          rw [this, List.take_left' rfl]
        have e3 : (pre' ++ rT l ++ (' ' :: o.br ++ ' ' :: rT r ++ tl)).drop (pre'.length + (rT l).length + 1)
            = o.br ++ ' ' :: rT r ++ tl := by
          have : pre' ++ rT l ++ (' ' :: o.br ++ ' ' :: rT r ++ tl) = (pre' ++ rT l ++ [' ']) ++ (o.br ++ ' ' :: rT r ++ tl) := by simp
          rw [this, List.drop_left' (by simp; omega)]
        rw [e1, e2, e3]
        simp
      · -- inside the right part
        rename_i hopen
        have hpos : pre'.length + (rT l).length + o.str.length + 4 = (pre' ++ rT l ++ ' ' :: o.br ++ [' ']).length := by
          simp [Op3.br]; omega
        rw [hpos] at h
        obtain ⟨r', hr', he⟩ := ihr (pre' ++ rT l ++ ' ' :: o.br ++ [' ']) tl L j h
        refine ⟨.bin o p l r', by simp [step, viol_step_none l _ hv, hopen, hr'], ?_⟩
        have ht2 : ∀ r'' : T, pre' ++ rT l ++ (' ' :: o.br ++ ' ' :: rT r'' ++ tl)
            = (pre' ++ rT l ++ ' ' :: o.br ++ [' ']) ++ rT r'' ++ tl := by intro r''; simp
        rw [htext, ht2, he, htext, ht2]

/-! ### what `step` preserves, and when it stops -/

/-- the tree of nested statements a term stands for (chains nest to the left) -/
def toBT : T → BT
  | .one hdr flat => .one hdr flat
  | .bin o _ l r => .op o (toBT l) (toBT r)

/-- number of groups still written without their own parentheses -/
def opens : T → Nat
  | .one _ _ => 0
  | .bin _ p l r => (if p then 0 else 1) + opens l + opens r

theorem wf_close (o : Op3) (l : T) (h : wf l (some o)) (ho : l.isOpen = true) :
    wf l.close (some o) ∧ toBT l.close = toBT l ∧ opens l.close + 1 = opens l ∧ l.close.isOpen = false := by
  cases l with
  | one hdr flat => simp [T.isOpen] at ho
  | bin o' p a b =>
    cases p with
    | true => simp [T.isOpen] at ho
    | false =>
      have h' : o' = o ∧ wf a (some o') ∧ wf b none := by simpa [wf] using h
      refine ⟨by simp [T.close, wf, h'.2.1, h'.2.2], by simp [T.close, toBT], by simp [T.close, opens]; omega, by simp [T.close, T.isOpen]⟩

theorem step_preserves (x : T) : ∀ ctx x', wf x ctx → step x = some x' →
    wf x' ctx ∧ toBT x' = toBT x ∧ opens x' + 1 = opens x ∧ x'.isOpen = x.isOpen := by
  induction x with
  | one hdr flat => intro ctx x' _ h; simp [step] at h
  | bin o p l r ihl ihr =>
    intro ctx x' hw h
    have hlr : wf l (some o) ∧ wf r none := by
      cases p with
      | true => simpa [wf] using hw
      | false =>
        cases ctx with
        | none => simp [wf] at hw
        | some o' => have := (by simpa [wf] using hw : o = o' ∧ wf l (some o) ∧ wf r none); exact this.2
    have hwx : ∀ l' r' : T, wf l' (some o) → wf r' none → wf (.bin o p l' r') ctx := by
      intro l' r' h1 h2
      cases p with
      | true => simp [wf, h1, h2]
      | false =>
        cases ctx with
        | none => simp [wf] at hw
        | some o' =>
          have := (by simpa [wf] using hw : o = o' ∧ wf l (some o) ∧ wf r none)
          simp [wf, this.1, h1, h2]; rw [← this.1]; exact h1
    simp only [step] at h
    split at h
    · rename_i l' hl'
      obtain ⟨a, b, c, _⟩ := ihl (some o) l' hlr.1 hl'
      have : x' = .bin o p l' r := by simpa using h.symm
      subst this
      refine ⟨hwx l' r a hlr.2, by simp [toBT, b], by simp [opens]; omega, by cases p <;> simp [T.isOpen]⟩
    · rename_i hl'
      split at h
      · rename_i hopen
        obtain ⟨a, b, c, _⟩ := wf_close o l hlr.1 hopen
        have : x' = .bin o p l.close r := by simpa using h.symm
        subst this
        refine ⟨hwx _ r a hlr.2, by simp [toBT, b], by simp [opens]; omega, by cases p <;> simp [T.isOpen]⟩
      · cases hr' : step r with
        | none => simp [hr'] at h
        | some r' =>
          obtain ⟨a, b, c, _⟩ := ihr none r' hlr.2 hr'
          have : x' = .bin o p l r' := by simpa [hr'] using h.symm
          subst this
          refine ⟨hwx l r' hlr.1 a, by simp [toBT, b], by simp [opens]; omega, by cases p <;> simp [T.isOpen]⟩

/-- no rewriting pending: nothing below is unparenthesised -/
theorem viol_none_opens (x : T) : ∀ ctx i, wf x ctx → viol x i = none → opens x = if x.isOpen then 1 else 0 := by
  induction x with
  | one hdr flat => intro _ _ _ _; simp [opens, T.isOpen]
  | bin o p l r ihl ihr =>
    intro ctx i hw h
    have hlr : wf l (some o) ∧ wf r none := by
      cases p with
      | true => simpa [wf] using hw
      | false =>
        cases ctx with
        | none => simp [wf] at hw
        | some o' => have := (by simpa [wf] using hw : o = o' ∧ wf l (some o) ∧ wf r none); exact this.2
    simp only [viol] at h
    split at h
    · simp at h
    · rename_i hv
      split at h
      · simp at h
      · rename_i hopen
        have a := ihl (some o) _ hlr.1 hv
        have b := ihr none _ hlr.2 h
        have hrc := wf_none_closed r hlr.2
        simp only [hopen, hrc, Bool.false_eq_true, if_false] at a b
        cases p <;> simp [opens, a, b, T.isOpen]

/-- fully braced terms are the trees of the brace-mode round-trip theorem -/
theorem closed_is_bok (x : T) : ∀ ctx, wf x ctx → opens x = 0 → BOk (toBT x) ∧ rT x = renderB (toBT x) := by
  induction x with
  | one hdr flat =>
    intro _ h _
    obtain ⟨hp, hne, hhd, hf, hfne⟩ := h
    exact ⟨.one hdr flat hp hne hhd hf hfne, by simp [rT, toBT, renderB]⟩
  | bin o p l r ihl ihr =>
    intro ctx hw h0
    cases p with
    | false => simp [opens] at h0
    | true =>
      have hlr : wf l (some o) ∧ wf r none := by simpa [wf] using hw
      have h0' : opens l = 0 ∧ opens r = 0 := by simp [opens] at h0; omega
      obtain ⟨a1, a2⟩ := ihl _ hlr.1 h0'.1
      obtain ⟨b1, b2⟩ := ihr _ hlr.2 h0'.2
      exact ⟨.op o _ _ a1 b1, by simp [rT, toBT, renderB, a2, b2]⟩

theorem wf_bok (x : T) : ∀ ctx, wf x ctx → BOk (toBT x) := by
  induction x with
  | one hdr flat =>
    intro _ h
    obtain ⟨hp, hne, hhd, hf, hfne⟩ := h
    exact .one hdr flat hp hne hhd hf hfne
  | bin o p l r ihl ihr =>
    intro ctx hw
    have hlr : wf l (some o) ∧ wf r none := by
      cases p with
      | true => simpa [wf] using hw
      | false =>
        cases ctx with
        | none => simp [wf] at hw
        | some o' => have := (by simpa [wf] using hw : o = o' ∧ wf l (some o) ∧ wf r none); exact this.2
    exact .op o _ _ (ihl _ hlr.1) (ihr _ hlr.2)

theorem parCount_rT (x : T) : ∀ ctx, wf x ctx → ∀ (cs : Str) (n : Int),
    Validate.parCount '{' '}' (rT x ++ cs) n = Validate.parCount '{' '}' cs n := by
  induction x with
  | one hdr flat =>
    intro _ h cs n
    obtain ⟨hp, hne, hhd, hf, hfne⟩ := h
    have := parCountB_render (.one hdr flat) (.one hdr flat hp hne hhd hf hfne) cs n
    simpa [renderB, rT] using this
  | bin o p l r ihl ihr =>
    intro ctx hw cs n
    have hlr : wf l (some o) ∧ wf r none := by
      cases p with
      | true => simpa [wf] using hw
      | false =>
        cases ctx with
        | none => simp [wf] at hw
        | some o' => have := (by simpa [wf] using hw : o = o' ∧ wf l (some o) ∧ wf r none); exact this.2
    have hp : NoBrace (' ' :: o.br ++ [' ']) := by
      cases o <;> simp [NoBrace, Op3.br, Op3.str, opAND, opOR, opXOR, str]
    cases p with
    | false =>
      have e : rT (.bin o false l r) ++ cs = rT l ++ ((' ' :: o.br ++ [' ']) ++ (rT r ++ cs)) := by simp [rT]
      rw [e, ihl _ hlr.1, parCountB_nobrace _ _ _ hp, ihr _ hlr.2]
    | true =>
      have e : rT (.bin o true l r) ++ cs = '{' :: (rT l ++ ((' ' :: o.br ++ [' ']) ++ (rT r ++ ('}' :: cs)))) := by simp [rT]
      rw [e, Validate.parCount]
      simp only [if_true]
      rw [ihl _ hlr.1, parCountB_nobrace _ _ _ hp, ihr _ hlr.2, Validate.parCount]
      simp only [show ('}' = '{') = False by decide, if_false, if_true]
      congr 1; omega

/-! ### the rewritings of `detectCombinations`, all of them -/

theorem detect_step (x : T) (hw : wf x none) (L j : Nat) (hv : viol x 0 = some (L, j)) (fuel : Nat) :
    ∃ x', step x = some x' ∧ detect '{' '}' (fuel+1) (rT x) = detect '{' '}' fuel (rT x') := by
  have hc := wf_none_closed x hw
  have hpc : Validate.parCount '{' '}' (rT x) 0 = 0 := by
    have := parCount_rT x none hw [] 0
    simpa [Validate.parCount] using this
  have hsc : scan '{' '}' (rT x) 0 {} = .rewrite L j := by
    have := (((scan_wf x none hw).1 hc) 0 {} (by simp) rfl).2 L j hv []
    simpa using this
  obtain ⟨x', hx', he⟩ := rewrite_is_step x [] [] L j (by simpa using hv)
  refine ⟨x', hx', ?_⟩
  rw [detect]
  simp only [hpc, hsc]
  simp only [ne_eq, not_true_eq_false, if_false]
  simpa using congrArg (detect '{' '}' fuel) he

theorem detect_norm : ∀ (n : Nat) (x : T), opens x = n → wf x none → ∀ fuel,
    ∃ x', wf x' none ∧ opens x' = 0 ∧ toBT x' = toBT x
      ∧ detect '{' '}' (fuel + n) (rT x) = detect '{' '}' fuel (rT x') := by
  intro n
  induction n with
  | zero => intro x h0 hw fuel; exact ⟨x, hw, h0, rfl, rfl⟩
  | succ n ih =>
    intro x hn hw fuel
    have hc := wf_none_closed x hw
    cases hv : viol x 0 with
    | none =>
      have := viol_none_opens x none 0 hw hv
      simp [hc] at this
      omega
    | some v =>
      obtain ⟨L, j⟩ := v
      obtain ⟨x1, hx1, hd⟩ := detect_step x hw L j hv (fuel + n)
      obtain ⟨hw1, ht1, ho1, _⟩ := step_preserves x none x1 hw hx1
      obtain ⟨x', hw', ho', ht', hd'⟩ := ih x1 (by omega) hw1 fuel
      exact ⟨x', hw', ho', ht'.trans ht1, by rw [← hd', ← hd]; rfl⟩

/-! ### the same behind a plain prefix (the component symbol) -/

theorem detect_step_pre (pre : Str) (hp : BPlain pre) (x : T) (hw : wf x none) (L j : Nat)
    (hv : viol x pre.length = some (L, j)) (fuel : Nat) :
    ∃ x', step x = some x' ∧ detect '{' '}' (fuel+1) (pre ++ rT x) = detect '{' '}' fuel (pre ++ rT x') := by
  have hc := wf_none_closed x hw
  have hpc : Validate.parCount '{' '}' (pre ++ rT x) 0 = 0 := by
    rw [parCountB_nobrace _ _ _ hp.noBrace]
    have := parCount_rT x none hw [] 0
    simpa [Validate.parCount] using this
  have hsc : scan '{' '}' (pre ++ rT x) 0 {} = .rewrite L j := by
    have e : pre ++ rT x = pre ++ (rT x ++ []) := by simp
    rw [e, scan_plainB _ _ _ _ hp]
    have := (((scan_wf x none hw).1 hc) (0 + pre.length) {} (by simp) rfl).2 L j (by simpa using hv) []
    simpa using this
  obtain ⟨x', hx', he⟩ := rewrite_is_step x pre [] L j hv
  refine ⟨x', hx', ?_⟩
  rw [detect]
  simp only [hpc, hsc]
  simp only [ne_eq, not_true_eq_false, if_false]
  have he' : rewriteExpr '{' '}' (pre ++ rT x) L j = pre ++ rT x' := by simpa using he
  rw [he']

theorem detect_norm_pre (pre : Str) (hp : BPlain pre) : ∀ (n : Nat) (x : T), opens x = n → wf x none → ∀ fuel,
    ∃ x', wf x' none ∧ opens x' = 0 ∧ toBT x' = toBT x
      ∧ detect '{' '}' (fuel + n) (pre ++ rT x) = detect '{' '}' fuel (pre ++ rT x') := by
  intro n
  induction n with
  | zero => intro x h0 hw fuel; exact ⟨x, hw, h0, rfl, rfl⟩
  | succ n ih =>
    intro x hn hw fuel
    have hc := wf_none_closed x hw
    cases hv : viol x pre.length with
    | none =>
      have := viol_none_opens x none pre.length hw hv
      simp [hc] at this
      omega
    | some v =>
      obtain ⟨L, j⟩ := v
      obtain ⟨x1, hx1, hd⟩ := detect_step_pre pre hp x hw L j hv (fuel + n)
      obtain ⟨hw1, ht1, ho1, _⟩ := step_preserves x none x1 hw hx1
      obtain ⟨x', hw', ho', ht', hd'⟩ := ih x1 (by omega) hw1 fuel
      exact ⟨x', hw', ho', ht'.trans ht1, by rw [← hd', ← hd]; rfl⟩

theorem opens_le_length (x : T) : opens x ≤ (rT x).length := by
  induction x with
  | one hdr flat => simp [opens]
  | bin o p l r ihl ihr => cases p <;> simp [opens, rT, Op3.br] <;> omega

/-- **Chains of nested statements.** A braced tree over nested statements in which any group, at
    any depth, may be a chain of one operator is parsed into the tree with every chain nested to
    the left; each nested statement is one leaf. -/
theorem parseB_chains (o : Op3) (l r : T) (hw : wf (.bin o true l r) none) (nested : Bool) (fuel : Nat)
    (hf : depthB (toBT (.bin o true l r)) ≤ fuel) :
    parse true fuel (rT (.bin o true l r)) nested
      = .res ⟨treeOfB (toBT (.bin o true l r)), renderB (toBT (.bin o true l r)), cNoError⟩ := by
  obtain ⟨x, hx⟩ : ∃ x, x = T.bin o true l r := ⟨_, rfl⟩
  rw [← hx] at hw hf ⊢
  have hE : toBT x = .op o (toBT l) (toBT r) := by rw [hx]; rfl
  have hdl : 1 ≤ depthB (toBT l) := by cases (toBT l) <;> simp [depthB]
  rw [hE] at hf
  simp only [depthB] at hf
  obtain ⟨f, rfl⟩ : ∃ f, fuel = f + 2 := ⟨fuel - 2, by omega⟩
  rw [parseB_unfold]
  obtain ⟨k, hk⟩ : ∃ k, (rT x).length + 1 = k + opens x :=
    ⟨(rT x).length + 1 - opens x, by have := opens_le_length x; omega⟩
  obtain ⟨x', hw', ho', ht', hd'⟩ := detect_norm (opens x) x rfl hw k
  obtain ⟨hb, hr⟩ := closed_is_bok x' none hw' ho'
  rw [hk, hd', hr, ht', hE]
  rw [ht', hE] at hb
  cases hb with
  | op _ _ _ hl hr' =>
    obtain ⟨lm', hd, hl0⟩ := detectB_render _ (.op o _ _ hl hr') 0 0 k
    obtain ⟨es0, rest, hlm⟩ : ∃ es0 rest, lm' = es0 :: rest := by
      cases lm' with
      | nil => simp at hl0
      | cons a as => exact ⟨a, as, rfl⟩
    subst hlm
    simp only [List.getElem?_cons_zero, Option.some.injEq] at hl0
    subst hl0
    have h0 : sp 0 ++ renderB (.op o (toBT l) (toBT r)) ++ sp 0 = renderB (.op o (toBT l) (toBT r)) := by simp [sp]
    rw [h0] at hd
    rw [hd]
    have := afterDetectB_op o (toBT l) (toBT r) hl hr' f 0 0 nested rest
      (fun o' l' r' h a b => parseB_render_aux _ hl o' l' r' h (f+1) a b true (by omega))
      (fun o' l' r' h a b => parseB_render_aux _ hr' o' l' r' h (f+1) a b true (by omega))
    rw [h0] at this
    exact this

/-- **Chains of nested statements behind the component symbol** — the text as
    `parseNestedStatementCombination` passes it, e.g. `Cac{Cac{…} [AND] Cac{…} [AND] Cac{…}}`. -/
theorem parseB_with_symbol_chains (hdr : Str) (o : Op3) (l r : T) (hw : wf (.bin o true l r) none)
    (hh : SWord hdr) (hb : BPlain hdr) (nested : Bool) (fuel : Nat) (hf : depthB (toBT (.bin o true l r)) ≤ fuel) :
    parse true fuel (hdr ++ rT (.bin o true l r)) nested
      = .res ⟨.comb o.str [hdr] [] (treeOfB (toBT l)) (treeOfB (toBT r)), hdr ++ renderB (toBT (.bin o true l r)), cNoError⟩ := by
  obtain ⟨x, hx⟩ : ∃ x, x = T.bin o true l r := ⟨_, rfl⟩
  rw [← hx] at hw hf ⊢
  have hE : toBT x = .op o (toBT l) (toBT r) := by rw [hx]; rfl
  have hdl : 1 ≤ depthB (toBT l) := by cases (toBT l) <;> simp [depthB]
  rw [hE] at hf
  have hf' := hf
  simp only [depthB] at hf'
  obtain ⟨f, rfl⟩ : ∃ f, fuel = f + 2 := ⟨fuel - 2, by omega⟩
  rw [parseB_unfold]
  obtain ⟨k, hk⟩ : ∃ k, (hdr ++ rT x).length + 1 = k + opens x :=
    ⟨(hdr ++ rT x).length + 1 - opens x, by have := opens_le_length x; simp; omega⟩
  obtain ⟨x', hw', ho', ht', hd'⟩ := detect_norm_pre hdr hb (opens x) x rfl hw k
  obtain ⟨hbk, hr⟩ := closed_is_bok x' none hw' ho'
  rw [hk, hd', hr, ht', hE]
  rw [ht', hE] at hbk
  cases hbk with
  | op _ _ _ hl hr' =>
    obtain ⟨rest, hd⟩ := detectB_with_symbol hdr o (toBT l) (toBT r) (.op o _ _ hl hr') hb k
    rw [hd]
    exact afterDetectB_with_symbol hdr o (toBT l) (toBT r) hl hr' hh nested f hf rest

end IGVerif.Combo.BN
