import IGVerif.Model.Link
/-! `FindLogicalLinkage` (searchDownward / searchUpward with their redundant probes) returns
    exactly the logical operators on the tree path between two nodes: bottom-up from the
    source to the lowest common ancestor, the ancestor's own operator, then top-down to the
    target. Consequence: linkage is mutual, with the operator list read backwards. -/
namespace IGVerif.Link
open IGVerif

/-- the node one step below: 0 = Left, 1 = Right, i+2 = entry i of a `[]*Node` leaf -/
def child : PNode → Nat → Option PNode
  | .comb _ _ _ _ _ l _, 0 => some l
  | .comb _ _ _ _ _ _ r, 1 => some r
  | .pairs _ ns, i + 2 => ns[i]?
  | _, _ => none

theorem sub_cons (n : PNode) (c : Nat) (p : NPath) : sub n (c :: p) = (child n c).bind (fun m => sub m p) := by
  cases n with
  | comb op sl sr m pr l r =>
    match c with
    | 0 => simp [sub, child]
    | 1 => simp [sub, child]
    | c + 2 => simp [sub, child]
  | pairs m ns =>
    match c with
    | 0 => simp [sub, child]
    | 1 => simp [sub, child]
    | c + 2 => simp only [sub, child]; cases ns[c]? <;> simp
  | leaf => simp [sub, child]
  | stmt => simp [sub, child]
  | empty => simp [sub, child]

theorem sub_append (n : PNode) (p q : NPath) : sub n (p ++ q) = (sub n p).bind (fun m => sub m q) := by
  induction p generalizing n with
  | nil => simp [sub]
  | cons c p ih =>
    rw [List.cons_append, sub_cons, sub_cons]
    cases child n c with
    | none => simp
    | some m => simp [ih]

/-- the operator a node contributes to a path (none for leaves, entry lists and empty operators) -/
def opL : PNode → List Str
  | .comb op _ _ _ _ _ _ => if op = [] then [] else [op]
  | _ => []

theorem pushOp_comb (ops : List Str) (op : Str) (sl sr : List Str) (m : Meta) (p : List PNode) (l r : PNode) :
    pushOp ops op = ops ++ opL (.comb op sl sr m p l r) := by
  unfold pushOp opL; split <;> simp_all

/-- operators of the nodes passed when walking `q` down from `n` (the end node excluded) -/
def opsAlong : PNode → NPath → List Str
  | _, [] => []
  | n, c :: q => opL n ++ (match child n c with | some m => opsAlong m q | none => [])

/-! ### a search that starts beside the target fails -/

theorem firstFound_none (f : PNode → Nat → Bool × List Str) (h : ∀ n i, (f n i).1 = false) (ns : List PNode) (i : Nat)
    (ops : List Str) : (firstFound f ns i ops).1 = false := by
  induction ns generalizing i with
  | nil => rfl
  | cons n rest ih => simp [firstFound, h n i, ih]

theorem not_prefix_append {start target : NPath} (x : NPath) (h : ¬ start <+: target) : ¬ (start ++ x) <+: target :=
  fun hp => h ((List.prefix_append start x).trans hp)

theorem down_not_found (fuel : Nat) : ∀ (s : PNode) (start last target : NPath) (ops : List Str),
    ¬ start <+: target → (down fuel s start last target ops).1 = false := by
  induction fuel with
  | zero => intro s start last target ops _; rfl
  | succ f ih =>
    intro s start last target ops h
    have hne : start ≠ target := fun e => h (e ▸ List.prefix_refl _)
    unfold down
    simp only [hne, if_false]
    cases s with
    | comb op sl sr m pr l r =>
      have e0 := fun (x : PNode) (lst : NPath) (o : List Str) => ih x (start ++ [0]) lst target o (not_prefix_append [0] h)
      have e1 := fun (x : PNode) (lst : NPath) (o : List Str) => ih x (start ++ [1]) lst target o (not_prefix_append [1] h)
      have e00 := fun (x : PNode) (lst : NPath) (o : List Str) => ih x (start ++ [0, 0]) lst target o (not_prefix_append [0, 0] h)
      have e01 := fun (x : PNode) (lst : NPath) (o : List Str) => ih x (start ++ [0, 1]) lst target o (not_prefix_append [0, 1] h)
      have e10 := fun (x : PNode) (lst : NPath) (o : List Str) => ih x (start ++ [1, 0]) lst target o (not_prefix_append [1, 0] h)
      have e11 := fun (x : PNode) (lst : NPath) (o : List Str) => ih x (start ++ [1, 1]) lst target o (not_prefix_append [1, 1] h)
      cases l <;> cases r <;> simp [e0, e1, e00, e01, e10, e11]
    | pairs m ns =>
      exact firstFound_none _ (fun n i => ih n (start ++ [i + 2]) start target ops (not_prefix_append [i + 2] h)) ns 0 ops
    | leaf => rfl
    | stmt => rfl
    | empty => rfl

/-! ### a search that starts above the target finds it and collects the operators passed -/

theorem prefix_sibling {start : NPath} {a b : Nat} (q : NPath) (hab : a ≠ b) : ¬ (start ++ [a]) <+: (start ++ b :: q) := by
  intro h
  rw [List.prefix_append_right_inj] at h
  rw [List.cons_prefix_cons] at h
  exact hab h.1

theorem firstFound_at (f : PNode → Nat → Bool × List Str) (ns : List PNode) (base i : Nat) (ops : List Str) (n : PNode)
    (hn : ns[i]? = some n) (hbefore : ∀ j m, j < i → (f m (base + j)).1 = false) (hat : (f n (base + i)).1 = true) :
    firstFound f ns base ops = f n (base + i) := by
  induction ns generalizing base i with
  | nil => simp at hn
  | cons x rest ih =>
    cases i with
    | zero =>
      simp only [List.getElem?_cons_zero, Option.some.injEq] at hn
      subst hn
      simp only [firstFound, Nat.add_zero] at hat ⊢
      simp [hat]
    | succ i =>
      simp only [List.getElem?_cons_succ] at hn
      have h0 := hbefore 0 x (by omega)
      simp only [Nat.add_zero] at h0
      simp only [firstFound, h0]
      have := ih (base + 1) i hn (fun j m hj => by have := hbefore (j + 1) m (by omega); rwa [show base + 1 + j = base + (j + 1) by omega]) (by rwa [show base + 1 + i = base + (i + 1) by omega])
      rw [show base + (i + 1) = base + 1 + i by omega]
      simpa using this

theorem down_found : ∀ (q : NPath) (fuel : Nat) (s : PNode) (start last : NPath) (ops : List Str) (m : PNode),
    sub s q = some m → q.length < fuel → (∀ c q', q = c :: q' → start ++ [c] ≠ last) →
    down fuel s start last (start ++ q) ops = (true, ops ++ opsAlong s q) := by
  intro q
  induction q with
  | nil =>
    intro fuel s start last ops m _ hf _
    cases fuel with
    | zero => simp at hf
    | succ f => unfold down; simp [opsAlong]
  | cons c q ih =>
    intro fuel s start last ops m hs hf hl
    cases fuel with
    | zero => simp at hf
    | succ f =>
      have hf' : q.length < f := by simp at hf; omega
      have hne : start ≠ start ++ c :: q := by
        intro e
        have := congrArg List.length e
        simp at this
      rw [sub_cons] at hs
      cases s with
      | comb op sl sr mt pr l r =>
        unfold down
        simp only [hne, if_false]
        match c, hs, hl with
        | 0, hs, hl =>
          simp only [child, Option.bind_some] at hs
          have r1 := ih f l (start ++ [0]) (start ++ [0]) (pushOp ops op) m hs hf'
            (fun c' q' _ => by intro e; have := congrArg List.length e; simp at this)
          have e : (start ++ [0]) ++ q = start ++ 0 :: q := by simp
          rw [e, pushOp_comb ops op sl sr mt pr l r] at r1
          have hl0 := hl 0 q rfl
          simp [r1, hl0, opsAlong, child, pushOp_comb ops op sl sr mt pr l r, List.append_assoc]
        | 1, hs, hl =>
          simp only [child, Option.bind_some] at hs
          have r1 := ih f r (start ++ [1]) (start ++ [1]) (pushOp ops op) m hs hf'
            (fun c' q' _ => by intro e; have := congrArg List.length e; simp at this)
          have e : (start ++ [1]) ++ q = start ++ 1 :: q := by simp
          rw [e, pushOp_comb ops op sl sr mt pr l r] at r1
          have hl1 := hl 1 q rfl
          have n0 := fun (x : PNode) (lst : NPath) (o : List Str) =>
            down_not_found f x (start ++ [0]) lst (start ++ 1 :: q) o (prefix_sibling q (by decide))
          have n00 := fun (x : PNode) (lst : NPath) (o : List Str) =>
            down_not_found f x (start ++ [0, 0]) lst (start ++ 1 :: q) o
              (by rw [show start ++ [0, 0] = (start ++ [0]) ++ [0] by simp]; exact not_prefix_append [0] (prefix_sibling q (by decide)))
          have n01 := fun (x : PNode) (lst : NPath) (o : List Str) =>
            down_not_found f x (start ++ [0, 1]) lst (start ++ 1 :: q) o
              (by rw [show start ++ [0, 1] = (start ++ [0]) ++ [1] by simp]; exact not_prefix_append [1] (prefix_sibling q (by decide)))
          have hop : opL (.comb op sl sr mt pr l r) = (if op = [] then [] else [op]) := rfl
          simp only [pushOp_comb ops op sl sr mt pr l r, hop]
          rw [hop] at r1
          cases l <;> simp [n0, n00, n01, r1, hl1, opsAlong, child, opL, List.append_assoc]
        | c + 2, hs, _ => simp [child] at hs
      | pairs mt ns =>
        match c, hs, hl with
        | 0, hs, _ => simp [child] at hs
        | 1, hs, _ => simp [child] at hs
        | i + 2, hs, hl =>
          simp only [child] at hs
          cases hn : ns[i]? with
          | none => simp [hn] at hs
          | some n =>
            simp only [hn, Option.bind_some] at hs
            have e : (start ++ [i + 2]) ++ q = start ++ (i + 2) :: q := by simp
            have hit := ih f n (start ++ [i + 2]) start ops m hs hf'
              (fun c' q' _ => by intro e'; have := congrArg List.length e'; simp at this)
            rw [e] at hit
            have := firstFound_at (fun n j => down f n (start ++ [j + 2]) start (start ++ (i + 2) :: q) ops) ns 0 i ops n hn
              (fun j x hj => by
                simp only [Nat.zero_add]
                exact down_not_found f x (start ++ [j + 2]) start _ ops (prefix_sibling q (by omega)))
              (by simp only [Nat.zero_add]; rw [hit])
            simp only [Nat.zero_add] at this
            unfold down
            simp only [hne, if_false]
            rw [this, hit]
            simp [opsAlong, child, hn, opL]
      | leaf => simp [child] at hs
      | stmt => simp [child] at hs
      | empty => simp [child] at hs

/-! ### searching upward -/

/-- operators of the source's ancestors below the common ancestor, bottom-up; `base` is the path
    of the common ancestor's child on the source side, `rp` the rest of the source path reversed -/
def ancOps (t : PNode) (base : NPath) : List Nat → List Str
  | [] => []
  | _ :: rp => (match sub t (base ++ rp.reverse) with | some n => opL n | none => []) ++ ancOps t base rp

theorem opAt_eq (t : PNode) (p : NPath) (ops : List Str) :
    pushOpt ops (opAt t p) = ops ++ (match sub t p with | some n => opL n | none => []) := by
  unfold opAt
  cases sub t p with
  | none => simp [pushOpt]
  | some n =>
    cases n with
    | comb op sl sr m pr l r => by_cases h : op = [] <;> simp [opL, h, pushOpt]
    | leaf => simp [opL, pushOpt]
    | stmt => simp [opL, pushOpt]
    | pairs => simp [opL, pushOpt]
    | empty => simp [opL, pushOpt]

theorem upR_found (fuel : Nat) (t lca : PNode) (pre : NPath) (a b : Nat) (q : NPath) (hab : a ≠ b)
    (hl : sub t pre = some lca) (ht : ∃ m, sub lca (b :: q) = some m) (hf : (b :: q).length < fuel) :
    ∀ (rp : List Nat) (ops : List Str), (∃ m, sub t ((pre ++ [a]) ++ rp.reverse) = some m) →
      upR fuel t (rp ++ a :: pre.reverse) (pre ++ b :: q) ops =
        (true, ops ++ ancOps t (pre ++ [a]) rp ++ opsAlong lca (b :: q)) := by
  intro rp
  induction rp with
  | nil =>
    intro ops _
    obtain ⟨m, hm⟩ := ht
    simp only [List.nil_append, upR, List.reverse_reverse, hl]
    have := down_found (b :: q) fuel lca pre (pre ++ [a]) ops m hm hf
      (fun c q' e => by
        simp only [List.cons.injEq] at e
        intro e2
        have := List.append_cancel_left e2
        simp at this
        exact hab (this.symm.trans e.1.symm))
    simp [this, ancOps]
  | cons c rp ih =>
    intro ops hv
    have hpar : (rp ++ a :: pre.reverse).reverse = (pre ++ [a]) ++ rp.reverse := by simp
    obtain ⟨m, hm⟩ := hv
    have hm' : sub t (((pre ++ [a]) ++ rp.reverse) ++ [c]) = some m := by
      rw [← hm, List.reverse_cons, List.append_assoc]
    rw [sub_append] at hm'
    cases hs : sub t ((pre ++ [a]) ++ rp.reverse) with
    | none => rw [hs] at hm'; simp at hm'
    | some s =>
      have hnp : ¬ ((pre ++ [a]) ++ rp.reverse) <+: (pre ++ b :: q) := by
        rw [List.append_assoc, List.prefix_append_right_inj]
        intro h
        simp only [List.singleton_append, List.cons_prefix_cons] at h
        exact hab h.1
      have hdf := down_not_found fuel s ((pre ++ [a]) ++ rp.reverse) (((pre ++ [a]) ++ rp.reverse) ++ [c]) (pre ++ b :: q) ops hnp
      have hrec := ih (ops ++ opL s) ⟨s, hs⟩
      simp only [List.cons_append, upR, hpar, hs, hdf, Bool.false_eq_true, if_false]
      rw [opAt_eq, hs]
      simp only []
      rw [hrec]
      simp only [ancOps]
      rw [hs]
      simp [List.append_assoc]

/-- **`FindLogicalLinkage` returns the operators on the tree path**: for a source
    `pre ++ a :: p` and a target `pre ++ b :: q` that part below their lowest common ancestor
    (`a ≠ b`), the search succeeds and yields the operators of the source's ancestors from
    the bottom up to (excluding) the common ancestor, the common ancestor's own operator, and
    the operators from there down to the target. -/
theorem find_spec (t lca : PNode) (pre : NPath) (a b : Nat) (p q : NPath) (hab : a ≠ b)
    (hl : sub t pre = some lca) (hs : ∃ m, sub t (pre ++ a :: p) = some m) (ht : ∃ m, sub lca (b :: q) = some m)
    (hf : (b :: q).length < 2 * size t + 8) :
    find t (pre ++ a :: p) (pre ++ b :: q) =
      (true, ancOps t (pre ++ [a]) p.reverse ++ opsAlong lca (b :: q)) := by
  obtain ⟨ms, hms⟩ := hs
  unfold find
  simp only [hms]
  have hnp : ¬ (pre ++ a :: p) <+: (pre ++ b :: q) := by
    rw [List.prefix_append_right_inj]
    intro h
    rw [List.cons_prefix_cons] at h
    exact hab h.1
  have hd := down_not_found (2 * size t + 8) ms (pre ++ a :: p) (pre ++ a :: p) (pre ++ b :: q) [] hnp
  have hu := upR_found (2 * size t + 8) t lca pre a b q hab hl ht hf p.reverse []
    ⟨ms, by rw [← hms]; simp⟩
  have hrev : (pre ++ a :: p).reverse = p.reverse ++ a :: pre.reverse := by simp
  simp only [hd, Bool.false_eq_true, if_false, up, hrev, hu]
  simp

/-! ### the path read from the other end -/

theorem opL_reverse (n : PNode) : (opL n).reverse = opL n := by
  cases n <;> simp [opL]
  split <;> simp

theorem opsAlong_snoc : ∀ (q : NPath) (n m : PNode) (c : Nat), sub n q = some m →
    opsAlong n (q ++ [c]) = opsAlong n q ++ opL m := by
  intro q
  induction q with
  | nil =>
    intro n m c h
    simp only [sub, Option.some.injEq] at h
    subst h
    simp only [List.nil_append, opsAlong]
    cases child n c <;> simp [opsAlong]
  | cons d q ih =>
    intro n m c h
    rw [sub_cons] at h
    simp only [List.cons_append, opsAlong]
    cases hc : child n d with
    | none => simp [hc] at h
    | some x =>
      simp only [hc, Option.bind_some] at h
      simp [ih x m c h, List.append_assoc]

theorem ancOps_eq (t ca : PNode) (base : NPath) (hb : sub t base = some ca) :
    ∀ (rp : List Nat), (∃ m, sub ca rp.reverse = some m) → ancOps t base rp = (opsAlong ca rp.reverse).reverse := by
  intro rp
  induction rp with
  | nil => intro _; simp [ancOps, opsAlong]
  | cons c rp ih =>
    intro hv
    obtain ⟨m, hm⟩ := hv
    simp only [List.reverse_cons] at hm
    rw [sub_append] at hm
    cases hs : sub ca rp.reverse with
    | none => simp [hs] at hm
    | some s =>
      have hts : sub t (base ++ rp.reverse) = some s := by rw [sub_append, hb]; simpa using hs
      simp only [ancOps, hts, List.reverse_cons]
      rw [opsAlong_snoc rp.reverse ca s c hs, ih ⟨s, hs⟩]
      simp [opL_reverse]

/-- **Linkage is mutual**: searching from the target back to the source succeeds as well and
    yields the same operators in reverse order. -/
theorem find_mutual (t lca ca cb : PNode) (pre : NPath) (a b : Nat) (p q : NPath) (hab : a ≠ b)
    (hl : sub t pre = some lca) (hca : child lca a = some ca) (hcb : child lca b = some cb)
    (hp : ∃ m, sub ca p = some m) (hq : ∃ m, sub cb q = some m)
    (hf1 : (b :: q).length < 2 * size t + 8) (hf2 : (a :: p).length < 2 * size t + 8) :
    (find t (pre ++ b :: q) (pre ++ a :: p)).1 = true ∧ (find t (pre ++ a :: p) (pre ++ b :: q)).1 = true ∧
    (find t (pre ++ b :: q) (pre ++ a :: p)).2 = (find t (pre ++ a :: p) (pre ++ b :: q)).2.reverse := by
  obtain ⟨mp, hmp⟩ := hp
  obtain ⟨mq, hmq⟩ := hq
  have sa : sub lca (a :: p) = some mp := by rw [sub_cons, hca]; simpa using hmp
  have sb : sub lca (b :: q) = some mq := by rw [sub_cons, hcb]; simpa using hmq
  have ta : sub t (pre ++ a :: p) = some mp := by rw [sub_append, hl]; simpa using sa
  have tb : sub t (pre ++ b :: q) = some mq := by rw [sub_append, hl]; simpa using sb
  have f1 := find_spec t lca pre a b p q hab hl ⟨mp, ta⟩ ⟨mq, sb⟩ hf1
  have f2 := find_spec t lca pre b a q p (Ne.symm hab) hl ⟨mq, tb⟩ ⟨mp, sa⟩ hf2
  have ba : sub t (pre ++ [a]) = some ca := by rw [sub_append, hl]; simp [sub_cons, hca, sub]
  have bb : sub t (pre ++ [b]) = some cb := by rw [sub_append, hl]; simp [sub_cons, hcb, sub]
  have ea := ancOps_eq t ca (pre ++ [a]) ba p.reverse ⟨mp, by simpa using hmp⟩
  have eb := ancOps_eq t cb (pre ++ [b]) bb q.reverse ⟨mq, by simpa using hmq⟩
  simp only [List.reverse_reverse] at ea eb
  rw [f1, f2]
  refine ⟨rfl, rfl, ?_⟩
  simp only [ea, eb, opsAlong, hca, hcb, List.reverse_append, List.reverse_reverse, opL_reverse, List.append_assoc]

end IGVerif.Link
