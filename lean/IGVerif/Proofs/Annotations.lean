import IGVerif.Spec.Grammar
/-! A semantic annotation written on a component applies to every value of that component and to
    no value of another (C16): in the documented meaning every leaf of an annotated component
    carries, as its effective annotation, exactly the annotation of its own header. -/
namespace IGVerif

/-- trees as `denoteE` builds them below the root: no own annotation anywhere, no implicit
    conjunction inside a single annotation -/
def Plain : PNode → Prop
  | .leaf _ _ _ m _ => m.ann = none
  | .comb op _ _ m _ l r => m.ann = none ∧ op ≠ opBAND ∧ Plain l ∧ Plain r
  | _ => False

theorem op3_ne_band (o : Op3) : o.str ≠ opBAND := by cases o <;> decide

mutual
theorem plain_denoteE : (e : Expr) → (sl sr : List Str) → Plain (denoteE sl sr e)
  | .leaf t, sl, sr => by simp [denoteE, Plain]
  | .comb o l r, sl, sr => by
    simp only [denoteE, Plain]
    exact ⟨trivial, op3_ne_band o, plain_denoteE l [] [], plain_denoteE r [] []⟩
  | .chain o a b es, sl, sr => by
    simp only [denoteE]
    exact plain_denoteChain es o sl sr _ ⟨rfl, op3_ne_band o, plain_denoteE a [] [], plain_denoteE b [] []⟩
  | .shared l e r, sl, sr => by simp only [denoteE]; exact plain_denoteE e _ _
  | .multi2 l a m b r, sl, sr => by
    simp only [denoteE, Plain]
    exact ⟨trivial, by decide, plain_denoteE a _ _, plain_denoteE b _ _⟩
  | .multi3 l a m b n c r, sl, sr => by
    simp only [denoteE, Plain]
    exact ⟨trivial, by decide, ⟨trivial, by decide, plain_denoteE a _ _, plain_denoteE b _ _⟩, plain_denoteE c _ _⟩
theorem plain_denoteChain : (es : List Expr) → (o : Op3) → (sl sr : List Str) → (acc : PNode) → Plain acc →
    Plain (denoteChain o sl sr acc es)
  | [], o, sl, sr, acc, h => by simpa [denoteChain] using h
  | [e], o, sl, sr, acc, h => by
    simp only [denoteChain, Plain]
    exact ⟨trivial, op3_ne_band o, h, plain_denoteE e [] []⟩
  | e :: e' :: es, o, sl, sr, acc, h => by
    simp only [denoteChain]
    exact plain_denoteChain (e' :: es) o sl sr _ ⟨rfl, op3_ne_band o, h, plain_denoteE e [] []⟩
end

theorem mem_aggregate {α : Type} (flat : Bool) (l r : List (List α)) (arr : List α) (v : α)
    (ha : arr ∈ aggregate flat l r) (hv : v ∈ arr) : (∃ a ∈ l, v ∈ a) ∨ (∃ a ∈ r, v ∈ a) := by
  unfold aggregate at ha
  cases flat with
  | true =>
    simp only [if_true, List.mem_singleton] at ha
    subst ha
    simp only [List.mem_append, List.mem_flatten] at hv
    rcases hv with ⟨a, h1, h2⟩ | ⟨a, h1, h2⟩
    · exact Or.inl ⟨a, h1, h2⟩
    · exact Or.inr ⟨a, h1, h2⟩
  | false =>
    simp only [Bool.false_eq_true, if_false, List.mem_append] at ha
    rcases ha with h | h
    · exact Or.inl ⟨arr, h, hv⟩
    · exact Or.inr ⟨arr, h, hv⟩

/-- below an annotated (or un-annotated) root every value inherits the root's annotation -/
theorem inherit_ann (agg : Bool) : (n : PNode) → Plain n → (c : Ctx) → (rp : List Bool) → c.hasParent = true →
    ∀ arr ∈ leafArrays agg c rp n, ∀ v ∈ arr, v.eann = c.ann
  | .leaf t sl sr m p, hp, c, rp, hc => by
    intro arr ha v hv
    simp only [leafArrays] at ha
    split at ha
    · simp at ha
    · simp only [List.mem_singleton] at ha
      subst ha
      simp only [List.mem_singleton] at hv
      subst hv
      simp only [Plain] at hp
      simp [mkLeafV, effAnn, hc, hp, annNonEmpty]
  | .comb op sl sr m p l r, hp, c, rp, hc => by
    intro arr ha v hv
    simp only [Plain] at hp
    simp only [leafArrays] at ha
    have hc' : (childCtx c op sl sr m).hasParent = true := rfl
    have hann : (childCtx c op sl sr m).ann = c.ann := by
      simp [childCtx, hp.2.1, effAnn, hc, hp.1, annNonEmpty]
    rcases mem_aggregate _ _ _ arr v ha hv with ⟨a, h1, h2⟩ | ⟨a, h1, h2⟩
    · rw [← hann]; exact inherit_ann agg l hp.2.2.1 _ _ hc' a h1 v h2
    · rw [← hann]; exact inherit_ann agg r hp.2.2.2 _ _ hc' a h1 v h2
  | .stmt .., hp, _, _, _ => by simp [Plain] at hp
  | .pairs .., hp, _, _, _ => by simp [Plain] at hp
  | .empty, hp, _, _, _ => by simp [Plain] at hp

/-- **The annotation of a component's header is the effective annotation of every value of that
    component** — and of nothing else: the values of another annotation are a different tree
    with its own header -/
theorem annotation_applies_to_every_value (h : Hdr) (e : Expr) (v : LeafV)
    (hv : v ∈ leavesOf ((denoteE [] [] e).withMeta (hdrMeta h))) :
    v.eann = h.anno.map (fun a => '[' :: a ++ [']']) := by
  unfold leavesOf at hv
  simp only [List.mem_flatten] at hv
  obtain ⟨arr, ha, hva⟩ := hv
  have hpl := plain_denoteE e [] []
  generalize hd : denoteE [] [] e = d at ha hpl
  cases d with
  | leaf t sl sr m p =>
    simp only [PNode.withMeta, leafArrays] at ha
    split at ha
    · simp at ha
    · simp only [List.mem_singleton] at ha
      subst ha
      simp only [List.mem_singleton] at hva
      subst hva
      simp [mkLeafV, effAnn, hdrMeta]
  | comb op sl sr m p l r =>
    simp only [Plain] at hpl
    simp only [PNode.withMeta, leafArrays] at ha
    have hc' : (childCtx {} op sl sr (hdrMeta h m)).hasParent = true := rfl
    have hann : (childCtx {} op sl sr (hdrMeta h m)).ann = h.anno.map (fun a => '[' :: a ++ [']']) := by
      simp [childCtx, hpl.2.1, effAnn, hdrMeta]
    rcases mem_aggregate _ _ _ arr v ha hva with ⟨a, h1, h2⟩ | ⟨a, h1, h2⟩
    · rw [← hann]; exact inherit_ann true l hpl.2.2.1 _ _ hc' a h1 v h2
    · rw [← hann]; exact inherit_ann true r hpl.2.2.2 _ _ hc' a h1 v h2
  | stmt => simp [Plain] at hpl
  | pairs => simp [Plain] at hpl
  | empty => simp [Plain] at hpl

end IGVerif
