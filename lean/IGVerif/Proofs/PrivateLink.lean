import IGVerif.Spec.PrivateLink
/-! Withdrawal of private properties from the shared property tree (C16): the tree that remains
    holds exactly the values that did not become private, in their written order, and nothing
    is invented. -/
namespace IGVerif

/-- leaves of a tree with their paths (as `removeLeaves` numbers them) -/
def leavesWithPath : PNode → List Bool → List (List Bool × PNode)
  | .comb _ _ _ _ _ l r, rp => leavesWithPath l (false :: rp) ++ leavesWithPath r (true :: rp)
  | n, rp => [(rp.reverse, n)]

/-- leaves of a tree, left to right -/
def leafNodes : PNode → List PNode
  | .comb _ _ _ _ _ l r => leafNodes l ++ leafNodes r
  | n => [n]

def leafNodesOpt : Option PNode → List PNode
  | none => []
  | some n => leafNodes n

/-- **The remaining shared tree has exactly the leaves whose paths were not withdrawn, in order.** -/
theorem removeLeaves_leaves (paths : List (List Bool)) :
    (n : PNode) → (rp : List Bool) →
    leafNodesOpt (removeLeaves paths n rp) =
      ((leavesWithPath n rp).filter (fun x => !paths.contains x.1)).map (·.2)
  | .comb op sl sr m p l r, rp => by
    have hl := removeLeaves_leaves paths l (false :: rp)
    have hr := removeLeaves_leaves paths r (true :: rp)
    simp only [removeLeaves, leavesWithPath, List.filter_append, List.map_append]
    rw [← hl, ← hr]
    cases removeLeaves paths l (false :: rp) <;> cases removeLeaves paths r (true :: rp) <;>
      simp [leafNodesOpt, leafNodes]
  | .leaf t sl sr m p, rp => by
    simp only [removeLeaves, leavesWithPath]
    by_cases h : rp.reverse ∈ paths <;> simp [h, leafNodesOpt, leafNodes]
  | .stmt m fs, rp => by
    simp only [removeLeaves, leavesWithPath]
    by_cases h : rp.reverse ∈ paths <;> simp [h, leafNodesOpt, leafNodes]
  | .pairs m ns, rp => by
    simp only [removeLeaves, leavesWithPath]
    by_cases h : rp.reverse ∈ paths <;> simp [h, leafNodesOpt, leafNodes]
  | .empty, rp => by
    simp only [removeLeaves, leavesWithPath]
    by_cases h : rp.reverse ∈ paths <;> simp [h, leafNodesOpt, leafNodes]

/-- attaching private nodes changes no value, no operator and no shared text of the component
    tree: only the private lists of the addressed values grow -/
def eraseAttached : PNode → PNode
  | .comb op sl sr m p l r => .comb op sl sr m p (eraseAttached l) (eraseAttached r)
  | .leaf t sl sr m _ => .leaf t sl sr m []
  | n => n

theorem attachPrivate_shape (links : List (List Bool × List PNode)) :
    (n : PNode) → (rp : List Bool) → eraseAttached (attachPrivate links n rp) = eraseAttached n
  | .comb op sl sr m p l r, rp => by
    simp [attachPrivate, eraseAttached, attachPrivate_shape links l, attachPrivate_shape links r]
  | .leaf t sl sr m p, rp => by
    simp only [attachPrivate]
    cases links.find? (fun k => k.1 = rp.reverse) <;> simp [eraseAttached]
  | .stmt .., _ => by simp [attachPrivate]
  | .pairs .., _ => by simp [attachPrivate]
  | .empty, _ => by simp [attachPrivate]

/-- a value receives exactly the private nodes listed for its own path -/
theorem attachPrivate_leaf (links : List (List Bool × List PNode)) (t : Str) (sl sr : List Str) (m : Meta)
    (p : List PNode) (rp : List Bool) :
    attachPrivate links (.leaf t sl sr m p) rp =
      .leaf t sl sr m (p ++ ((links.find? (fun k => k.1 = rp.reverse)).map (·.2)).getD []) := by
  simp only [attachPrivate]
  cases links.find? (fun k => k.1 = rp.reverse) <;> simp

end IGVerif
