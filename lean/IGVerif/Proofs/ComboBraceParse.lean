import IGVerif.Proofs.ComboBrace
import IGVerif.Proofs.ComboShared
/-! Round trip in brace mode: a braced operator tree over nested statements is parsed into
    exactly that tree, each nested statement text (component symbol, braces, content) being one
    leaf. -/
namespace IGVerif.Combo
open IGVerif

def NoBrace (w : Str) : Prop := ∀ c ∈ w, c ≠ '{' ∧ c ≠ '}'

theorem parCountB_nobrace (w cs : Str) (n : Int) (h : NoBrace w) :
    Validate.parCount '{' '}' (w ++ cs) n = Validate.parCount '{' '}' cs n := by
  induction w generalizing n with
  | nil => rfl
  | cons c w ih =>
    have hc := h c (by simp)
    have hw : NoBrace w := fun x hx => h x (by simp [hx])
    simp only [List.cons_append, Validate.parCount, hc.1, hc.2, if_false]
    exact ih _ hw

theorem BPlain.noBrace {w : Str} (h : BPlain w) : NoBrace w := fun c hc => ⟨(h c hc).1, (h c hc).2.1⟩

theorem noBrace_sp (n : Nat) : NoBrace (sp n) := by
  intro c hc
  have : c = ' ' := by simpa [sp] using (List.eq_of_mem_replicate hc)
  subst this; decide

theorem bplain_sp (n : Nat) : BPlain (sp n) := by
  intro c hc
  have : c = ' ' := by simpa [sp] using (List.eq_of_mem_replicate hc)
  subst this; decide

theorem flatOK_noBrace (w : Str) : ∀ n, flatOK w n = true → NoBrace w := by
  induction w with
  | nil => intro n _ c hc; simp at hc
  | cons c w ih =>
    intro n h
    rw [flatOK] at h
    split at h
    · simp at h
    · rename_i hb
      have h12 : c ≠ '{' ∧ c ≠ '}' := by simpa [not_or] using hb
      have hw : ∃ m, flatOK w m = true := by
        split at h
        · exact ⟨_, h⟩
        · split at h
          · simp only [Bool.and_eq_true] at h; exact ⟨_, h.2⟩
          · split at h
            · simp only [Bool.and_eq_true] at h; exact ⟨_, h.2⟩
            · exact ⟨_, h⟩
      obtain ⟨m, hm⟩ := hw
      intro x hx
      rcases List.mem_cons.mp hx with rfl | hx
      · exact h12
      · exact ih m hm x hx

theorem parCountB_render (t : BT) (hb : BOk t) : ∀ (cs : Str) (n : Int),
    Validate.parCount '{' '}' (renderB t ++ cs) n = Validate.parCount '{' '}' cs n := by
  induction hb with
  | one hdr flat hp _ _ hf _ =>
    intro cs n
    have e : renderB (.one hdr flat) ++ cs = hdr ++ ('{' :: (flat ++ ('}' :: cs))) := by simp [renderB]
    rw [e, parCountB_nobrace _ _ _ hp.noBrace, Validate.parCount]
    simp only [if_true]
    rw [parCountB_nobrace _ _ _ (flatOK_noBrace flat 0 hf), Validate.parCount]
    simp only [show ('}' = '{') = False by decide, if_false, if_true]
    congr 1; omega
  | op o l r _ _ ihl ihr =>
    intro cs n
    rw [renderB_op]
    have h1 : ('[' :: (o.str ++ ']' :: ([' '] ++ (renderB r ++ '}' :: cs)))) = ('[' :: o.str ++ [']', ' ']) ++ (renderB r ++ '}' :: cs) := by simp
    have hp : NoBrace ('[' :: o.str ++ [']', ' ']) := by
      cases o <;> simp [NoBrace, Op3.str, opAND, opOR, opXOR, str]
    rw [Validate.parCount]
    simp only [if_true]
    rw [ihl, parCountB_nobrace [' '] _ _ (by intro c hc; simp at hc; subst hc; decide), h1, parCountB_nobrace _ _ _ hp, ihr,
      Validate.parCount]
    simp only [show ('}' = '{') = False by decide, if_false, if_true]
    congr 1
    omega

/-- `detectCombinations` in brace mode on a rendered tree between blanks -/
theorem detectB_render (t : BT) (hb : BOk t) (a b fuel : Nat) :
    ∃ lm', detect '{' '}' fuel (sp a ++ renderB t ++ sp b) = .ok lm' (sp a ++ renderB t ++ sp b)
      ∧ lm'[0]? = some (entsB t a) := by
  have h1 : Validate.parCount '{' '}' (sp a ++ renderB t ++ sp b) 0 = 0 := by
    rw [List.append_assoc, parCountB_nobrace _ _ _ (noBrace_sp a), parCountB_render _ hb]
    have := parCountB_nobrace (sp b) [] 0 (noBrace_sp b)
    simpa [Validate.parCount] using this
  obtain ⟨lm', h2, hE⟩ := scan_renderB _ hb (sp b) (0 + (sp a).length) {} (by simp) rfl
  have h3 : scan '{' '}' (sp a ++ renderB t ++ sp b) 0 {} = .done lm' := by
    rw [List.append_assoc, scan_plainB _ _ _ _ (bplain_sp a), h2]
    have := scan_plainB (sp b) [] (0 + (sp a).length + (renderB t).length) { ({} : St) with lm := lm' } (bplain_sp b)
    simpa [scan] using this
  refine ⟨lm', ?_, ?_⟩
  · rw [detect]
    simp only [h1, h3]
    simp
  · have := hE.at_
    simp only [List.length_nil, List.getElem?_nil, Option.getD_none, List.nil_append] at this
    have hs : 0 + (sp a).length = a := by simp [sp]
    rw [hs] at this
    cases t with
    | one hdr flat =>
      simp only [entsB] at this ⊢
      have := some_of_getD_append lm' 0 [] _ (by simpa using this)
      simpa using this
    | op o l r =>
      simp only [entsB] at this ⊢
      have := some_of_getD_append lm' 0 [] _ (by simpa using this)
      simpa using this

/-- a single nested statement: the level map holds exactly its one, incomplete boundary -/
theorem detectB_leaf (hdr flat : Str) (hb : BOk (.one hdr flat)) (a b fuel : Nat) :
    detect '{' '}' fuel (sp a ++ renderB (.one hdr flat) ++ sp b)
      = .ok [entsB (.one hdr flat) a] (sp a ++ renderB (.one hdr flat) ++ sp b) := by
  cases hb with
  | one _ _ hp hne hhd hf hfne =>
    have h1 : Validate.parCount '{' '}' (sp a ++ renderB (.one hdr flat) ++ sp b) 0 = 0 := by
      rw [List.append_assoc, parCountB_nobrace _ _ _ (noBrace_sp a), parCountB_render _ (.one hdr flat hp hne hhd hf hfne)]
      have := parCountB_nobrace (sp b) [] 0 (noBrace_sp b)
      simpa [Validate.parCount] using this
    have hfl : 0 < flat.length := List.length_pos_iff.mpr hfne
    have hhl : 0 < hdr.length := List.length_pos_iff.mpr hne
    have h3 : scan '{' '}' (sp a ++ renderB (.one hdr flat) ++ sp b) 0 {} = .done [entsB (.one hdr flat) a] := by
      have e : sp a ++ renderB (.one hdr flat) ++ sp b = sp a ++ (hdr ++ ('{' :: (flat ++ ('}' :: (sp b ++ []))))) := by
        simp [renderB]
      rw [e, scan_plainB _ _ _ _ (bplain_sp a), scan_plainB _ _ _ _ hp, scan_openB,
        scan_flat flat 0 _ _ _ hf rfl]
      have hlm : openAt ([] : LM) 0 { left := 0 + (sp a).length + hdr.length + 1 } = [[{ left := a + hdr.length + 1 }]] := by
        simp [openAt, sp]
      simp only [List.length_nil, hlm]
      rw [scan_closeB _ _ _ .left [] [] { left := a + hdr.length + 1 } rfl (by simp) (by simp [sp]; omega),
        scan_plainB _ _ _ _ (bplain_sp b), scan]
      simp [modAt, modLast, entsB, sp]
    rw [detect]
    simp only [h1, h3]
    simp

/-! ### the round trip in brace mode -/

def treeOfB : BT → CNode
  | .one hdr flat => .leaf (hdr ++ '{' :: flat ++ ['}'])
  | .op o l r => .comb o.str [] [] (treeOfB l) (treeOfB r)

def depthB : BT → Nat
  | .one _ _ => 1
  | .op _ l r => 1 + max (depthB l) (depthB r)

theorem cleanShared_leftB (a : Nat) : cleanShared (sp a ++ ['{']) = [] := by
  have h : trimBoth isIgnoredShared (sp a ++ ['{']) = sp a := by
    cases a with
    | zero => simp [sp, trimBoth, trimL, isIgnoredShared]
    | succ n =>
      have e : sp (n+1) = ' ' :: sp n := by simp [sp, List.replicate_succ]
      unfold trimBoth
      rw [e, List.cons_append, trimL_stop _ _ _ (by decide), ← List.cons_append, ← e, List.reverse_append, reverse_sp]
      simp only [List.reverse_cons, List.reverse_nil, List.nil_append, List.cons_append]
      rw [trimL, if_pos (by decide), e, trimL_stop _ _ _ (by decide), ← e, reverse_sp]
  simp [cleanShared, h, trimWs_sp]

theorem cleanShared_rightB (b : Nat) : cleanShared ('}' :: sp b) = [] := by
  have h : trimBoth isIgnoredShared ('}' :: sp b) = sp b := by
    cases b with
    | zero => simp [sp, trimBoth, trimL, isIgnoredShared]
    | succ n =>
      have e : sp (n+1) = ' ' :: sp n := by simp [sp, List.replicate_succ]
      unfold trimBoth
      rw [trimL, if_pos (by decide), e, trimL_stop _ _ _ (by decide), ← e, reverse_sp, e, trimL_stop _ _ _ (by decide),
        ← e, reverse_sp]
  simp [cleanShared, h, trimWs_sp]

/-- brace mode has no early exit -/
theorem parseB_unfold (input : Str) (f : Nat) (nested : Bool) :
    parse true (f+1) input nested
      = afterDetect '{' '}' (parse true f) nested (detect '{' '}' (input.length + 1) input) := by
  rw [parse]
  simp

/-- a nested statement on its own: no complete combination, the parser returns the empty node -/
theorem parseB_leaf (hdr flat : Str) (hb : BOk (.one hdr flat)) (a b f : Nat) (nested : Bool) :
    parse true (f+1) (sp a ++ renderB (.one hdr flat) ++ sp b) nested
      = .res ⟨.empty, sp a ++ renderB (.one hdr flat) ++ sp b, cNoError⟩ := by
  rw [parseB_unfold, detectB_leaf hdr flat hb, afterDetect]
  simp [entsB, firstComplete]

theorem trimSp_leafB (hdr flat : Str) (hne : hdr ≠ []) (hhd : hdr.head? ≠ some ' ') (a b : Nat) :
    trimSp (sp a ++ renderB (.one hdr flat) ++ sp b) = renderB (.one hdr flat) := by
  apply trimSp_word
  refine ⟨by simp [renderB], ?_, ?_⟩
  · cases hdr with
    | nil => exact absurd rfl hne
    | cons c u => simpa [renderB] using hhd
  · have e : renderB (.one hdr flat) = (hdr ++ '{' :: flat) ++ ['}'] := by simp [renderB]
    rw [e, List.getLast?_append]
    simp

/-- one side of a combination in brace mode -/
theorem side_operandB (x : BT) (hx : BOk x) (f : Nat) (a b : Nat) (input : Str) (soFar : CNode)
    (hP : ∀ o l r, x = .op o l r →
      parse true (f+1) (sp a ++ renderB x ++ sp b) true = .res ⟨treeOfB x, sp a ++ renderB x ++ sp b, cNoError⟩) :
    side '{' '}' (parse true (f+1)) input soFar (sp a ++ renderB x ++ sp b) = .child (treeOfB x) := by
  cases hx with
  | one hdr flat hp hne hhd hf hfne =>
    have hb : BOk (.one hdr flat) := .one hdr flat hp hne hhd hf hfne
    unfold side
    rw [detectB_leaf hdr flat hb]
    simp only [List.isEmpty_cons, Bool.false_eq_true, if_false]
    rw [parseB_leaf hdr flat hb]
    have ht := trimSp_leafB hdr flat hne hhd a b
    have hne' : renderB (.one hdr flat) ≠ [] := by simp [renderB]
    simp only [ht, hne', treeOfB, cNoError, ne_eq, not_true_eq_false, false_and, if_false, not_false_eq_true, if_true]
    simp [renderB]
  | op o l r hl hr =>
    have hb : BOk (.op o l r) := .op o l r hl hr
    obtain ⟨lm', hd, hl0⟩ := detectB_render _ hb a b ((sp a ++ renderB (.op o l r) ++ sp b).length + 1)
    have hne : lm'.isEmpty = false := by
      cases lm' with
      | nil => simp at hl0
      | cons _ _ => rfl
    unfold side
    rw [hd]
    simp only [hne, hP o l r rfl]
    simp [treeOfB]

/-- the boundary the scan records for `{l [o] r}` written at position `n` -/
def bndB (o : Op3) (l r : BT) (n : Nat) : Bnd :=
  { left := n + 1, right := n + (renderB l).length + (renderB r).length + o.str.length + 5,
    op := n + (renderB l).length + 2, opVal := o.str, complete := true }

theorem entsB_op (o : Op3) (l r : BT) (n : Nat) : entsB (.op o l r) n = [bndB o l r n] := rfl

/-- after the scan: the node of the combination `{l [o] r}` that stands, alone on the first
    level, between arbitrary text `pre` and `post`, given the shared text found for it -/
theorem afterDetectB_gen (o : Op3) (l r : BT) (hl : BOk l) (hr : BOk r) (f : Nat) (pre post : Str) (nested : Bool)
    (rest : LM) (sl sr : List Str)
    (ihl : ∀ o' l' r', l = .op o' l' r' → ∀ a b,
      parse true (f+1) (sp a ++ renderB l ++ sp b) true = .res ⟨treeOfB l, sp a ++ renderB l ++ sp b, cNoError⟩)
    (ihr : ∀ o' l' r', r = .op o' l' r' → ∀ a b,
      parse true (f+1) (sp a ++ renderB r ++ sp b) true = .res ⟨treeOfB r, sp a ++ renderB r ++ sp b, cNoError⟩)
    (hsh : extractShared (pre ++ renderB (.op o l r) ++ post) ([bndB o l r pre.length] :: rest) 0 0
      [bndB o l r pre.length] (bndB o l r pre.length) = (sl, sr)) :
    afterDetect '{' '}' (parse true (f+1)) nested
        (.ok ([bndB o l r pre.length] :: rest) (pre ++ renderB (.op o l r) ++ post))
      = .res ⟨.comb o.str sl sr (treeOfB l) (treeOfB r), pre ++ renderB (.op o l r) ++ post, cNoError⟩ := by
  obtain ⟨I, hI⟩ : ∃ I, I = pre ++ renderB (.op o l r) ++ post := ⟨_, rfl⟩
  rw [← hI] at hsh ⊢
  have hI1 : I = (pre ++ ['{']) ++ (renderB l ++ [' ']) ++ (o.br ++ ' ' :: renderB r ++ '}' :: post) := by
    rw [hI]; simp [renderB]
  have hI2 : I = (pre ++ '{' :: renderB l ++ ' ' :: o.br) ++ (' ' :: renderB r) ++ ('}' :: post) := by
    rw [hI]; simp [renderB]
  have hbr : (o.br).length = o.str.length + 2 := by simp [Op3.br]
  have hleft : slice I (pre.length + 1) (pre.length + (renderB l).length + 2) = sp 0 ++ renderB l ++ sp 1 :=
    slice_of I _ _ _ _ _ hI1 (by simp) (by simp; omega) |>.trans (by simp [sp])
  have hright : slice I (pre.length + (renderB l).length + 2 + o.str.length + 2)
      (pre.length + (renderB l).length + (renderB r).length + o.str.length + 5) = sp 1 ++ renderB r ++ sp 0 :=
    slice_of I _ _ _ _ _ hI2 (by simp [hbr]; omega) (by simp [hbr]; omega) |>.trans (by simp [sp])
  have hs1 := side_operandB l hl f 0 1 I (.comb o.str sl sr .nil .nil) (fun o' l' r' h => ihl o' l' r' h 0 1)
  have hs2 := side_operandB r hr f 1 0 I (.comb o.str sl sr (treeOfB l) .nil) (fun o' l' r' h => ihr o' l' r' h 1 0)
  rw [afterDetect]
  simp only [firstComplete, bndB]
  simp only [List.isEmpty_cons, Bool.false_eq_true, if_false, List.any_cons, List.any_nil, Bool.or_false, if_true]
  rw [procEntries]
  simp only [bndB] at hsh
  simp only [hsh]
  simp only [hleft, hright]
  simp only [Bool.not_true, Bool.false_eq_true, if_false, hs1]
  simp only [hs2]
  cases nested <;> simp [procEntries, finish]

theorem afterDetectB_op (o : Op3) (l r : BT) (hl : BOk l) (hr : BOk r) (f a b : Nat) (nested : Bool) (rest : LM)
    (ihl : ∀ o' l' r', l = .op o' l' r' → ∀ a b,
      parse true (f+1) (sp a ++ renderB l ++ sp b) true = .res ⟨treeOfB l, sp a ++ renderB l ++ sp b, cNoError⟩)
    (ihr : ∀ o' l' r', r = .op o' l' r' → ∀ a b,
      parse true (f+1) (sp a ++ renderB r ++ sp b) true = .res ⟨treeOfB r, sp a ++ renderB r ++ sp b, cNoError⟩) :
    afterDetect '{' '}' (parse true (f+1)) nested
        (.ok (entsB (.op o l r) a :: rest) (sp a ++ renderB (.op o l r) ++ sp b))
      = .res ⟨treeOfB (.op o l r), sp a ++ renderB (.op o l r) ++ sp b, cNoError⟩ := by
  have hbr : (o.br).length = o.str.length + 2 := by simp [Op3.br]
  have hI1' : sp a ++ renderB (.op o l r) ++ sp b
      = (sp a ++ ['{']) ++ ((renderB l ++ [' ']) ++ (o.br ++ ' ' :: renderB r ++ '}' :: sp b)) := by
    simp [renderB]
  have hI2' : sp a ++ renderB (.op o l r) ++ sp b
      = (sp a ++ '{' :: renderB l ++ ' ' :: o.br ++ ' ' :: renderB r) ++ ('}' :: sp b) := by
    simp [renderB]
  have hsh : extractShared (sp a ++ renderB (.op o l r) ++ sp b) ([bndB o l r (sp a).length] :: rest) 0 0
      [bndB o l r (sp a).length] (bndB o l r (sp a).length) = ([], []) := by
    have htake : (sp a ++ renderB (.op o l r) ++ sp b).take (a + 1) = sp a ++ ['{'] := by
      rw [hI1', List.take_left' (by simp [length_sp])]
    have hdrop : (sp a ++ renderB (.op o l r) ++ sp b).drop (a + (renderB l).length + (renderB r).length + o.str.length + 5)
        = '}' :: sp b := by
      rw [hI2', List.drop_left' (by simp [length_sp, hbr]; omega)]
    simp only [extractShared, enclosing, bndB, length_sp, htake, hdrop, if_true, Nat.zero_add,
      List.getElem?_cons_succ, List.getElem?_nil, cleanShared_leftB, cleanShared_rightB]
  have := afterDetectB_gen o l r hl hr f (sp a) (sp b) nested rest [] [] ihl ihr hsh
  simp only [length_sp] at this
  rw [entsB_op, this]
  simp [treeOfB]

theorem parseB_render_aux (t : BT) (ht : BOk t) : ∀ o l r, t = .op o l r → ∀ (fuel a b : Nat) (nested : Bool),
    depthB t ≤ fuel →
    parse true fuel (sp a ++ renderB t ++ sp b) nested = .res ⟨treeOfB t, sp a ++ renderB t ++ sp b, cNoError⟩ := by
  induction ht with
  | one hdr flat _ _ _ _ _ => intro o l r h; cases h
  | op o l r hl hr ihl ihr =>
    intro _ _ _ _ fuel a b nested hf
    have hb : BOk (.op o l r) := .op o l r hl hr
    have hdl : 1 ≤ depthB l := by cases l <;> simp [depthB]
    simp only [depthB] at hf
    obtain ⟨f, rfl⟩ : ∃ f, fuel = f + 2 := ⟨fuel - 2, by omega⟩
    obtain ⟨lm', hd, hl0⟩ := detectB_render _ hb a b ((sp a ++ renderB (.op o l r) ++ sp b).length + 1)
    obtain ⟨es0, rest, hlm⟩ : ∃ es0 rest, lm' = es0 :: rest := by
      cases lm' with
      | nil => simp at hl0
      | cons x xs => exact ⟨x, xs, rfl⟩
    subst hlm
    simp only [List.getElem?_cons_zero, Option.some.injEq] at hl0
    subst hl0
    rw [parseB_unfold, hd]
    exact afterDetectB_op o l r hl hr f a b nested rest
      (fun o' l' r' h a b => ihl o' l' r' h (f+1) a b true (by omega))
      (fun o' l' r' h a b => ihr o' l' r' h (f+1) a b true (by omega))

/-- **Round trip in brace mode.** A braced operator tree over nested statements is parsed into
    exactly that tree; every nested statement (symbol, braces, content with its parenthesised
    components and the operators inside them) is one leaf; the text is unchanged, no error. -/
theorem parseB_render (o : Op3) (l r : BT) (h : BOk (.op o l r)) (nested : Bool) (fuel : Nat)
    (hf : depthB (.op o l r) ≤ fuel) :
    parse true fuel (renderB (.op o l r)) nested = .res ⟨treeOfB (.op o l r), renderB (.op o l r), cNoError⟩ := by
  have := parseB_render_aux _ h o l r rfl fuel 0 0 nested hf
  simpa [sp] using this

/-- the scan of the text as `parseNestedStatementCombination` passes it (symbol in front), any fuel -/
theorem detectB_with_symbol (hdr : Str) (o : Op3) (l r : BT) (h : BOk (.op o l r)) (hb : BPlain hdr) (fuel : Nat) :
    ∃ rest, detect '{' '}' fuel (hdr ++ renderB (.op o l r)) = .ok ([bndB o l r hdr.length] :: rest) (hdr ++ renderB (.op o l r)) := by
  have h1 : Validate.parCount '{' '}' (hdr ++ renderB (.op o l r)) 0 = 0 := by
    rw [parCountB_nobrace _ _ _ hb.noBrace]
    have := parCountB_render _ h [] 0
    simpa [Validate.parCount] using this
  obtain ⟨lm', h2, hE⟩ := scan_renderB _ h [] (0 + hdr.length) {} (by simp) rfl
  have h3 : scan '{' '}' (hdr ++ renderB (.op o l r)) 0 {} = .done lm' := by
    have e : hdr ++ renderB (.op o l r) = hdr ++ (renderB (.op o l r) ++ []) := by simp
    rw [e, scan_plainB _ _ _ _ hb, h2, scan]
  have hl0 : lm'[0]? = some [bndB o l r hdr.length] := by
    have := hE.at_
    simp only [List.length_nil, List.getElem?_nil, Option.getD_none, List.nil_append, Nat.zero_add, entsB_op] at this
    exact some_of_getD_append lm' 0 [] _ (by simpa using this)
  obtain ⟨es0, rest, hlm⟩ : ∃ es0 rest, lm' = es0 :: rest := by
    cases lm' with
    | nil => simp at hl0
    | cons x xs => exact ⟨x, xs, rfl⟩
  subst hlm
  simp only [List.getElem?_cons_zero, Option.some.injEq] at hl0
  subst hl0
  refine ⟨rest, ?_⟩
  rw [detect]
  simp only [h1, h3]
  simp

/-- what is built from that level map: the written tree, the symbol as shared left text of the root -/
theorem afterDetectB_with_symbol (hdr : Str) (o : Op3) (l r : BT) (hl : BOk l) (hr : BOk r) (hh : SWord hdr)
    (nested : Bool) (f : Nat) (hf : depthB (.op o l r) ≤ f + 2) (rest : LM) :
    afterDetect '{' '}' (parse true (f+1)) nested (.ok ([bndB o l r hdr.length] :: rest) (hdr ++ renderB (.op o l r)))
      = .res ⟨.comb o.str [hdr] [] (treeOfB l) (treeOfB r), hdr ++ renderB (.op o l r), cNoError⟩ := by
  have hdl : 1 ≤ depthB l := by cases l <;> simp [depthB]
  simp only [depthB] at hf
  have hbr : (o.br).length = o.str.length + 2 := by simp [Op3.br]
  have hsh : extractShared (hdr ++ renderB (.op o l r) ++ []) ([bndB o l r hdr.length] :: rest) 0 0
      [bndB o l r hdr.length] (bndB o l r hdr.length) = ([hdr], []) := by
    have hI1 : hdr ++ renderB (.op o l r) ++ [] = (hdr ++ ['{']) ++ (renderB l ++ ' ' :: o.br ++ ' ' :: renderB r ++ ['}']) := by
      simp [renderB]
    have hI2 : hdr ++ renderB (.op o l r) ++ [] = (hdr ++ '{' :: renderB l ++ ' ' :: o.br ++ ' ' :: renderB r) ++ ['}'] := by
      simp [renderB]
    have htake : (hdr ++ renderB (.op o l r) ++ []).take (hdr.length + 1) = hdr ++ ['{'] := by
      rw [hI1, List.take_left' (by simp)]
    have hdrop : (hdr ++ renderB (.op o l r) ++ []).drop (hdr.length + (renderB l).length + (renderB r).length + o.str.length + 5)
        = ['}'] := by
      rw [hI2, List.drop_left' (by simp [hbr]; omega)]
    obtain ⟨c, u, d, v, ht, hr', hwc, hic, hwd, hid⟩ := hh.split
    have e1 : cleanShared (hdr ++ ['{']) = [hdr] := by
      have t1 : trimBoth isIgnoredShared (hdr ++ ['{']) = hdr := by
        have := trimBoth_core isIgnoredShared [] hdr ['{'] (by simp) (by simp [isIgnoredShared]) c u ht hic d v hr' hid
        simpa using this
      have t2 : trimWs hdr = hdr := by
        have := trimBoth_core isWs [] hdr [] (by simp) (by simp) c u ht hwc d v hr' hwd
        simpa [trimWs] using this
      unfold cleanShared
      rw [t1, t2]
      simp [hh.ne]
    have e2 : cleanShared ['}'] = [] := by simpa [sp] using cleanShared_rightB 0
    simp only [extractShared, enclosing, bndB, htake, hdrop, if_true, Nat.zero_add,
      List.getElem?_cons_succ, List.getElem?_nil, e1, e2]
  have := afterDetectB_gen o l r hl hr f hdr [] nested rest [hdr] []
    (fun o' l' r' h a b => parseB_render_aux l hl o' l' r' h (f+1) a b true (by omega))
    (fun o' l' r' h a b => parseB_render_aux r hr o' l' r' h (f+1) a b true (by omega)) hsh
  simpa using this

/-- **The text as `parseNestedStatementCombination` passes it**: the component symbol in front of
    the braced combination. The tree is the written one; the symbol ends up as shared left text
    of the root (where the caller reads the component type from the leaves, not from it). -/
theorem parseB_with_symbol (hdr : Str) (o : Op3) (l r : BT) (h : BOk (.op o l r)) (hh : SWord hdr) (hb : BPlain hdr)
    (nested : Bool) (fuel : Nat) (hf : depthB (.op o l r) ≤ fuel) :
    parse true fuel (hdr ++ renderB (.op o l r)) nested
      = .res ⟨.comb o.str [hdr] [] (treeOfB l) (treeOfB r), hdr ++ renderB (.op o l r), cNoError⟩ := by
  cases h with
  | op _ _ _ hl hr =>
    have hdl : 1 ≤ depthB l := by cases l <;> simp [depthB]
    have hf' := hf
    simp only [depthB] at hf'
    obtain ⟨f, rfl⟩ : ∃ f, fuel = f + 2 := ⟨fuel - 2, by omega⟩
    obtain ⟨rest, hd⟩ := detectB_with_symbol hdr o l r (.op o l r hl hr) hb ((hdr ++ renderB (.op o l r)).length + 1)
    rw [parseB_unfold, hd]
    exact afterDetectB_with_symbol hdr o l r hl hr hh nested f hf rest

end IGVerif.Combo
