import IGVerif.Proofs.ComboBrace
/-! Round trip in brace mode: a braced operator tree over nested statements is parsed into
    exactly that tree, each nested statement text (component symbol, braces, content) being one
    leaf. -/
namespace IGVerif.Combo
open IGVerif

def NoBrace (w : Str) : Prop := ∀ c ∈ w, c ≠ '{' ∧ c ≠ '}'

theorem parCountB_nobrace (w cs : Str) (n : Int) (h : NoBrace w) :
    Validate.parCount '{' '}' (w ++ cs) n = Validate.parCount '{' '}' cs n := by
  induction w generalizing n with
  | nil => rfl
  | cons c w ih =>
    have hc := h c (by simp)
    have hw : NoBrace w := fun x hx => h x (by simp [hx])
    simp only [List.cons_append, Validate.parCount, hc.1, hc.2, if_false]
    exact ih _ hw

theorem BPlain.noBrace {w : Str} (h : BPlain w) : NoBrace w := fun c hc => ⟨(h c hc).1, (h c hc).2.1⟩

theorem noBrace_sp (n : Nat) : NoBrace (sp n) := by
  intro c hc
  have : c = ' ' := by simpa [sp] using (List.eq_of_mem_replicate hc)
  subst this; decide

theorem bplain_sp (n : Nat) : BPlain (sp n) := by
  intro c hc
  have : c = ' ' := by simpa [sp] using (List.eq_of_mem_replicate hc)
  subst this; decide

theorem flatOK_noBrace (w : Str) : ∀ n, flatOK w n = true → NoBrace w := by
  induction w with
  | nil => intro n _ c hc; simp at hc
  | cons c w ih =>
    intro n h
    rw [flatOK] at h
    split at h
    · simp at h
    · rename_i hb
      have h12 : c ≠ '{' ∧ c ≠ '}' := by simpa [not_or] using hb
      have hw : ∃ m, flatOK w m = true := by
        split at h
        · exact ⟨_, h⟩
        · split at h
          · simp only [Bool.and_eq_true] at h; exact ⟨_, h.2⟩
          · split at h
            · simp only [Bool.and_eq_true] at h; exact ⟨_, h.2⟩
            · exact ⟨_, h⟩
      obtain ⟨m, hm⟩ := hw
      intro x hx
      rcases List.mem_cons.mp hx with rfl | hx
      · exact h12
      · exact ih m hm x hx

theorem parCountB_render (t : BT) (hb : BOk t) : ∀ (cs : Str) (n : Int),
    Validate.parCount '{' '}' (renderB t ++ cs) n = Validate.parCount '{' '}' cs n := by
  induction hb with
  | one hdr flat hp _ _ hf _ =>
    intro cs n
    have e : renderB (.one hdr flat) ++ cs = hdr ++ ('{' :: (flat ++ ('}' :: cs))) := by simp [renderB]
    rw [e, parCountB_nobrace _ _ _ hp.noBrace, Validate.parCount]
    simp only [if_true]
    rw [parCountB_nobrace _ _ _ (flatOK_noBrace flat 0 hf), Validate.parCount]
    simp only [show ('}' = '{') = False by decide, if_false, if_true]
    congr 1; omega
  | op o l r _ _ ihl ihr =>
    intro cs n
    rw [renderB_op]
    have h1 : ('[' :: (o.str ++ ']' :: ([' '] ++ (renderB r ++ '}' :: cs)))) = ('[' :: o.str ++ [']', ' ']) ++ (renderB r ++ '}' :: cs) := by simp
    have hp : NoBrace ('[' :: o.str ++ [']', ' ']) := by
      cases o <;> simp [NoBrace, Op3.str, opAND, opOR, opXOR, str]
    rw [Validate.parCount]
    simp only [if_true]
    rw [ihl, parCountB_nobrace [' '] _ _ (by intro c hc; simp at hc; subst hc; decide), h1, parCountB_nobrace _ _ _ hp, ihr,
      Validate.parCount]
    simp only [show ('}' = '{') = False by decide, if_false, if_true]
    congr 1
    omega

/-- `detectCombinations` in brace mode on a rendered tree between blanks -/
theorem detectB_render (t : BT) (hb : BOk t) (a b fuel : Nat) :
    ∃ lm', detect '{' '}' fuel (sp a ++ renderB t ++ sp b) = .ok lm' (sp a ++ renderB t ++ sp b)
      ∧ lm'[0]? = some (entsB t a) := by
  have h1 : Validate.parCount '{' '}' (sp a ++ renderB t ++ sp b) 0 = 0 := by
    rw [List.append_assoc, parCountB_nobrace _ _ _ (noBrace_sp a), parCountB_render _ hb]
    have := parCountB_nobrace (sp b) [] 0 (noBrace_sp b)
    simpa [Validate.parCount] using this
  obtain ⟨lm', h2, hE⟩ := scan_renderB _ hb (sp b) (0 + (sp a).length) {} (by simp) rfl
  have h3 : scan '{' '}' (sp a ++ renderB t ++ sp b) 0 {} = .done lm' := by
    rw [List.append_assoc, scan_plainB _ _ _ _ (bplain_sp a), h2]
    have := scan_plainB (sp b) [] (0 + (sp a).length + (renderB t).length) { ({} : St) with lm := lm' } (bplain_sp b)
    simpa [scan] using this
  refine ⟨lm', ?_, ?_⟩
  · rw [detect]
    simp only [h1, h3]
    simp
  · have := hE.at_
    simp only [List.length_nil, List.getElem?_nil, Option.getD_none, List.nil_append] at this
    have hs : 0 + (sp a).length = a := by simp [sp]
    rw [hs] at this
    cases t with
    | one hdr flat =>
      simp only [entsB] at this ⊢
      have := some_of_getD_append lm' 0 [] _ (by simpa using this)
      simpa using this
    | op o l r =>
      simp only [entsB] at this ⊢
      have := some_of_getD_append lm' 0 [] _ (by simpa using this)
      simpa using this

/-- a single nested statement: the level map holds exactly its one, incomplete boundary -/
theorem detectB_leaf (hdr flat : Str) (hb : BOk (.one hdr flat)) (a b fuel : Nat) :
    detect '{' '}' fuel (sp a ++ renderB (.one hdr flat) ++ sp b)
      = .ok [entsB (.one hdr flat) a] (sp a ++ renderB (.one hdr flat) ++ sp b) := by
  cases hb with
  | one _ _ hp hne hhd hf hfne =>
    have h1 : Validate.parCount '{' '}' (sp a ++ renderB (.one hdr flat) ++ sp b) 0 = 0 := by
      rw [List.append_assoc, parCountB_nobrace _ _ _ (noBrace_sp a), parCountB_render _ (.one hdr flat hp hne hhd hf hfne)]
      have := parCountB_nobrace (sp b) [] 0 (noBrace_sp b)
      simpa [Validate.parCount] using this
    have hfl : 0 < flat.length := List.length_pos_iff.mpr hfne
    have hhl : 0 < hdr.length := List.length_pos_iff.mpr hne
    have h3 : scan '{' '}' (sp a ++ renderB (.one hdr flat) ++ sp b) 0 {} = .done [entsB (.one hdr flat) a] := by
      have e : sp a ++ renderB (.one hdr flat) ++ sp b = sp a ++ (hdr ++ ('{' :: (flat ++ ('}' :: (sp b ++ []))))) := by
        simp [renderB]
      rw [e, scan_plainB _ _ _ _ (bplain_sp a), scan_plainB _ _ _ _ hp, scan_openB,
        scan_flat flat 0 _ _ _ hf rfl]
      have hlm : openAt ([] : LM) 0 { left := 0 + (sp a).length + hdr.length + 1 } = [[{ left := a + hdr.length + 1 }]] := by
        simp [openAt, sp]
      simp only [List.length_nil, hlm]
      rw [scan_closeB _ _ _ .left [] [] { left := a + hdr.length + 1 } rfl (by simp) (by simp [sp]; omega),
        scan_plainB _ _ _ _ (bplain_sp b), scan]
      simp [modAt, modLast, entsB, sp]
    rw [detect]
    simp only [h1, h3]
    simp

end IGVerif.Combo
