import IGVerif.Model.Odo
/-! Odometer, part A: the Go carry loop equals the clean mixed-radix successor. All position
    vectors are least-significant digit first ("reversed"). Radix of an array of length `l`
    is `max l 1`: an empty array behaves like a one-valued digit that is skipped on output. -/
namespace IGVerif.Odo

theorem carry_nil : carry [] [] = some [] := by rw [carry.eq_def]

theorem carry_nocarry (l p : Nat) (ls ps : List Nat) (h : ¬ (p > 0 ∧ p ≥ l)) :
    carry (l :: ls) (p :: ps) = (carry ls ps).map (p :: ·) := by
  rw [carry.eq_def]; simp [h]

theorem carry_c0 (l p : Nat) (ps : List Nat) (h : p > 0 ∧ p ≥ l) : carry [l] (p :: ps) = none := by
  rw [carry.eq_def]; simp [h]

theorem carry_c1 (l p l0 p0 : Nat) (ls' ps' : List Nat) (h : p > 0 ∧ p ≥ l) :
    carry (l :: l0 :: ls') (p :: p0 :: ps') =
      if ls'.isEmpty && p0 + 1 == l0 then none else (carry (l0 :: ls') ((p0 + 1) :: ps')).map (0 :: ·) := by
  rw [carry.eq_def]; simp [h]

def rad (l : Nat) : Nat := if l = 0 then 1 else l

theorem rad_pos (l : Nat) : 0 < rad l := by unfold rad; split <;> omega

/-- clean successor; `none` = overflow -/
def succR : (rls rpos : List Nat) → Option (List Nat)
  | l :: ls, p :: ps => if p + 1 < rad l then some ((p + 1) :: ps) else (succR ls ps).map (0 :: ·)
  | _, _ => none

/-- all digits within their radix, same length -/
def valid : (rls rpos : List Nat) → Prop
  | [], [] => True
  | l :: ls, p :: ps => p < rad l ∧ valid ls ps
  | _, _ => False

theorem valid_cons {l p : Nat} {ls ps : List Nat} : valid (l :: ls) (p :: ps) ↔ p < rad l ∧ valid ls ps := by
  simp [valid]

/-- `carry` leaves a valid vector unchanged -/
theorem carry_valid (rls rpos : List Nat) (h : valid rls rpos) : carry rls rpos = some rpos := by
  induction rls generalizing rpos with
  | nil => cases rpos with
    | nil => exact carry_nil
    | cons _ _ => simp [valid] at h
  | cons l ls ih =>
    cases rpos with
    | nil => simp [valid] at h
    | cons p ps =>
      obtain ⟨hp, hv⟩ := valid_cons.mp h
      have hn : ¬ (p > 0 ∧ p ≥ l) := by
        unfold rad at hp; split at hp <;> omega
      rw [carry_nocarry l p ls ps hn, ih ps hv]; rfl

/-- the loop's carry pass on a bumped valid vector is the successor -/
theorem carry_bump (rls rpos : List Nat) (h : valid rls rpos) :
    carry rls (bump rpos) = (if rls = [] then some [] else succR rls rpos) := by
  induction rls generalizing rpos with
  | nil => cases rpos with
    | nil => simp [bump, carry_nil]
    | cons _ _ => simp [valid] at h
  | cons l ls ih =>
    cases rpos with
    | nil => simp [valid] at h
    | cons p ps =>
      obtain ⟨hp, hv⟩ := valid_cons.mp h
      simp only [bump, succR, List.cons_ne_nil, if_false]
      by_cases hlt : p + 1 < rad l
      · have hn : ¬ (p + 1 > 0 ∧ p + 1 ≥ l) := by
          unfold rad at hlt; split at hlt <;> omega
        rw [carry_nocarry l (p + 1) ls ps hn, carry_valid ls ps hv]; simp [hlt]
      · have hy : p + 1 > 0 ∧ p + 1 ≥ l := by
          unfold rad at hlt hp; split at hlt <;> omega
        simp only [hlt, if_false]
        cases ls with
        | nil =>
          cases ps with
          | nil => rw [carry_c0 l (p + 1) [] hy]; simp [succR]
          | cons _ _ => simp [valid] at hv
        | cons l0 ls' =>
          cases ps with
          | nil => simp [valid] at hv
          | cons p0 ps' =>
            have ihh := ih (p0 :: ps') hv
            simp only [bump, List.cons_ne_nil, if_false] at ihh
            rw [carry_c1 l (p + 1) l0 p0 ls' ps' hy, ihh]
            obtain ⟨hp0, hv'⟩ := valid_cons.mp hv
            by_cases hs : (ls'.isEmpty && p0 + 1 == l0) = true
            · -- the literal special case `i == 1 && pos[0] == len0-1`: redundant with the overflow
              simp only [hs, if_true]
              simp only [Bool.and_eq_true, List.isEmpty_iff, beq_iff_eq] at hs
              obtain ⟨hl, he⟩ := hs
              subst hl
              cases ps' with
              | cons _ _ => simp [valid] at hv'
              | nil =>
                have : ¬ (p0 + 1 < rad l0) := by unfold rad; split <;> omega
                simp [succR, this]
            · simp [hs]

theorem succR_valid (rls rpos rpos' : List Nat) (h : valid rls rpos) (hs : succR rls rpos = some rpos') :
    valid rls rpos' := by
  induction rls generalizing rpos rpos' with
  | nil => cases rpos <;> simp [succR] at hs
  | cons l ls ih =>
    cases rpos with
    | nil => simp [succR] at hs
    | cons p ps =>
      obtain ⟨hp, hv⟩ := valid_cons.mp h
      simp only [succR] at hs
      split at hs
      · cases hs; exact valid_cons.mpr ⟨by assumption, hv⟩
      · cases hq : succR ls ps with
        | none => simp [hq] at hs
        | some q =>
          simp [hq] at hs; subst hs
          exact valid_cons.mpr ⟨rad_pos l, ih ps q hv hq⟩

end IGVerif.Odo
