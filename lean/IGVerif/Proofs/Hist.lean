import IGVerif.Model.Sched
/-! History independence (C13) for an arbitrary conversion function. -/
namespace IGVerif.Sched

theorem applyWrites_agree {Req : Type} (ws : List (Var × (Req → String))) (r : Req) (g₁ g₂ : G) (v : Var)
    (h : g₁ v = g₂ v) : applyWrites ws r g₁ v = applyWrites ws r g₂ v := by
  induction ws generalizing g₁ g₂ with
  | nil => simpa [applyWrites] using h
  | cons w ws ih =>
    simp only [applyWrites]
    apply ih
    by_cases hv : v = w.1 <;> simp [hv, h]

theorem applyWrites_mem {Req : Type} (ws : List (Var × (Req → String))) (r : Req) (g₁ g₂ : G) (v : Var)
    (hv : ws.any (fun w => w.1 = v) = true) : applyWrites ws r g₁ v = applyWrites ws r g₂ v := by
  induction ws generalizing g₁ g₂ with
  | nil => simp at hv
  | cons w ws ih =>
    simp only [applyWrites]
    by_cases hw : v = w.1
    · apply applyWrites_agree; simp [hw]
    · apply ih
      simp only [List.any_cons, Bool.or_eq_true, decide_eq_true_eq] at hv
      rcases hv with hv | hv
      · exact absurd hv.symm hw
      · exact hv

/-- a variable no write names keeps its value -/
theorem applyWrites_untouched {Req : Type} (ws : List (Var × (Req → String))) (r : Req) (g : G) (v : Var)
    (hv : ws.any (fun w => w.1 = v) = false) : applyWrites ws r g v = g v := by
  induction ws generalizing g with
  | nil => simp [applyWrites]
  | cons w ws ih =>
    simp only [applyWrites]
    simp only [List.any_cons, Bool.or_eq_false_iff, decide_eq_false_iff_not] at hv
    rw [ih _ hv.2]
    have : ¬ v = w.1 := fun e => hv.1 e.symm
    simp [this]

/-- Two global states that agree on the never-written variables give the same response. -/
theorem step_out_indep {Req Out : Type} (S : System Req Out) (g₁ g₂ : G) (r : Req)
    (hcov : covered (S.handler r) S.neverWritten = true)
    (hnever : ∀ v ∈ S.neverWritten, g₁ v = g₂ v) :
    (step S g₁ r).2 = (step S g₂ r).2 := by
  simp only [step]
  congr 1
  simp only [view]
  apply List.map_congr_left
  intro v hv
  simp only [covered, List.all_eq_true] at hcov
  have := hcov v hv
  simp only [Bool.or_eq_true] at this
  rcases this with h | h
  · exact applyWrites_mem _ r g₁ g₂ v h
  · exact applyWrites_agree _ r g₁ g₂ v (hnever v (by simpa using h))

/-- never-written variables keep their initial value along every history -/
theorem run_never {Req Out : Type} (S : System Req Out)
    (hnw : ∀ r, ∀ v ∈ S.neverWritten, (S.handler r).writes.any (fun w => w.1 = v) = false)
    (g₀ : G) (h : List Req) (v : Var) (hv : v ∈ S.neverWritten) :
    (run S g₀ h).1 v = g₀ v := by
  induction h generalizing g₀ with
  | nil => simp [run]
  | cons q qs ih =>
    simp only [run]
    rw [ih (step S g₀ q).1]
    simp only [step]
    exact applyWrites_untouched _ q g₀ v (hnw q v hv)

/-- **History independence**: the response to a request does not depend on the requests
    processed before it, whatever the conversion function does with the variables it reads. -/
theorem history_independent {Req Out : Type} (S : System Req Out)
    (hcov : ∀ r, covered (S.handler r) S.neverWritten = true)
    (hnw : ∀ r, ∀ v ∈ S.neverWritten, (S.handler r).writes.any (fun w => w.1 = v) = false)
    (g₀ : G) (h : List Req) (r : Req) :
    (step S (run S g₀ h).1 r).2 = (step S g₀ r).2 := by
  apply step_out_indep S _ _ r (hcov r)
  intro v hv
  exact run_never S hnw g₀ h v hv

end IGVerif.Sched
