import IGVerif.Proofs.ComboNorm
import IGVerif.Proofs.ComboShared
/-! The text of one component as `parseComponent` hands it to the combination parser: what
    stands between the component's parentheses. The outer pair of parentheses of a combination
    may be missing there (`Bdir(a [AND] b)`): the parser then reports an operator outside a
    combination and `parseComponent` tries again with parentheses added. Shared text without an
    outer pair (`Cex(shared (a [AND] b) text)`) is parsed directly. -/
namespace IGVerif.Combo
open IGVerif

/-- `detectCombinations` on shared text around a combination, written directly inside the
    component's parentheses; any fuel -/
theorem detect_shared_stripped (sl sr : Option Str) (o : Op3) (a b : Expr) (ha : Bin a) (hb : Bin b)
    (hsl : ∀ t, sl = some t → SWord t) (hsr : ∀ t, sr = some t → SWord t) (fuel : Nat) :
    ∃ rest, detect '(' ')' fuel (optPre sl ++ renderE (.comb o a b) ++ optPost sr)
      = .ok ([bnd o a b (optPre sl).length] :: rest) (optPre sl ++ renderE (.comb o a b) ++ optPost sr) := by
  obtain ⟨I, hI⟩ : ∃ I, I = optPre sl ++ renderE (.comb o a b) ++ optPost sr := ⟨_, rfl⟩
  rw [← hI]
  have hbin : Bin (.comb o a b) := .comb o a b ha hb
  have hpc : Validate.parCount '(' ')' I 0 = 0 := by
    rw [hI, List.append_assoc, parCount_nopar _ _ _ (plain_optPre sl hsl).noPar, parCount_render _ hbin]
    have := parCount_nopar (optPost sr) [] 0 (plain_optPost sr hsr).noPar
    simpa [Validate.parCount] using this
  obtain ⟨lm', h2, hE⟩ := scan_render _ hbin (optPost sr) (0 + (optPre sl).length) {} (by simp)
  have h3 : scan '(' ')' I 0 {} = .done lm' := by
    rw [hI, List.append_assoc, scan_plain _ _ _ _ (plain_optPre sl hsl), h2]
    have := scan_plain (optPost sr) [] (0 + (optPre sl).length + (renderE (.comb o a b)).length)
      { ({} : St) with lm := lm' } (plain_optPost sr hsr)
    simpa [scan] using this
  have hl0 : lm'[0]? = some [bnd o a b (optPre sl).length] := by
    have := hE.at_
    simp only [List.length_nil, List.getElem?_nil, Option.getD_none, List.nil_append, Nat.zero_add, ents_comb] at this
    exact some_of_getD_append lm' 0 [] _ (by simpa using this)
  obtain ⟨es0, rest, hlm⟩ : ∃ es0 rest, lm' = es0 :: rest := by
    cases lm' with
    | nil => simp at hl0
    | cons x xs => exact ⟨x, xs, rfl⟩
  subst hlm
  simp only [List.getElem?_cons_zero, Option.some.injEq] at hl0
  subst hl0
  refine ⟨rest, ?_⟩
  rw [detect]
  simp only [hpc, h3]
  simp

theorem afterDetect_shared_stripped (sl sr : Option Str) (o : Op3) (a b : Expr) (ha : BinW a) (hb : BinW b)
    (hsl : ∀ t, sl = some t → SWord t) (hsr : ∀ t, sr = some t → SWord t) (nested : Bool) (f : Nat)
    (hf : depth (.comb o a b) ≤ f + 1) (rest : LM) :
    afterDetect '(' ')' (parse false f) nested
        (.ok ([bnd o a b (optPre sl).length] :: rest) (optPre sl ++ renderE (.comb o a b) ++ optPost sr))
      = .res ⟨.comb o.str (optList sl) (optList sr) (treeOf a) (treeOf b),
              optPre sl ++ renderE (.comb o a b) ++ optPost sr, cNoError⟩ := by
  simp only [depth] at hf
  have hbr : (o.br).length = o.str.length + 2 := by simp [Op3.br]
  have hsh : extractShared (optPre sl ++ renderE (.comb o a b) ++ optPost sr) ([bnd o a b (optPre sl).length] :: rest) 0 0
      [bnd o a b (optPre sl).length] (bnd o a b (optPre sl).length) = (optList sl, optList sr) := by
    have hI1 : optPre sl ++ renderE (.comb o a b) ++ optPost sr
        = (optPre sl ++ ['(']) ++ (renderE a ++ ' ' :: o.br ++ ' ' :: renderE b ++ ')' :: optPost sr) := by simp [renderE]
    have hI2 : optPre sl ++ renderE (.comb o a b) ++ optPost sr
        = (optPre sl ++ '(' :: renderE a ++ ' ' :: o.br ++ ' ' :: renderE b) ++ (')' :: optPost sr) := by simp [renderE]
    have htake : (optPre sl ++ renderE (.comb o a b) ++ optPost sr).take ((optPre sl).length + 1) = optPre sl ++ ['('] := by
      rw [hI1, List.take_left' (by simp)]
    have hdrop : (optPre sl ++ renderE (.comb o a b) ++ optPost sr).drop
        ((optPre sl).length + (renderE a).length + (renderE b).length + o.str.length + 5) = ')' :: optPost sr := by
      rw [hI2, List.drop_left' (by simp [hbr]; omega)]
    simp only [extractShared, enclosing, bnd, htake, hdrop, if_true, Nat.zero_add,
      List.getElem?_cons_succ, List.getElem?_nil, cleanShared_pre sl hsl, cleanShared_post sr hsr]
  have := procEntries_comb o a b ha hb f (optPre sl) (optPost sr) nested ([bnd o a b (optPre sl).length] :: rest) 0
    (optList sl) (optList sr)
    (fun o' l' r' h a' b' => parse_render_aux a ha o' l' r' h f a' b' true (by omega))
    (fun o' l' r' h a' b' => parse_render_aux b hb o' l' r' h f a' b' true (by omega)) hsh
  rw [afterDetect]
  simp only [List.isEmpty_cons, Bool.false_eq_true, if_false, firstComplete, List.any_cons, List.any_nil, Bool.or_false,
    bnd, if_true]
  simp only [bnd] at this
  exact this

/-- shared text around a combination, written directly inside the component's parentheses -/
theorem parse_shared_stripped (sl sr : Option Str) (o : Op3) (a b : Expr) (ha : BinW a) (hb : BinW b)
    (hsl : ∀ t, sl = some t → SWord t) (hsr : ∀ t, sr = some t → SWord t) (nested : Bool) (fuel : Nat)
    (hf : depth (.comb o a b) ≤ fuel) :
    parse false fuel (optPre sl ++ renderE (.comb o a b) ++ optPost sr) nested
      = .res ⟨.comb o.str (optList sl) (optList sr) (treeOf a) (treeOf b),
              optPre sl ++ renderE (.comb o a b) ++ optPost sr, cNoError⟩ := by
  cases fuel with
  | zero => simp [depth] at hf
  | succ f =>
    have hT : optPre sl ++ renderE (.comb o a b) ++ optPost sr
        = (optPre sl ++ '(' :: renderE a ++ [' ']) ++ o.br ++ (' ' :: renderE b ++ ')' :: optPost sr) := by
      simp [renderE]
    have hu := parse_unfold o (optPre sl ++ '(' :: renderE a ++ [' ']) (' ' :: renderE b ++ ')' :: optPost sr) f nested
    rw [← hT] at hu
    obtain ⟨rest, hd⟩ := detect_shared_stripped sl sr o a b ha.bin hb.bin hsl hsr
      ((optPre sl ++ renderE (.comb o a b) ++ optPost sr).length + 1)
    rw [hu, hd]
    exact afterDetect_shared_stripped sl sr o a b ha hb hsl hsr nested f hf rest

/-! ### a combination without its outer parentheses -/

theorem scan_op_outside (o : Op3) (rest : Str) (p : Nat) (st : St) (hm : st.modes = []) :
    scan '(' ')' ('[' :: (o.str ++ ']' :: rest)) p st = .err cOutside := by
  have hop : opAt ('[' :: (o.str ++ ']' :: rest)) = some o.str := by
    have := opAt_br o rest
    simpa [Op3.br] using this
  rw [scan]
  simp [hop, hm]

theorem opens_zero_viol_none (x : T) : ∀ i, opens x = 0 → viol x i = none := by
  induction x with
  | leaf t => intro _ _; rfl
  | bin o p l r ihl ihr =>
    intro i h
    cases p with
    | false => simp [opens] at h
    | true =>
      have h' : opens l = 0 ∧ opens r = 0 := by simp [opens] at h; omega
      have hlo : l.isOpen = false := by
        cases l with
        | leaf t => rfl
        | bin o' p' a b => cases p' <;> simp_all [opens, T.isOpen]
      simp [viol, ihl _ h'.1, hlo, ihr _ h'.2]

/-- a parenthesised operand followed, outside all parentheses, by an operator: after the
    rewritings inside the operand the scan reports the operator outside a combination -/
theorem detect_outside (o : Op3) (rest : Str) (hrest : Validate.parCount '(' ')' (' ' :: o.br ++ rest) 0 = 0) :
    ∀ (n : Nat) (c : T), opens c = n → wf c none → ∀ fuel,
      ∃ e, detect '(' ')' (fuel + n) (rT c ++ ' ' :: o.br ++ rest) = .err cOutside e := by
  intro n
  induction n with
  | zero =>
    intro c h0 hw fuel
    have hc := wf_none_closed c hw
    have hpc : Validate.parCount '(' ')' (rT c ++ ' ' :: o.br ++ rest) 0 = 0 := by
      rw [List.append_assoc, parCount_rT c none hw]; exact hrest
    obtain ⟨lm', hs, _⟩ := (((scan_wf c none hw).1 hc) 0 {} (by simp)).1 (opens_zero_viol_none c 0 h0)
    have hsc : scan '(' ')' (rT c ++ ' ' :: o.br ++ rest) 0 {} = .err cOutside := by
      have e : rT c ++ ' ' :: o.br ++ rest = rT c ++ (' ' :: o.br ++ rest) := by simp
      rw [e, hs]
      have e2 : ' ' :: o.br ++ rest = [' '] ++ ('[' :: (o.str ++ ']' :: rest)) := by simp [Op3.br]
      rw [e2, scan_plain [' '] _ _ _ plain_blank, scan_op_outside o rest _ _ rfl]
    refine ⟨rT c ++ ' ' :: o.br ++ rest, ?_⟩
    rw [detect]
    simp only [hpc, hsc]
    simp
  | succ n ih =>
    intro c hn hw fuel
    have hc := wf_none_closed c hw
    have hpc : Validate.parCount '(' ')' (rT c ++ ' ' :: o.br ++ rest) 0 = 0 := by
      rw [List.append_assoc, parCount_rT c none hw]; exact hrest
    cases hv : viol c 0 with
    | none =>
      have := viol_none_opens c none 0 hw hv
      simp [hc] at this
      omega
    | some v =>
      obtain ⟨L, j⟩ := v
      have hsc : scan '(' ')' (rT c ++ ' ' :: o.br ++ rest) 0 {} = .rewrite L j := by
        have e : rT c ++ ' ' :: o.br ++ rest = rT c ++ (' ' :: o.br ++ rest) := by simp
        rw [e]
        exact (((scan_wf c none hw).1 hc) 0 {} (by simp)).2 L j hv _
      obtain ⟨c1, hc1, he⟩ := rewrite_is_step c [] (' ' :: o.br ++ rest) L j (by simpa using hv)
      obtain ⟨hw1, _, ho1, _⟩ := step_preserves c none c1 hw hc1
      obtain ⟨e, hd⟩ := ih c1 (by omega) hw1 fuel
      refine ⟨e, ?_⟩
      have hf : fuel + (n + 1) = (fuel + n) + 1 := by omega
      rw [hf, detect]
      simp only [hpc, hsc]
      simp only [ne_eq, not_true_eq_false, if_false]
      have he' : rewriteExpr '(' ')' (rT c ++ ' ' :: o.br ++ rest) L j = rT c1 ++ ' ' :: o.br ++ rest := by
        have : rT c ++ ' ' :: o.br ++ rest = [] ++ rT c ++ (' ' :: o.br ++ rest) := by simp
        rw [this, he]; simp
      rw [he']; exact hd

/-- the leftmost parenthesised operand of an unparenthesised group, and what follows it -/
def lead : T → T
  | .bin _ false l _ => lead l
  | y => y

def tailText : T → Str
  | .bin o false l r => tailText l ++ ' ' :: o.br ++ ' ' :: rT r
  | _ => []

theorem rT_lead (x : T) : rT x = rT (lead x) ++ tailText x := by
  induction x with
  | leaf t => simp [lead, tailText]
  | bin o p l r ihl _ =>
    cases p with
    | true => simp [lead, tailText]
    | false => simp only [rT, lead, tailText]; rw [ihl]; simp

theorem lead_wf (x : T) : ∀ ctx, wf x ctx → wf (lead x) none := by
  induction x with
  | leaf t => intro _ h; exact h
  | bin o p l r ihl _ =>
    intro ctx h
    cases p with
    | true => exact (by simpa [wf, lead] using h)
    | false =>
      cases ctx with
      | none => simp [wf] at h
      | some o' =>
        have h' : o = o' ∧ wf l (some o) ∧ wf r none := by simpa [wf] using h
        simpa [lead] using ihl _ h'.2.1

/-- what follows the leading operand of a group with operator `o` begins with that operator and
    is balanced -/
theorem tailText_open (x : T) : ∀ o, wf x (some o) → x.isOpen = true →
    ∃ rest, tailText x = ' ' :: o.br ++ rest ∧ Validate.parCount '(' ')' (' ' :: o.br ++ rest) 0 = 0 := by
  induction x with
  | leaf t => intro o _ h; simp [T.isOpen] at h
  | bin o' p l r ihl _ =>
    intro o hw ho
    cases p with
    | true => simp [T.isOpen] at ho
    | false =>
      have h' : o' = o ∧ wf l (some o') ∧ wf r none := by simpa [wf] using hw
      obtain ⟨rfl, hl, hr⟩ := h'
      have hp : NoPar (' ' :: o'.br ++ [' ']) := by
        cases o' <;> simp [NoPar, Op3.br, Op3.str, opAND, opOR, opXOR, str]
      have hr0 : Validate.parCount '(' ')' (rT r) 0 = 0 := by
        have := parCount_rT r none hr [] 0
        simpa [Validate.parCount] using this
      cases hlo : l.isOpen with
      | false =>
        have ht : tailText l = [] := by
          cases l with
          | leaf t => rfl
          | bin o2 p2 a b => cases p2 <;> simp_all [T.isOpen, tailText]
        refine ⟨' ' :: rT r, by simp [tailText, ht], ?_⟩
        have e : ' ' :: o'.br ++ ' ' :: rT r = (' ' :: o'.br ++ [' ']) ++ (rT r ++ []) := by simp
        rw [e, parCount_nopar _ _ _ hp]; simpa using hr0
      | true =>
        obtain ⟨rest, ht, hpc⟩ := ihl o' hl hlo
        refine ⟨rest ++ ' ' :: o'.br ++ ' ' :: rT r, by simp [tailText, ht], ?_⟩
        -- balance of the longer tail: the part found so far is balanced and nothing but a
        -- balanced operand follows
        have key : ∀ (u : Str) (n : Int), Validate.parCount '(' ')' (u ++ (' ' :: o'.br ++ ' ' :: rT r)) n
            = Validate.parCount '(' ')' u n := by
          intro u
          induction u with
          | nil =>
            intro n
            have e : [] ++ (' ' :: o'.br ++ ' ' :: rT r) = (' ' :: o'.br ++ [' ']) ++ (rT r ++ []) := by simp
            rw [e, parCount_nopar _ _ _ hp, parCount_rT r none hr]
          | cons c u ihu => intro n; simp only [List.cons_append, Validate.parCount]; exact ihu _
        have e : ' ' :: o'.br ++ (rest ++ ' ' :: o'.br ++ ' ' :: rT r) = (' ' :: o'.br ++ rest) ++ (' ' :: o'.br ++ ' ' :: rT r) := by simp
        rw [e, key]; exact hpc

/-- **A combination (or chain) written without its outer parentheses**, as in
    `Bdir(a [AND] b [AND] c)`: the parser reports an operator outside a combination; with the
    parentheses `parseComponent` adds on its second attempt the result is the written tree. -/
theorem parseContent_stripped (o : Op3) (l r : T) (hw : wf (.bin o true l r) none) (fuel : Nat)
    (hf : depth (toE (.bin o true l r)) ≤ fuel) :
    parseContent fuel (rT (.bin o false l r))
      = .res ⟨treeOf (toE (.bin o true l r)), renderE (toE (.bin o true l r)), cNoError⟩ := by
  have hlr : wf l (some o) ∧ wf r none := by simpa [wf] using hw
  have hwo : wf (.bin o false l r) (some o) := by simp [wf, hlr.1, hlr.2]
  obtain ⟨rest, ht, hpc⟩ := tailText_open _ o hwo rfl
  have hlw := lead_wf _ _ hwo
  have hx : rT (.bin o false l r) = rT (lead (.bin o false l r)) ++ ' ' :: o.br ++ rest := by
    rw [rT_lead, ht]; simp
  cases fuel with
  | zero => simp [toE, depth] at hf
  | succ f =>
    -- first attempt: operator outside combination
    have h1 : ∃ e, parse false (f+1) (rT (.bin o false l r)) false = .res ⟨.nil, e, cOutside⟩ := by
      have hu := parse_unfold o (rT (lead (.bin o false l r)) ++ [' ']) rest f false
      have e : rT (lead (.bin o false l r)) ++ [' '] ++ o.br ++ rest = rT (.bin o false l r) := by rw [hx]; simp
      rw [e] at hu
      obtain ⟨k, hk⟩ : ∃ k, (rT (.bin o false l r)).length + 1 = k + opens (lead (.bin o false l r)) := by
        refine ⟨(rT (.bin o false l r)).length + 1 - opens (lead (.bin o false l r)), ?_⟩
        have := opens_le_length (lead (.bin o false l r))
        have : (rT (lead (.bin o false l r))).length ≤ (rT (.bin o false l r)).length := by rw [hx]; simp
        omega
      obtain ⟨e', hd⟩ := detect_outside o rest hpc _ _ rfl hlw k
      rw [hu, hk, hx, hd]
      exact ⟨e', by simp [afterDetect]⟩
    obtain ⟨e, h1⟩ := h1
    have h2 : ('(' :: rT (.bin o false l r) ++ [')']) = rT (.bin o true l r) := by simp [rT]
    unfold parseContent
    rw [h1]
    simp only [if_true]
    rw [h2]
    exact parse_chains o l r hw false (f+1) hf

end IGVerif.Combo
