import IGVerif.Model.Combo
import IGVerif.Spec.Grammar
/-! The scan of `detectCombinations` over a rendered, fully parenthesised operator expression:
    what it records on the level of the expression, for every expression, continuation and
    starting state. -/
namespace IGVerif.Combo
open IGVerif

def Plain (w : Str) : Prop := ∀ c ∈ w, c ≠ '(' ∧ c ≠ ')' ∧ c ≠ '['

theorem scan_plain (w cs : Str) (i : Nat) (st : St) (h : Plain w) :
    scan '(' ')' (w ++ cs) i st = scan '(' ')' cs (i + w.length) st := by
  induction w generalizing i st with
  | nil => simp
  | cons c w ih =>
    have hc := h c (by simp)
    have hw : Plain w := fun x hx => h x (by simp [hx])
    obtain ⟨h1, h2, h3⟩ := hc
    have : scan '(' ')' (c :: (w ++ cs)) i st = scan '(' ')' (w ++ cs) (i+1) st := by
      rw [scan]
      simp [h1, h2, h3]
    rw [List.cons_append, this, ih _ _ hw]
    simp only [List.length_cons]
    congr 1
    omega

/-! ### the level map -/

theorem length_modAt (lm : LM) (k : Nat) (f) : (modAt lm k f).length = lm.length := by
  induction lm generalizing k with
  | nil => simp [modAt]
  | cons x xs ih => cases k <;> simp [modAt, ih]

theorem getElem?_modAt_ne (lm : LM) (k j : Nat) (f) (h : j ≠ k) : (modAt lm k f)[j]? = lm[j]? := by
  induction lm generalizing k j with
  | nil => simp [modAt]
  | cons x xs ih =>
    cases k with
    | zero => cases j with
      | zero => exact absurd rfl h
      | succ j => simp [modAt]
    | succ k => cases j with
      | zero => simp [modAt]
      | succ j => simp [modAt]; exact ih _ _ (by omega)

theorem getElem?_modAt_eq (lm : LM) (k : Nat) (f) : (modAt lm k f)[k]? = (lm[k]?).map f := by
  induction lm generalizing k with
  | nil => simp [modAt]
  | cons x xs ih => cases k <;> simp [modAt, ih]

theorem modLast_append_single (f : Bnd → Bnd) (xs : List Bnd) (b : Bnd) : modLast f (xs ++ [b]) = xs ++ [f b] := by
  induction xs with
  | nil => simp [modLast]
  | cons x xs ih =>
    cases xs with
    | nil => simp [modLast]
    | cons y ys => simp only [List.cons_append] at ih ⊢; rw [modLast, ih]

theorem lastAt_of (lm : LM) (k : Nat) (xs : List Bnd) (b : Bnd) (h : lm[k]? = some (xs ++ [b])) :
    lastAt lm k = some b := by
  simp [lastAt, h]


/-- `lm'` extends `lm` on level index `d` by `es` and leaves the lower levels alone -/
structure Ext (d : Nat) (lm lm' : LM) (es : List Bnd) : Prop where
  len : lm.length ≤ lm'.length
  low : ∀ j, j < d → lm'[j]? = lm[j]?
  at_ : lm'[d]?.getD [] = lm[d]?.getD [] ++ es

theorem Ext.refl (d : Nat) (lm : LM) : Ext d lm lm [] := ⟨Nat.le_refl _, fun _ _ => rfl, by simp⟩

theorem ext_openAt (lm : LM) (d : Nat) (e : Bnd) (h : d ≤ lm.length) :
    Ext d lm (openAt lm d e) [e] ∧ d + 1 ≤ (openAt lm d e).length := by
  unfold openAt
  by_cases hd : d < lm.length
  · simp only [hd, if_true]
    refine ⟨⟨by simp [length_modAt], fun j hj => getElem?_modAt_ne _ _ _ _ (by omega), ?_⟩, by simp [length_modAt]; omega⟩
    rw [getElem?_modAt_eq]
    have : lm[d]? = some lm[d] := List.getElem?_eq_getElem hd
    simp [this]
  · have hd' : d = lm.length := by omega
    subst hd'
    simp only [Nat.lt_irrefl, if_false]
    refine ⟨⟨by simp, fun j hj => by simp [List.getElem?_append_left hj], ?_⟩, by simp⟩
    simp

theorem some_of_getD_append (lm : LM) (d : Nat) (xs : List Bnd) (b : Bnd)
    (h : lm[d]?.getD [] = xs ++ [b]) : lm[d]? = some (xs ++ [b]) := by
  cases h' : lm[d]? with
  | none => simp [h'] at h
  | some v => simp [h'] at h; simp [h]

theorem opAt_br (o : Op3) (rest : Str) : opAt (o.br ++ rest) = some o.str := by
  cases o <;> simp [Op3.br, Op3.str, opAt, isPrefix, bAND, bXOR, bOR, sAND, sXOR, sOR, opAND, opOR, opXOR, str]


/-! ### single steps of the scan (parenthesis mode) -/

theorem scan_open (rest : Str) (i : Nat) (st : St) :
    scan '(' ')' ('(' :: rest) i st =
      scan '(' ')' rest (i+1)
        { modes := .left :: st.modes, lm := openAt st.lm st.modes.length { left := i + 1 }, gpar := st.gpar + 1 } := by
  rw [scan]; simp

theorem scan_op (o : Op3) (rest : Str) (p : Nat) (st : St) (ms : List Mode) (X : List Bnd) (b : Bnd)
    (hm : st.modes = .left :: ms) (hl : st.lm[ms.length]? = some (X ++ [b])) (hb : b.left ≠ p) :
    scan '(' ')' ('[' :: (o.str ++ ']' :: rest)) p st =
      scan '(' ')' (o.str ++ ']' :: rest) (p+1)
        { modes := .right :: ms, lm := modAt st.lm ms.length (modLast fun b => { b with op := p, opVal := o.str }),
          gpar := st.gpar } := by
  have hop : opAt ('[' :: (o.str ++ ']' :: rest)) = some o.str := by
    have := opAt_br o rest
    simpa [Op3.br] using this
  rw [scan]
  simp [hop, hm, lastAt_of _ _ _ _ hl, hb]

theorem scan_close (rest : Str) (q : Nat) (st : St) (m : Mode) (ms : List Mode) (X : List Bnd) (b : Bnd)
    (hm : st.modes = m :: ms) (hl : st.lm[ms.length]? = some (X ++ [b])) (hb : b.op + b.opVal.length + 2 ≠ q) :
    scan '(' ')' (')' :: rest) q st =
      scan '(' ')' rest (q+1)
        { modes := ms, lm := modAt st.lm ms.length (modLast fun b => { b with right := q, complete := b.opVal ≠ [] }),
          gpar := st.gpar - 1 } := by
  rw [scan]
  simp [hm, lastAt_of _ _ _ _ hl, hb]


/-! ### the scan over a rendered expression -/

/-- fully parenthesised binary expressions whose values contain no parenthesis or bracket -/
inductive Bin : Expr → Prop
  | leaf (t : Str) : Plain t → Bin (.leaf t)
  | comb (o : Op3) (l r : Expr) : Bin l → Bin r → Bin (.comb o l r)

/-- what the scan records for `e` rendered at position `i`, on the level on which `e` is written -/
def ents : Expr → Nat → List Bnd
  | .comb o l r, i =>
      [{ left := i + 1, right := i + (renderE l).length + (renderE r).length + o.str.length + 5,
         op := i + (renderE l).length + 2, opVal := o.str, complete := true }]
  | _, _ => []

theorem plain_opstr (o : Op3) : Plain (o.str ++ [']', ' ']) := by
  cases o <;> simp [Plain, Op3.str, opAND, opOR, opXOR, str]

theorem render_comb (o : Op3) (l r : Expr) (cs : Str) :
    renderE (.comb o l r) ++ cs =
      '(' :: (renderE l ++ ([' '] ++ ('[' :: (o.str ++ ']' :: ([' '] ++ (renderE r ++ (')' :: cs))))))) := by
  simp [renderE, Op3.br]

theorem length_render_comb (o : Op3) (l r : Expr) :
    (renderE (.comb o l r)).length = (renderE l).length + (renderE r).length + o.str.length + 6 := by
  simp [renderE, Op3.br]; omega

theorem opstr_ne_nil (o : Op3) : o.str ≠ [] := by cases o <;> simp [Op3.str, opAND, opOR, opXOR, str]

theorem scan_render (e : Expr) (hb : Bin e) : ∀ (cs : Str) (i : Nat) (st : St), st.modes.length ≤ st.lm.length →
    ∃ lm', scan '(' ')' (renderE e ++ cs) i st = scan '(' ')' cs (i + (renderE e).length) { st with lm := lm' }
      ∧ Ext st.modes.length st.lm lm' (ents e i) := by
  induction hb with
  | leaf t ht =>
    intro cs i st _
    refine ⟨st.lm, ?_, ?_⟩
    · rw [renderE, scan_plain _ _ _ _ ht]
    · simpa [ents] using Ext.refl _ _
  | comb o l r hl hr ihl ihr =>
    intro cs i st hinv
    -- opening parenthesis
    obtain ⟨hE1, hlen1⟩ := ext_openAt st.lm st.modes.length { left := i + 1 } hinv
    rw [render_comb, scan_open]
    -- left operand
    obtain ⟨lm2, h2, hE2⟩ := ihl ([' '] ++ ('[' :: (o.str ++ ']' :: ([' '] ++ (renderE r ++ (')' :: cs)))))) (i+1)
      { modes := .left :: st.modes, lm := openAt st.lm st.modes.length { left := i + 1 }, gpar := st.gpar + 1 }
      (by simpa using hlen1)
    rw [h2]
    -- blank
    rw [scan_plain [' '] _ _ _ (by intro c hc; simp at hc; subst hc; decide)]
    -- the level entry is still the one just opened
    have hat1 := some_of_getD_append _ _ _ _ hE1.at_
    have hat2 : lm2[st.modes.length]? = some (st.lm[st.modes.length]?.getD [] ++ [{ left := i + 1 }]) := by
      rw [← hat1]; exact hE2.low _ (by simp)
    -- operator
    rw [scan_op o _ _ _ st.modes _ _ rfl hat2 (by simp; omega)]
    -- rest of the operator token and blank
    have hsp : o.str ++ ']' :: ([' '] ++ (renderE r ++ (')' :: cs))) = (o.str ++ [']', ' ']) ++ (renderE r ++ (')' :: cs)) := by simp
    rw [hsp, scan_plain _ _ _ _ (plain_opstr o)]
    -- right operand
    have hat3 := getElem?_modAt_eq lm2 st.modes.length
      (modLast fun b => { b with op := i + 1 + (renderE l).length + [' '].length, opVal := o.str })
    rw [hat2] at hat3
    simp only [Option.map_some, modLast_append_single] at hat3
    obtain ⟨lm4, h4, hE4⟩ := ihr (')' :: cs) (i + 1 + (renderE l).length + [' '].length + 1 + (o.str ++ [']', ' ']).length)
      { modes := .right :: st.modes,
        lm := modAt lm2 st.modes.length (modLast fun b => { b with op := i + 1 + (renderE l).length + [' '].length, opVal := o.str }),
        gpar := st.gpar + 1 }
      (by simp [length_modAt]; have := hE2.len; simp at this; omega)
    rw [h4]
    have hat4 : lm4[st.modes.length]? = _ := (hE4.low _ (by simp)).trans hat3
    -- closing parenthesis
    rw [scan_close _ _ _ .right st.modes _ _ rfl hat4 (by simp; omega)]
    refine ⟨modAt lm4 st.modes.length (modLast fun b => { b with
        right := i + 1 + (renderE l).length + [' '].length + 1 + (o.str ++ [']', ' ']).length + (renderE r).length,
        complete := b.opVal ≠ [] }), ?_, ?_⟩
    · congr 1
      · rw [length_render_comb]; simp; omega
      · simp
    · refine ⟨?_, ?_, ?_⟩
      · simp only [length_modAt]
        have a := hE1.len; have b := hE2.len; have c := hE4.len
        simp [length_modAt] at a b c
        omega
      · intro j hj
        rw [getElem?_modAt_ne _ _ _ _ (by omega)]
        have c := hE4.low j (by simp; omega)
        simp at c
        rw [c, getElem?_modAt_ne _ _ _ _ (by omega)]
        have b := hE2.low j (by simp; omega)
        simp at b
        rw [b]
        exact hE1.low j hj
      · rw [getElem?_modAt_eq, hat4]
        simp [modLast_append_single, ents, opstr_ne_nil]
        omega

end IGVerif.Combo
