import IGVerif.Proofs.Reorder
/-! The statement expanded for one group of a component-pair combination: field by field it is
    the group's value joined (bAND, group first) with what is written outside the braces. -/
namespace IGVerif

/-- content of field `i` -/
def fieldAt (s : PStmt) (i : Nat) : Option PNode := (s.find? (fun p => p.1 = i)).map (·.2)

theorem fieldAt_addField (op : Str) (f : Nat) (n : PNode) (acc : PStmt) (i : Nat) :
    fieldAt (addField op f n acc) i =
      if i = f then some (match fieldAt acc f with | some q => combineN op q n | none => n) else fieldAt acc i := by
  unfold fieldAt
  rw [find_addField]
  by_cases h : i = f
  · simp only [h, if_true, Option.map_some]
    cases acc.find? (fun p => p.1 = f) <;> simp
  · simp [h]

def mergeRaw (g outside : PStmt) : PStmt := outside.foldl (fun acc p => addField opBAND p.1 p.2 acc) g

theorem fieldAt_mergeRaw (outside : PStmt) (hd : outside.Pairwise (fun a b => a.1 ≠ b.1)) (g : PStmt) (i : Nat) :
    fieldAt (mergeRaw g outside) i =
      match fieldAt outside i with
      | some o => some (match fieldAt g i with | some q => combineN opBAND q o | none => o)
      | none => fieldAt g i := by
  unfold mergeRaw
  induction outside generalizing g with
  | nil => simp [fieldAt]
  | cons p rest ih =>
    rw [List.pairwise_cons] at hd
    simp only [List.foldl_cons]
    rw [ih hd.2]
    by_cases h : i = p.1
    · subst h
      have hnone : fieldAt rest p.1 = none := by
        unfold fieldAt
        have : rest.find? (fun q => q.1 = p.1) = none := by
          rw [List.find?_eq_none]
          intro q hq
          have := hd.1 q hq
          simpa using fun e => this e.symm
        simp [this]
      have hhead : fieldAt (p :: rest) p.1 = some p.2 := by simp [fieldAt]
      rw [hnone, hhead, fieldAt_addField]
      simp
    · have hne : ¬ p.1 = i := fun e => h e.symm
      have hcons : fieldAt (p :: rest) i = fieldAt rest i := by simp [fieldAt, hne]
      rw [hcons, fieldAt_addField]
      simp [h]

theorem fieldAt_sortFields (s : PStmt) (i : Nat) (hi : i < 27) : fieldAt (sortFields s) i = fieldAt s i := by
  unfold fieldAt sortFields
  congr 1
  -- the element produced for index `i` is the first (only) one with key `i`
  have key : ∀ (l : List Nat), (∀ j ∈ l, True) →
      (l.filterMap (fun j => s.find? (fun p => p.1 = j))).find? (fun p => p.1 = i) =
        if i ∈ l then s.find? (fun p => p.1 = i) else none := by
    intro l _
    induction l with
    | nil => simp
    | cons j l ih =>
      simp only [List.filterMap_cons]
      cases hj : s.find? (fun p => p.1 = j) with
      | none =>
        rw [ih (by simp)]
        by_cases hij : i = j
        · subst hij; simp [hj]
        · simp [hij]
      | some q =>
        have hq : q.1 = j := by simpa using List.find?_some hj
        simp only [List.find?_cons]
        by_cases hij : i = j
        · subst hij; simp [hq, hj]
        · have : ¬ q.1 = i := by rw [hq]; exact fun e => hij e.symm
          simp [this, hij, ih (by simp)]
  rw [key (List.range 27) (by simp)]
  simp [hi]

/-- **Every expanded statement is complete**: field by field it holds the group's own component,
    the component written outside the braces, or both joined by the implicit conjunction
    (group first) — nothing else -/
theorem fieldAt_mergeStmt (g outside : PStmt) (hd : outside.Pairwise (fun a b => a.1 ≠ b.1)) (i : Nat) (hi : i < 27) :
    fieldAt (mergeStmt g outside) i =
      match fieldAt outside i with
      | some o => some (match fieldAt g i with | some q => combineN opBAND q o | none => o)
      | none => fieldAt g i := by
  have : mergeStmt g outside = sortFields (mergeRaw g outside) := rfl
  rw [this, fieldAt_sortFields _ i hi, fieldAt_mergeRaw outside hd g i]

end IGVerif
