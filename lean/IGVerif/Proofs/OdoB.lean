import IGVerif.Proofs.OdoA
/-! Odometer, part B: the positions the loop visits are all positions, each once, in
    lexicographic order (most significant = first array slowest). -/
namespace IGVerif.Odo

/-- positions visited from `s` on, at most `fuel` of them -/
def emit (rls : List Nat) : Nat → Option (List Nat) → List (List Nat)
  | 0, _ => []
  | _ + 1, none => []
  | f + 1, some p => p :: emit rls f (succR rls p)

theorem emit_none (rls : List Nat) (f : Nat) : emit rls f none = [] := by
  cases f <;> simp [emit]

/-- all positions from `p` to the end -/
def suffixFrom : (rls p : List Nat) → List (List Nat)
  | [], _ => [[]]
  | _ :: _, [] => []
  | l :: ls, d :: hi =>
    (List.range' d (rad l - d)).map (· :: hi) ++
    ((suffixFrom ls hi).tail).flatMap (fun h => (List.range (rad l)).map (· :: h))

/-- all positions, least significant digit fastest -/
def allR : List Nat → List (List Nat)
  | [] => [[]]
  | l :: ls => (allR ls).flatMap (fun h => (List.range (rad l)).map (· :: h))

def zerosOf (rls : List Nat) : List Nat := rls.map (fun _ => 0)

theorem valid_zeros (rls : List Nat) : valid rls (zerosOf rls) := by
  induction rls with
  | nil => simp [zerosOf, valid]
  | cons l ls ih => exact valid_cons.mpr ⟨rad_pos l, ih⟩

theorem valid_nil_left {p : List Nat} (h : valid [] p) : p = [] := by
  cases p with
  | nil => rfl
  | cons _ _ => simp [valid] at h

/-- unfolding of `suffixFrom` along the successor -/
theorem suffixFrom_succ (rls p : List Nat) (h : valid rls p) :
    suffixFrom rls p = p :: (match succR rls p with | none => [] | some p' => suffixFrom rls p') := by
  induction rls generalizing p with
  | nil =>
    have := valid_nil_left h; subst this
    simp [suffixFrom, succR]
  | cons l ls ih =>
    cases p with
    | nil => simp [valid] at h
    | cons d hi =>
      obtain ⟨hd, hv⟩ := valid_cons.mp h
      by_cases hlt : d + 1 < rad l
      · have e1 : rad l - d = (rad l - (d + 1)) + 1 := by omega
        simp only [suffixFrom, succR, hlt, if_true]
        rw [e1, List.range'_succ]
        simp
      · have e1 : rad l - d = 1 := by omega
        simp only [suffixFrom, succR, hlt, if_false, e1]
        have ihh := ih hi hv
        cases hq : succR ls hi with
        | none =>
          rw [hq] at ihh
          simp [ihh, List.range'_one]
        | some hi' =>
          rw [hq] at ihh
          simp only [Option.map_some]
          have hv' : valid ls hi' := succR_valid ls hi hi' hv hq
          have ih2 := ih hi' hv'
          rw [ihh]
          simp only [List.tail_cons, suffixFrom]
          rw [ih2]
          simp [List.range'_one, List.range_eq_range', Nat.sub_zero]

theorem emit_take (rls : List Nat) (f : Nat) (p : List Nat) (h : valid rls p) :
    emit rls f (some p) = (suffixFrom rls p).take f := by
  induction f generalizing p with
  | zero => simp [emit]
  | succ f ih =>
    rw [suffixFrom_succ rls p h]
    simp only [emit, List.take_succ_cons]
    cases hq : succR rls p with
    | none => simp [emit_none]
    | some p' => simp only; exact congrArg _ (ih p' (succR_valid rls p p' h hq))

theorem suffixFrom_zeros (rls : List Nat) : suffixFrom rls (zerosOf rls) = allR rls := by
  induction rls with
  | nil => simp [suffixFrom, allR, zerosOf]
  | cons l ls ih =>
    have hs := suffixFrom_succ ls (zerosOf ls) (valid_zeros ls)
    have e : zerosOf (l :: ls) = 0 :: zerosOf ls := rfl
    rw [e]
    simp only [suffixFrom, allR]
    rw [← ih, hs]
    simp [List.range_eq_range', Nat.sub_zero]

def total (rls : List Nat) : Nat := (rls.map rad).foldr (· * ·) 1

theorem length_allR (rls : List Nat) : (allR rls).length = total rls := by
  induction rls with
  | nil => simp [allR, total]
  | cons l ls ih =>
    simp only [allR, total, List.map_cons, List.foldr_cons]
    rw [List.length_flatMap]
    simp only [List.length_map, List.length_range]
    have : ∀ (xs : List (List Nat)), (xs.map (fun _ => rad l)).sum = rad l * xs.length := by
      intro xs
      induction xs with
      | nil => simp
      | cons x xs ihx => simp [ihx]; rw [Nat.mul_add]; omega
    rw [this, ih]; rfl

/-- with at least `total` fuel the loop's positions are exactly all positions -/
theorem emit_all (rls : List Nat) (f : Nat) (hf : total rls ≤ f) :
    emit rls f (some (zerosOf rls)) = allR rls := by
  rw [emit_take rls f _ (valid_zeros rls), suffixFrom_zeros]
  exact List.take_of_length_le (by rw [length_allR]; exact hf)

end IGVerif.Odo
