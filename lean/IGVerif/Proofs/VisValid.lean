import IGVerif.Proofs.JsonValid
import IGVerif.Model.Vis
/-! The tree the visual model builds is well formed (all strings escaped or plain, separators
    are commas with whitespace), hence its serialisation is valid JSON. -/
namespace IGVerif.Vis
open IGVerif IGVerif.Json IGVerif.JG

theorem body_append {a b : Str} (ha : StrBody a) (hb : StrBody b) : StrBody (a ++ b) := by
  induction ha with
  | nil => simpa using hb
  | plain c rest hc _ ih => exact StrBody.plain c _ hc ih
  | esc c rest hc _ ih => exact StrBody.esc c _ hc ih
  | escU a' b' c d rest h1 h2 h3 h4 _ ih => exact StrBody.escU a' b' c d _ h1 h2 h3 h4 ih

theorem body_joinWith (sep : Str) (hs : StrBody sep) (xs : List Str) (h : ∀ x ∈ xs, StrBody x) :
    StrBody (joinWith sep xs) := by
  induction xs with
  | nil => exact StrBody.nil
  | cons x rest ih =>
    cases rest with
    | nil => simpa [joinWith] using h x (by simp)
    | cons y ys =>
      simp only [joinWith]
      exact body_append (body_append (h x (by simp)) hs) (ih (fun z hz => h z (by simp [hz])))

theorem body_intStr (i : Int) : StrBody (intStr i) := by
  unfold intStr
  cases i with
  | ofNat n =>
    have : (toString (Int.ofNat n)).toList = natStr n := by
      simp [natStr, toString, Int.repr]
    rw [this]; exact body_natStr n
  | negSucc n =>
    have : (toString (Int.negSucc n)).toList = '-' :: natStr (n + 1) := by
      simp [natStr, toString, Int.repr, String.toList_append]
    rw [this]
    exact StrBody.plain '-' _ (by decide) (body_natStr _)

/-! ### names occurring in a parsed tree -/

mutual
def NamesOK : PNode → Prop
  | .leaf _ _ _ m priv => StrBody m.ct ∧ NamesOKL priv
  | .comb op _ _ m priv l r => StrBody op ∧ StrBody m.ct ∧ NamesOKL priv ∧ NamesOK l ∧ NamesOK r
  | .stmt m fs => StrBody m.ct ∧ NamesOKF fs
  | .pairs m ns => StrBody m.ct ∧ NamesOKL ns
  | .empty => True
def NamesOKL : List PNode → Prop
  | [] => True
  | n :: ns => NamesOK n ∧ NamesOKL ns
def NamesOKF : List (Nat × PNode) → Prop
  | [] => True
  | (_, n) :: fs => NamesOK n ∧ NamesOKF fs
end

theorem namesL_mem {ns : List PNode} (h : NamesOKL ns) {x : PNode} (hx : x ∈ ns) : NamesOK x := by
  induction ns with
  | nil => cases hx
  | cons n rest ih =>
    simp only [NamesOKL] at h
    rcases List.mem_cons.mp hx with e | e
    · subst e; exact h.1
    · exact ih h.2 e

theorem namesF_find {fs : List (Nat × PNode)} (h : NamesOKF fs) {p : Nat × PNode → Bool} {x : Nat × PNode}
    (hx : fs.find? p = some x) : NamesOK x.2 := by
  induction fs with
  | nil => simp at hx
  | cons f rest ih =>
    obtain ⟨i, n⟩ := f
    simp only [NamesOKF] at h
    simp only [List.find?_cons] at hx
    split at hx
    · cases hx; exact h.1
    · exact ih h.2 hx

theorem names_meta {n : PNode} (h : NamesOK n) : StrBody n.meta.ct := by
  cases n with
  | leaf t sl sr m p => simp only [NamesOK] at h; exact h.1
  | comb op sl sr m p l r => simp only [NamesOK] at h; exact h.2.1
  | stmt m fs => simp only [NamesOK] at h; exact h.1
  | pairs m ns => simp only [NamesOK] at h; exact h.1
  | empty => exact StrBody.nil

theorem body_opBAND : StrBody opBAND := body_lit _ (by decide)

theorem names_combineN {l r : PNode} (hl : NamesOK l) (hr : NamesOK r) : NamesOK (combineN opBAND l r) := by
  simp only [combineN, NamesOK, NamesOKL]
  refine ⟨body_opBAND, ?_, trivial, hl, hr⟩
  split
  · exact names_meta hl
  · exact names_meta hr

theorem names_foldl (ps : List PNode) (acc : PNode) (ha : NamesOK acc) (hp : NamesOKL ps) :
    NamesOK (ps.foldl (fun a x => combineN opBAND a x) acc) := by
  induction ps generalizing acc with
  | nil => exact ha
  | cons p rest ih =>
    simp only [NamesOKL] at hp
    exact ih _ (names_combineN ha hp.1) hp.2

theorem names_mergePrivate {ps : List PNode} (hp : NamesOKL ps) {m : PNode} (h : mergePrivate ps = some m) :
    NamesOK m := by
  cases ps with
  | nil => simp [mergePrivate] at h
  | cons p rest =>
    simp only [mergePrivate, Option.some.injEq] at h
    subst h
    simp only [NamesOKL] at hp
    exact names_foldl rest p hp.1 hp.2

/-- the separator stored with the last element is a proper one (needed when more is appended) -/
def LastSepGood : JList → Prop
  | .nil => True
  | .cons _ sep .nil => GoodSep sep
  | .cons _ _ rest => LastSepGood rest

/-! ### separators and list assembly -/

theorem goodSep_commaSpace : GoodSep (str ", ") := ⟨str " ", WS_space, rfl⟩
theorem goodSep_commaNl : GoodSep (str ",\n") := ⟨str "\n", WS_nl, rfl⟩

theorem wf_withLastSep (sep : Str) (hs : GoodSep sep) : ∀ (f : JList), WFList f →
    WFList (f.withLastSep sep) ∧ LastSepGood (f.withLastSep sep)
  | .nil, _ => by simp [JList.withLastSep, WFList, LastSepGood]
  | .cons x s .nil, h => by
    simp only [WFList] at h
    simp only [JList.withLastSep, WFList, LastSepGood]
    exact ⟨⟨h.1, Or.inl trivial, trivial⟩, hs⟩
  | .cons x s (.cons y s2 r), h => by
    simp only [WFList] at h
    obtain ⟨hx, hsep, hr⟩ := h
    have ih := wf_withLastSep sep hs (.cons y s2 r) (by simpa [WFList] using hr)
    have hne : (JList.cons y s2 r).withLastSep sep ≠ .nil := by
      cases r <;> simp [JList.withLastSep]
    rcases hsep with hsep | hsep
    · cases hsep
    · simp only [JList.withLastSep]
      refine ⟨?_, ?_⟩
      · simp only [WFList]
        exact ⟨hx, Or.inr hsep, ih.1⟩
      · cases hq : (JList.cons y s2 r).withLastSep sep with
        | nil => exact absurd hq hne
        | cons a b c => simp only [LastSepGood]; rw [← hq]; exact ih.2

theorem wf_append : ∀ (a b : JList), WFList a → LastSepGood a → WFList b → WFList (a.append b)
  | .nil, b, _, _, hb => by simpa [JList.append] using hb
  | .cons x s .nil, b, ha, hl, hb => by
    simp only [WFList] at ha
    simp only [LastSepGood] at hl
    simp only [JList.append, WFList]
    exact ⟨ha.1, Or.inr hl, hb⟩
  | .cons x s (.cons y s2 r), b, ha, hl, hb => by
    simp only [WFList] at ha
    obtain ⟨hx, hsep, hr⟩ := ha
    simp only [LastSepGood] at hl
    have ih := wf_append (.cons y s2 r) b (by simpa [WFList] using hr) hl hb
    rcases hsep with hsep | hsep
    · cases hsep
    · simp only [JList.append, WFList]
      exact ⟨hx, Or.inr hsep, by simpa [JList.append, WFList] using ih⟩

theorem wf_fragments (sep : Str) (hs : GoodSep sep) : ∀ (fs : List JList), (∀ f ∈ fs, WFList f) →
    WFList (jlistOfFragments sep fs)
  | [], _ => by simp [jlistOfFragments, WFList]
  | [f], h => by simpa [jlistOfFragments] using h f (by simp)
  | f :: g :: rest, h => by
    simp only [jlistOfFragments]
    have hw := wf_withLastSep sep hs f (h f (by simp))
    exact wf_append _ _ hw.1 hw.2 (wf_fragments sep hs (g :: rest) (fun x hx => h x (by simp [hx])))

theorem wf_single (x : JNode) (h : WFNode x) : WFList (JList.single x) := by
  simp only [JList.single, WFList]
  exact ⟨h, Or.inl trivial, trivial⟩

/-! ### the tree built by the visual model is well formed -/

theorem body_effComp (c : Ctx) (m : Meta) (hc : StrBody c.comp) (hm : StrBody m.ct) : StrBody (effComp c m) := by
  unfold effComp; split <;> assumption

theorem optBody_optAnn (o : VOpts) (a : Option Str) : optBody (optAnn o a) := by
  unfold optAnn
  split
  · cases a with
    | none => exact trivial
    | some x => exact body_escape x
  · exact trivial

theorem optBody_dov (b : Bool) (v : Option Int) : optBody (if b then v.map intStr else none) := by
  split
  · cases v with
    | none => exact trivial
    | some x => exact body_intStr x
  · exact trivial

theorem body_flatEntries (n : PNode) : ∀ e ∈ flatEntries n, StrBody e := by
  intro e he
  cases n with
  | comb op sl sr m p l r =>
    simp only [flatEntries, List.mem_map] at he
    obtain ⟨v, _, rfl⟩ := he
    split <;> exact body_escape _
  | stmt m fs => simp only [flatEntries, List.mem_singleton] at he; subst he; exact body_escape _
  | leaf t sl sr m p => simp only [flatEntries, List.mem_singleton] at he; subst he; exact body_escape _
  | pairs m ns =>
    simp only [flatEntries, List.mem_singleton] at he; subst he
    exact body_lit _ (by decide)
  | empty =>
    simp only [flatEntries, List.mem_singleton] at he; subst he
    exact body_lit _ (by decide)

theorem names_shared {fs : PStmt} (hfs : NamesOKF fs) (comp : Str) :
    NamesOKL ((propFields comp).filterMap (fun i => (fs.find? (fun p => p.1 = i)).map (·.2))) := by
  generalize propFields comp = is
  induction is with
  | nil => exact trivial
  | cons i rest ih =>
    simp only [List.filterMap_cons]
    cases hq : fs.find? (fun p => decide (p.1 = i)) with
    | none => simpa [hq] using ih
    | some x =>
      simp only [hq, Option.map_some]
      exact ⟨namesF_find hfs hq, ih⟩

theorem namesL_append {a b : List PNode} (ha : NamesOKL a) (hb : NamesOKL b) : NamesOKL (a ++ b) := by
  induction a with
  | nil => simpa using hb
  | cons x xs ih =>
    simp only [NamesOKL] at ha
    exact ⟨ha.1, ih ha.2⟩

theorem wfprops_ite (c : Prop) [Decidable c] (a b : Props) (ha : WFProps a) (hb : WFProps b) :
    WFProps (if c then a else b) := by
  split <;> assumption

def WFAll (o : VOpts) (fuel : Nat) : Prop :=
  (∀ fs level c pOp pComp n, NamesOKF fs → StrBody c.comp → NamesOK n →
      WFList (nodeJ o fuel fs level c pOp pComp n)) ∧
  (∀ fs level pComp pAnn dovOk, NamesOKF fs → StrBody pComp → WFNode (stmtJ o fuel fs level pComp pAnn dovOk)) ∧
  (∀ fs level is, NamesOKF fs → ∀ f ∈ fieldsJ o fuel fs level is, WFList f) ∧
  (∀ fs level comp isLeaf priv, NamesOKF fs → StrBody comp → NamesOKL priv →
      WFProps (propsJ o fuel fs level comp isLeaf priv)) ∧
  (∀ fs level ps, NamesOKF fs → NamesOKL ps → ∀ f ∈ propNodesJ o fuel fs level ps, WFList f)

theorem wf_all (o : VOpts) : ∀ fuel, WFAll o fuel
  | 0 => by
    refine ⟨?_, ?_, ?_, ?_, ?_⟩
    · intros; simp [nodeJ, WFList]
    · intros; simp [stmtJ, WFNode, WFList, optBody]; exact StrBody.nil
    · intro fs level is _ f hf
      cases is <;> simp [fieldsJ] at hf
    · intros; simp [propsJ, WFProps]
    · intro fs level ps _ _ f hf
      cases ps <;> simp [propNodesJ] at hf
  | fuel + 1 => by
    obtain ⟨ih1, ih2, ih3, ih4, ih5⟩ := wf_all o fuel
    refine ⟨?_, ?_, ?_, ?_, ?_⟩
    · -- nodeJ
      intro fs level c pOp pComp n hfs hc hn
      cases n with
      | empty => simp [nodeJ, WFList]
      | leaf t sl sr m priv =>
        simp only [NamesOK] at hn
        simp only [nodeJ]
        apply wf_single
        simp only [WFNode]
        exact ⟨body_escape _, body_effComp c m hc hn.1, ih4 fs level _ true priv hfs (body_effComp c m hc hn.1) hn.2,
          optBody_optAnn o _, optBody_dov _ _⟩
      | comb op sl sr m priv l r =>
        simp only [NamesOK] at hn
        obtain ⟨hop, hct, hpriv, hl, hr⟩ := hn
        have hcomp := body_effComp c m hc hct
        have hc' : StrBody (childCtx c op sl sr m).comp := by simpa [childCtx] using hcomp
        have wl := ih1 fs level (childCtx c op sl sr m) (some op) (effComp c m) l hfs hc' hl
        have wr := ih1 fs level (childCtx c op sl sr m) (some op) (effComp c m) r hfs hc' hr
        simp only [nodeJ]
        split
        · exact wf_fragments _ goodSep_commaSpace _ (by
            intro f hf
            simp only [List.mem_cons, List.mem_singleton, List.not_mem_nil, or_false] at hf
            rcases hf with hf | hf <;> subst hf <;> assumption)
        · apply wf_single
          simp only [WFNode]
          refine ⟨hop, hcomp, ?_, ih4 fs level _ false priv hfs hcomp hpriv, optBody_optAnn o _, optBody_dov _ _⟩
          exact wf_fragments _ goodSep_commaNl _ (by
            intro f hf
            simp only [List.mem_cons, List.mem_singleton, List.not_mem_nil, or_false] at hf
            rcases hf with hf | hf <;> subst hf <;> assumption)
      | stmt m inner =>
        simp only [NamesOK] at hn
        simp only [nodeJ]
        exact wf_single _ (ih2 inner _ _ _ _ hn.2 (body_effComp c m hc hn.1))
      | pairs m ns =>
        simp only [NamesOK] at hn
        cases ns with
        | nil => simp [nodeJ, WFList]
        | cons x rest =>
          cases x with
          | stmt m2 inner =>
            simp only [NamesOKL, NamesOK] at hn
            simp only [nodeJ]
            exact wf_single _ (ih2 inner _ _ _ _ hn.2.1.2 (body_effComp c m hc hn.1))
          | leaf _ _ _ _ _ => simp [nodeJ, WFList]
          | comb _ _ _ _ _ _ _ => simp [nodeJ, WFList]
          | pairs _ _ => simp [nodeJ, WFList]
          | empty => simp [nodeJ, WFList]
    · -- stmtJ
      intro fs level pComp pAnn dovOk hfs hp
      simp only [stmtJ, WFNode]
      refine ⟨?_, optBody_optAnn o _, ?_, ?_⟩
      · split
        · exact hp
        · split
          · exact body_append (body_lit _ (by decide)) (body_intStr _)
          · exact StrBody.nil
      · split
        · exact body_intStr _
        · exact trivial
      · exact wf_fragments _ goodSep_commaNl _ (ih3 fs level _ hfs)
    · -- fieldsJ
      intro fs level is hfs f hf
      cases is with
      | nil => simp [fieldsJ] at hf
      | cons i rest =>
        simp only [fieldsJ, List.mem_append] at hf
        rcases hf with hf | hf
        · cases hq : fs.find? (fun p => decide (p.1 = i)) with
          | none => simp [hq] at hf
          | some x =>
            simp only [hq] at hf
            have hw := ih1 fs level {} none [] x.2 hfs StrBody.nil (namesF_find hfs hq)
            split at hf
            · simp at hf
            · simp only [List.mem_singleton] at hf; subst hf; exact hw
        · exact ih3 fs level rest hfs f hf
    · -- propsJ
      intro fs level comp isLeaf priv hfs hcomp hpriv
      simp only [propsJ]
      have hall : NamesOKL ((propFields comp).filterMap (fun i => (fs.find? (fun p => p.1 = i)).map (·.2)) ++
          (match mergePrivate priv with | some m => [m] | none => [])) := by
        apply namesL_append (names_shared hfs comp)
        cases hm : mergePrivate priv with
        | none => exact trivial
        | some m => exact ⟨names_mergePrivate hpriv hm, trivial⟩
      apply wfprops_ite
      · exact (by simp [WFProps] : WFProps Props.none)
      apply wfprops_ite
      · exact (by simp [WFProps] : WFProps Props.none)
      apply wfprops_ite
      · simp only [WFProps]
        apply body_joinWith _ (body_lit _ (by decide))
        intro e he
        simp only [List.mem_flatMap] at he
        obtain ⟨n, _, hen⟩ := he
        exact body_flatEntries n e hen
      · simp only [WFProps]
        exact wf_fragments _ goodSep_commaSpace _ (ih5 fs level _ hfs hall)
    · -- propNodesJ
      intro fs level ps hfs hps f hf
      cases ps with
      | nil => simp [propNodesJ] at hf
      | cons p rest =>
        simp only [NamesOKL] at hps
        simp only [propNodesJ, List.mem_cons] at hf
        rcases hf with hf | hf
        · subst hf; exact ih1 fs level {} none [] p hfs StrBody.nil hps.1
        · exact ih5 fs level rest hfs hps.2 f hf

end IGVerif.Vis
