import IGVerif.Proofs.Hist
/-! Serialisation (C14): with the conversion lock, every interleaving of requests at the
    handler's yield points gives each request the response it gets when processed alone. -/
namespace IGVerif.Sched

theorem getElem?_setAt_eq {α : Type} (l : List α) (i : Nat) (v : α) (h : i < l.length) :
    (setAt l i v)[i]? = some v := by
  induction l generalizing i with
  | nil => simp at h
  | cons x xs ih =>
    cases i with
    | zero => simp [setAt]
    | succ n => simp only [setAt, List.getElem?_cons_succ]; exact ih n (by simpa using h)

theorem getElem?_setAt_ne {α : Type} (l : List α) (i j : Nat) (v : α) (h : i ≠ j) :
    (setAt l i v)[j]? = l[j]? := by
  induction l generalizing i j with
  | nil => simp [setAt]
  | cons x xs ih =>
    cases i with
    | zero =>
      cases j with
      | zero => exact absurd rfl h
      | succ m => simp [setAt]
    | succ n =>
      cases j with
      | zero => simp [setAt]
      | succ m => simp only [setAt, List.getElem?_cons_succ]; exact ih n m (by omega)

theorem length_setAt {α : Type} (l : List α) (i : Nat) (v : α) : (setAt l i v).length = l.length := by
  induction l generalizing i with
  | nil => simp [setAt]
  | cons x xs ih => cases i <;> simp [setAt, ih]

/-- invariant of every configuration reachable under the lock -/
structure SInv {Req Out : Type} (S : System Req Out) (rs : List Req) (g₀ : G) (c : Conf Out) : Prop where
  lenP : c.pcs.length = rs.length
  lenO : c.outs.length = rs.length
  excl : ∀ (j : Nat) (pc : PC), c.pcs[j]? = some pc → (pc = PC.locked ∨ pc = PC.optsSet) → c.holder = some j
  never : ∀ v ∈ S.neverWritten, c.g v = g₀ v
  opts : ∀ (j : Nat) (r : Req), rs[j]? = some r → c.pcs[j]? = some PC.optsSet →
      ∀ v ∈ (S.handler r).reads, c.g v = applyWrites (S.handler r).writes r g₀ v
  outs : ∀ (j : Nat) (r : Req) (o : Out), rs[j]? = some r → c.outs[j]? = some (some o) → o = alone S g₀ r

theorem inv_init {Req Out : Type} (S : System Req Out) (rs : List Req) (g₀ : G) :
    SInv S rs g₀ (init g₀ rs.length) := by
  refine ⟨by simp [init], by simp [init], ?_, ?_, ?_, ?_⟩
  · intro j pc h hp
    simp only [init, List.getElem?_replicate] at h
    split at h
    · cases h; rcases hp with hp | hp <;> cases hp
    · cases h
  · intro v _; rfl
  · intro j r _ h
    simp only [init, List.getElem?_replicate] at h
    split at h <;> cases h
  · intro j r o _ h
    simp only [init, List.getElem?_replicate] at h
    split at h <;> cases h

theorem covered_read {Req : Type} (h : Handler Req) (never : List Var) (hc : covered h never = true) (v : Var)
    (hv : v ∈ h.reads) : h.writes.any (fun w => w.1 = v) = true ∨ v ∈ never := by
  simp only [covered, List.all_eq_true] at hc
  have := hc v hv
  simp only [Bool.or_eq_true] at this
  rcases this with h1 | h1
  · exact Or.inl h1
  · exact Or.inr (by simpa using h1)

theorem inv_advance {Req Out : Type} (S : System Req Out) (rs : List Req) (g₀ : G)
    (hcov : ∀ r, covered (S.handler r) S.neverWritten = true)
    (hnw : ∀ r, ∀ v ∈ S.neverWritten, (S.handler r).writes.any (fun w => w.1 = v) = false)
    (c c' : Conf Out) (i : Nat) (hI : SInv S rs g₀ c) (hstep : advance S true rs c i = some c') :
    SInv S rs g₀ c' := by
  unfold advance at hstep
  split at hstep
  · rename_i r pc hr hpc
    have hi : i < c.pcs.length := by
      rcases Nat.lt_or_ge i c.pcs.length with h | h
      · exact h
      · rw [List.getElem?_eq_none_iff.mpr h] at hpc; cases hpc
    cases pc with
    | start =>
      simp only [if_true] at hstep
      -- the lock is free or already ours
      have key : c' = { c with pcs := setAt c.pcs i .locked, holder := some i } := by
        split at hstep
        · rename_i j hj
          split at hstep
          · rename_i hji; cases hstep; subst hji; simp [hj]
          · cases hstep
        · cases hstep; rfl
      have hfree : ∀ j, j ≠ i → ∀ pc, c.pcs[j]? = some pc → ¬ (pc = .locked ∨ pc = .optsSet) := by
        intro j hj pc hpcj hp
        have := hI.excl j pc hpcj hp
        split at hstep
        · rename_i k hk
          split at hstep
          · rename_i hki; rw [hk] at this; cases this; first | exact hj hki | exact hj hki.symm
          · cases hstep
        · rename_i hn; rw [hn] at this; cases this
      subst key
      refine ⟨by simp [length_setAt, hI.lenP], hI.lenO, ?_, hI.never, ?_, hI.outs⟩
      · intro j pc h hp
        by_cases hj : j = i
        · subst hj; rfl
        · rw [getElem?_setAt_ne _ _ _ _ (Ne.symm hj)] at h
          exact absurd hp (hfree j hj pc h)
      · intro j r' hr' h
        by_cases hj : j = i
        · subst hj; rw [getElem?_setAt_eq _ _ _ hi] at h; cases h
        · rw [getElem?_setAt_ne _ _ _ _ (Ne.symm hj)] at h
          exact hI.opts j r' hr' h
    | locked =>
      cases hstep
      have hhold : c.holder = some i := hI.excl i .locked hpc (Or.inl rfl)
      refine ⟨by simp [length_setAt, hI.lenP], hI.lenO, ?_, ?_, ?_, hI.outs⟩
      · intro j pc h hp
        by_cases hj : j = i
        · subst hj; exact hhold
        · rw [getElem?_setAt_ne _ _ _ _ (Ne.symm hj)] at h
          exact hI.excl j pc h hp
      · intro v hv
        show applyWrites (S.handler r).writes r c.g v = g₀ v
        rw [applyWrites_untouched _ r c.g v (hnw r v hv)]
        exact hI.never v hv
      · intro j r' hr' h v hv
        by_cases hj : j = i
        · subst hj
          rw [hr] at hr'; cases hr'
          show applyWrites (S.handler r).writes r c.g v = applyWrites (S.handler r).writes r g₀ v
          rcases covered_read _ _ (hcov r) v hv with hw | hn
          · exact applyWrites_mem _ r c.g g₀ v hw
          · exact applyWrites_agree _ r c.g g₀ v (hI.never v hn)
        · rw [getElem?_setAt_ne _ _ _ _ (Ne.symm hj)] at h
          have := hI.excl j .optsSet h (Or.inr rfl)
          rw [hhold] at this; cases this; exact absurd rfl hj
    | optsSet =>
      cases hstep
      have hhold : c.holder = some i := hI.excl i .optsSet hpc (Or.inr rfl)
      have hio : i < c.outs.length := by rw [hI.lenO, ← hI.lenP]; exact hi
      refine ⟨by simp [length_setAt, hI.lenP], by simp [length_setAt, hI.lenO], ?_, hI.never, ?_, ?_⟩
      · intro j pc h hp
        by_cases hj : j = i
        · subst hj; rw [getElem?_setAt_eq _ _ _ hi] at h; cases h; rcases hp with hp | hp <;> cases hp
        · rw [getElem?_setAt_ne _ _ _ _ (Ne.symm hj)] at h
          have := hI.excl j pc h hp
          rw [hhold] at this; cases this; exact absurd rfl hj
      · intro j r' hr' h
        by_cases hj : j = i
        · subst hj; rw [getElem?_setAt_eq _ _ _ hi] at h; cases h
        · rw [getElem?_setAt_ne _ _ _ _ (Ne.symm hj)] at h
          exact hI.opts j r' hr' h
      · intro j r' o hr' h
        by_cases hj : j = i
        · subst hj
          rw [getElem?_setAt_eq _ _ _ hio] at h
          cases h
          rw [hr] at hr'; cases hr'
          show S.conv r (view (S.handler r).reads c.g) = alone S g₀ r
          simp only [alone, step, view]
          congr 1
          apply List.map_congr_left
          intro v hv
          exact hI.opts j r hr hpc v hv
        · rw [getElem?_setAt_ne _ _ _ _ (Ne.symm hj)] at h
          exact hI.outs j r' o hr' h
    | done => cases hstep
  · cases hstep

theorem inv_exec {Req Out : Type} (S : System Req Out) (rs : List Req) (g₀ : G)
    (hcov : ∀ r, covered (S.handler r) S.neverWritten = true)
    (hnw : ∀ r, ∀ v ∈ S.neverWritten, (S.handler r).writes.any (fun w => w.1 = v) = false)
    (σ : List Nat) (c c' : Conf Out) (hI : SInv S rs g₀ c) (h : exec S true rs c σ = some c') :
    SInv S rs g₀ c' := by
  induction σ generalizing c with
  | nil => simp only [exec] at h; cases h; exact hI
  | cons i σ ih =>
    simp only [exec] at h
    split at h
    · rename_i c₁ h₁
      exact ih c₁ (inv_advance S rs g₀ hcov hnw c c₁ i hI h₁) h
    · cases h

/-- **Serialisation**: under the lock, whatever valid schedule `σ` the requests follow, every
    response that has been produced equals the response of that request processed alone. -/
theorem serialised {Req Out : Type} (S : System Req Out) (rs : List Req) (g₀ : G)
    (hcov : ∀ r, covered (S.handler r) S.neverWritten = true)
    (hnw : ∀ r, ∀ v ∈ S.neverWritten, (S.handler r).writes.any (fun w => w.1 = v) = false)
    (σ : List Nat) (c : Conf Out) (h : exec S true rs (init g₀ rs.length) σ = some c)
    (i : Nat) (r : Req) (o : Out) (hr : rs[i]? = some r) (ho : c.outs[i]? = some (some o)) :
    o = alone S g₀ r :=
  (inv_exec S rs g₀ hcov hnw σ _ c (inv_init S rs g₀) h).outs i r o hr ho

end IGVerif.Sched
