import IGVerif.Proofs.ComboShared
/-! Several combinations in one component: `(l (a₁ [o₁] b₁) m (a₂ [o₂] b₂) r)` — both
    combinations stand on the same level; the parser builds one node for each, gives the first
    `l` / `m` and the second `m` / `r` as shared text, and joins them by wAND in source order. -/
namespace IGVerif.Combo
open IGVerif

theorem cleanShared_mid (m : Option Str) (h : ∀ t, m = some t → SWord t) :
    cleanShared (')' :: ' ' :: (optPre m ++ ['('])) = optList m := by
  cases m with
  | none => simp [optPre, optList, cleanShared, trimBoth, trimL, isIgnoredShared, trimWs, isWs]
  | some t =>
    obtain ⟨c, u, d, v, ht, hr, hwc, hic, hwd, hid⟩ := (h t rfl).split
    have e1 : trimBoth isIgnoredShared (')' :: ' ' :: (optPre (some t) ++ ['('])) = ' ' :: t ++ [' '] := by
      have := trimBoth_core isIgnoredShared [')'] (' ' :: t ++ [' ']) ['('] (by simp [isIgnoredShared]) (by simp [isIgnoredShared])
        ' ' (t ++ [' ']) rfl (by decide) ' ' (t.reverse ++ [' ']) (by simp) (by decide)
      simpa [optPre] using this
    have e2 : trimWs (' ' :: t ++ [' ']) = t := by
      have := trimBoth_core isWs [' '] t [' '] (by simp [isWs]) (by simp [isWs]) c u ht hwc d v hr hwd
      simpa [trimWs] using this
    unfold cleanShared
    rw [e1, e2]
    simp [(h t rfl).ne, optList]

/-- text of `(l (a₁ [o₁] b₁) m (a₂ [o₂] b₂) r)` -/
def multiText (l : Option Str) (o₁ : Op3) (a₁ b₁ : Expr) (m : Option Str) (o₂ : Op3) (a₂ b₂ : Expr) (r : Option Str) : Str :=
  '(' :: (optPre l ++ (renderE (.comb o₁ a₁ b₁) ++ ((' ' :: optPre m) ++ (renderE (.comb o₂ a₂ b₂) ++ (optPost r ++ [')'])))))

theorem render_multi2 (l m r : Option Str) (o₁ o₂ : Op3) (a₁ b₁ a₂ b₂ : Expr) :
    renderE (.multi2 l (.comb o₁ a₁ b₁) m (.comb o₂ a₂ b₂) r) = multiText l o₁ a₁ b₁ m o₂ a₂ b₂ r := by
  simp [multiText, renderE]

theorem scan_multi (l m r : Option Str) (o₁ o₂ : Op3) (a₁ b₁ a₂ b₂ : Expr)
    (h1 : Bin (.comb o₁ a₁ b₁)) (h2 : Bin (.comb o₂ a₂ b₂))
    (hl : ∀ t, l = some t → SWord t) (hm : ∀ t, m = some t → SWord t) (hr : ∀ t, r = some t → SWord t) :
    ∃ lm', scan '(' ')' (multiText l o₁ a₁ b₁ m o₂ a₂ b₂ r) 0 {} = .done lm'
      ∧ lm'[0]? = some [outerBnd (1 + (optPre l).length + (renderE (.comb o₁ a₁ b₁)).length + (1 + (optPre m).length)
          + (renderE (.comb o₂ a₂ b₂)).length + (optPost r).length)]
      ∧ lm'[1]? = some [bnd o₁ a₁ b₁ (1 + (optPre l).length),
          bnd o₂ a₂ b₂ (1 + (optPre l).length + (renderE (.comb o₁ a₁ b₁)).length + (1 + (optPre m).length))] := by
  unfold multiText
  rw [scan_open, scan_plain _ _ _ _ (plain_optPre l hl)]
  have hlm1 : openAt ([] : LM) 0 { left := 0 + 1 } = [[{ left := 1 }]] := by simp [openAt]
  simp only [List.length_nil, hlm1]
  obtain ⟨lm2, hs2, hE2⟩ := scan_render _ h1 ((' ' :: optPre m) ++ (renderE (.comb o₂ a₂ b₂) ++ (optPost r ++ [')'])))
    (0 + 1 + (optPre l).length) { modes := [.left], lm := [[{ left := 1 }]], gpar := (0 : Int) + 1 } (by simp)
  have hpm : Plain (' ' :: optPre m) := by
    have : ' ' :: optPre m = [' '] ++ optPre m := rfl
    rw [this]; exact plain_append (by intro c hc; simp at hc; subst hc; decide) (plain_optPre m hm)
  rw [hs2, scan_plain _ _ _ _ hpm]
  have hlen2 : 1 ≤ lm2.length := by have := hE2.len; simpa using this
  obtain ⟨lm3, hs3, hE3⟩ := scan_render _ h2 (optPost r ++ [')'])
    (0 + 1 + (optPre l).length + (renderE (.comb o₁ a₁ b₁)).length + (' ' :: optPre m).length)
    { modes := [.left], lm := lm2, gpar := (0 : Int) + 1 } (by simpa using hlen2)
  dsimp only at hs3 hE3 ⊢
  rw [hs3, scan_plain _ _ _ _ (plain_optPost r hr)]
  have hat0 : lm3[0]? = some ([] ++ [({ left := 1 } : Bnd)]) := by
    have a := hE3.low 0 (by simp)
    have b := hE2.low 0 (by simp)
    simp at a b
    simp [a, b]
  have hat1 : lm3[1]? = some [bnd o₁ a₁ b₁ (1 + (optPre l).length),
      bnd o₂ a₂ b₂ (1 + (optPre l).length + (renderE (.comb o₁ a₁ b₁)).length + (1 + (optPre m).length))] := by
    have a := hE2.at_
    simp only [List.length_cons, List.length_nil] at a
    have h1' : ([[({ left := 1 } : Bnd)]] : LM)[0 + 1]? = none := by simp
    rw [h1'] at a
    simp only [Option.getD_none, List.nil_append, ents_comb] at a
    have b := hE3.at_
    have hml : [Mode.left].length = 0 + 1 := rfl
    rw [hml, a, ents_comb] at b
    have e1 : 0 + 1 + (optPre l).length = 1 + (optPre l).length := by omega
    have e2 : 0 + 1 + (optPre l).length + (renderE (.comb o₁ a₁ b₁)).length + (' ' :: optPre m).length
        = 1 + (optPre l).length + (renderE (.comb o₁ a₁ b₁)).length + (1 + (optPre m).length) := by
      simp only [List.length_cons]; omega
    rw [e1, e2] at b
    have := some_of_getD_append lm3 1 [bnd o₁ a₁ b₁ (1 + (optPre l).length)] _ b
    simpa using this
  have hc1 := length_render_comb o₁ a₁ b₁
  rw [scan_close _ _ _ .left [] [] _ rfl hat0 (by simp; omega)]
  refine ⟨_, by rw [scan], ?_, ?_⟩
  · dsimp only [List.length_nil]
    rw [getElem?_modAt_eq, hat0]
    simp [modLast, outerBnd]
    omega
  · dsimp only [List.length_nil]
    rw [getElem?_modAt_ne _ _ _ _ (by simp), hat1]

theorem parCount_multi (l m r : Option Str) (o₁ o₂ : Op3) (a₁ b₁ a₂ b₂ : Expr)
    (h1 : Bin (.comb o₁ a₁ b₁)) (h2 : Bin (.comb o₂ a₂ b₂))
    (hl : ∀ t, l = some t → SWord t) (hm : ∀ t, m = some t → SWord t) (hr : ∀ t, r = some t → SWord t) :
    Validate.parCount '(' ')' (multiText l o₁ a₁ b₁ m o₂ a₂ b₂ r) 0 = 0 := by
  have hpm : NoPar (' ' :: optPre m) := by
    have : ' ' :: optPre m = [' '] ++ optPre m := rfl
    rw [this]
    exact (plain_append (by intro c hc; simp at hc; subst hc; decide) (plain_optPre m hm)).noPar
  unfold multiText
  rw [Validate.parCount]
  simp only [if_true]
  rw [parCount_nopar _ _ _ (plain_optPre l hl).noPar, parCount_render _ h1, parCount_nopar _ _ _ hpm,
    parCount_render _ h2, parCount_nopar _ _ _ (plain_optPost r hr).noPar]
  simp [Validate.parCount]

/-- `detectCombinations` on two combinations in one component, any fuel -/
theorem detect_multi (l m r : Option Str) (o₁ o₂ : Op3) (a₁ b₁ a₂ b₂ : Expr)
    (h1 : Bin (.comb o₁ a₁ b₁)) (h2 : Bin (.comb o₂ a₂ b₂))
    (hl : ∀ t, l = some t → SWord t) (hm : ∀ t, m = some t → SWord t) (hr : ∀ t, r = some t → SWord t) (fuel : Nat) :
    ∃ rest, detect '(' ')' fuel (multiText l o₁ a₁ b₁ m o₂ a₂ b₂ r)
      = .ok ([outerBnd (1 + (optPre l).length + (renderE (.comb o₁ a₁ b₁)).length + (1 + (optPre m).length)
                + (renderE (.comb o₂ a₂ b₂)).length + (optPost r).length)]
             :: [bnd o₁ a₁ b₁ (1 + (optPre l).length),
                 bnd o₂ a₂ b₂ (1 + (optPre l).length + (renderE (.comb o₁ a₁ b₁)).length + (1 + (optPre m).length))] :: rest)
          (multiText l o₁ a₁ b₁ m o₂ a₂ b₂ r) := by
  obtain ⟨lm', hsc, h0, h1'⟩ := scan_multi l m r o₁ o₂ a₁ b₁ a₂ b₂ h1 h2 hl hm hr
  have hpc := parCount_multi l m r o₁ o₂ a₁ b₁ a₂ b₂ h1 h2 hl hm hr
  obtain ⟨x0, x1, rest, hlm⟩ : ∃ x0 x1 rest, lm' = x0 :: x1 :: rest := by
    cases lm' with
    | nil => simp at h0
    | cons x0 t =>
      cases t with
      | nil => simp at h1'
      | cons x1 rest => exact ⟨x0, x1, rest, rfl⟩
  subst hlm
  simp only [List.getElem?_cons_zero, List.getElem?_cons_succ, Option.some.injEq] at h0 h1'
  subst h0 h1'
  refine ⟨rest, ?_⟩
  rw [detect]
  simp only [hpc, hsc]
  simp

theorem afterDetect_multi (l m r : Option Str) (o₁ o₂ : Op3) (a₁ b₁ a₂ b₂ : Expr)
    (ha₁ : BinW a₁) (hb₁ : BinW b₁) (ha₂ : BinW a₂) (hb₂ : BinW b₂)
    (hl : ∀ t, l = some t → SWord t) (hm : ∀ t, m = some t → SWord t) (hr : ∀ t, r = some t → SWord t)
    (nested : Bool) (f : Nat) (hf₁ : depth (.comb o₁ a₁ b₁) ≤ f + 1) (hf₂ : depth (.comb o₂ a₂ b₂) ≤ f + 1) (rest : LM) :
    afterDetect '(' ')' (parse false f) nested
      (.ok ([outerBnd (1 + (optPre l).length + (renderE (.comb o₁ a₁ b₁)).length + (1 + (optPre m).length)
                + (renderE (.comb o₂ a₂ b₂)).length + (optPost r).length)]
             :: [bnd o₁ a₁ b₁ (1 + (optPre l).length),
                 bnd o₂ a₂ b₂ (1 + (optPre l).length + (renderE (.comb o₁ a₁ b₁)).length + (1 + (optPre m).length))] :: rest)
          (multiText l o₁ a₁ b₁ m o₂ a₂ b₂ r))
      = .res ⟨.comb sWAND [] [] (.comb o₁.str (optList l) (optList m) (treeOf a₁) (treeOf b₁))
                (.comb o₂.str (optList m) (optList r) (treeOf a₂) (treeOf b₂)),
              multiText l o₁ a₁ b₁ m o₂ a₂ b₂ r, cNoError⟩ := by
    simp only [depth] at hf₁ hf₂
    obtain ⟨I, hI⟩ : ∃ I, I = multiText l o₁ a₁ b₁ m o₂ a₂ b₂ r := ⟨_, rfl⟩
    rw [← hI]
    -- names for the positions
    have hc1 := length_render_comb o₁ a₁ b₁
    have hc2 := length_render_comb o₂ a₂ b₂
    have hbr1 : (o₁.br).length = o₁.str.length + 2 := by simp [Op3.br]
    have hbr2 : (o₂.br).length = o₂.str.length + 2 := by simp [Op3.br]
    obtain ⟨n1, hn1⟩ : ∃ n1, n1 = 1 + (optPre l).length := ⟨_, rfl⟩
    obtain ⟨n2, hn2⟩ : ∃ n2, n2 = 1 + (optPre l).length + (renderE (.comb o₁ a₁ b₁)).length + (1 + (optPre m).length) := ⟨_, rfl⟩
    obtain ⟨q, hq⟩ : ∃ q, q = 1 + (optPre l).length + (renderE (.comb o₁ a₁ b₁)).length + (1 + (optPre m).length)
          + (renderE (.comb o₂ a₂ b₂)).length + (optPost r).length := ⟨_, rfl⟩
    rw [← hq, ← hn2, ← hn1]
    obtain ⟨pre1, hpre1⟩ : ∃ p, p = '(' :: optPre l := ⟨_, rfl⟩
    obtain ⟨post1, hpost1⟩ : ∃ p, p = (' ' :: optPre m) ++ renderE (.comb o₂ a₂ b₂) ++ (optPost r ++ [')']) := ⟨_, rfl⟩
    obtain ⟨pre2, hpre2⟩ : ∃ p, p = '(' :: optPre l ++ renderE (.comb o₁ a₁ b₁) ++ (' ' :: optPre m) := ⟨_, rfl⟩
    obtain ⟨post2, hpost2⟩ : ∃ p, p = optPost r ++ [')'] := ⟨_, rfl⟩
    have hI1 : I = pre1 ++ renderE (.comb o₁ a₁ b₁) ++ post1 := by rw [hI, hpre1, hpost1]; simp [multiText]
    have hI2 : I = pre2 ++ renderE (.comb o₂ a₂ b₂) ++ post2 := by rw [hI, hpre2, hpost2]; simp [multiText]
    have hl1 : pre1.length = n1 := by rw [hpre1, hn1]; simp; omega
    have hl2 : pre2.length = n2 := by rw [hpre2, hn2]; simp; omega
    -- the three pieces of text outside the combinations
    have hsl : slice I 1 (n1 + 1) = optPre l ++ ['('] :=
      slice_of _ ['('] (optPre l ++ ['(']) (renderE a₁ ++ ' ' :: o₁.br ++ ' ' :: renderE b₁ ++ ')' :: post1) _ _
        (by rw [hI1, hpre1]; simp [renderE]) (by simp) (by rw [hn1]; simp; omega)
    have hsm : slice I (n1 + (renderE a₁).length + (renderE b₁).length + o₁.str.length + 5) (n2 + 1)
        = ')' :: ' ' :: (optPre m ++ ['(']) :=
      slice_of _ (pre1 ++ '(' :: renderE a₁ ++ ' ' :: o₁.br ++ ' ' :: renderE b₁) (')' :: ' ' :: (optPre m ++ ['(']))
        (renderE a₂ ++ ' ' :: o₂.br ++ ' ' :: renderE b₂ ++ ')' :: post2) _ _
        (by rw [hI1, hpost1, hpost2]; simp [renderE]) (by simp [hbr1, hl1]; omega)
        (by rw [hn2]; simp [hbr1, hl1, hc1]; omega)
    have hsr : slice I (n2 + (renderE a₂).length + (renderE b₂).length + o₂.str.length + 5) q = ')' :: optPost r :=
      slice_of _ (pre2 ++ '(' :: renderE a₂ ++ ' ' :: o₂.br ++ ' ' :: renderE b₂) (')' :: optPost r) [')'] _ _
        (by rw [hI2, hpost2]; simp [renderE]) (by simp [hbr2, hl2]; omega)
        (by rw [hq, ← hn2]; simp [hbr2, hl2, hc2]; omega)
    -- the enclosing boundary is found for both combinations
    have hfind1 : (List.find? (fun v => decide (v.left < (bnd o₁ a₁ b₁ n1).left)
          && decide (v.right > (bnd o₁ a₁ b₁ n1).right) && v.opVal == []) [outerBnd q]) = some (outerBnd q) := by
      have c1 : 1 < n1 + 1 := by omega
      have c2 : q > n1 + (renderE a₁).length + (renderE b₁).length + o₁.str.length + 5 := by omega
      simp [List.find?, outerBnd, bnd, c1, c2]
    have hfind2 : (List.find? (fun v => decide (v.left < (bnd o₂ a₂ b₂ n2).left)
          && decide (v.right > (bnd o₂ a₂ b₂ n2).right) && v.opVal == []) [outerBnd q]) = some (outerBnd q) := by
      have c1 : 1 < n2 + 1 := by omega
      have c2 : q > n2 + (renderE a₂).length + (renderE b₂).length + o₂.str.length + 5 := by omega
      simp [List.find?, outerBnd, bnd, c1, c2]
    have hsh1 : extractShared I ([outerBnd q] :: [bnd o₁ a₁ b₁ n1, bnd o₂ a₂ b₂ n2] :: rest) 1 0
        [bnd o₁ a₁ b₁ n1, bnd o₂ a₂ b₂ n2] (bnd o₁ a₁ b₁ n1) = (optList l, optList m) := by
      simp only [extractShared, enclosing, List.getElem?_cons_zero, Option.getD_some, hfind1, if_true, Nat.zero_add,
        List.getElem?_cons_succ]
      simp only [outerBnd, bnd, hsl, hsm, cleanShared_pre l hl, cleanShared_mid m hm]
    have hsh2 : extractShared I ([outerBnd q] :: [bnd o₁ a₁ b₁ n1, bnd o₂ a₂ b₂ n2] :: rest) 1 1
        [bnd o₁ a₁ b₁ n1, bnd o₂ a₂ b₂ n2] (bnd o₂ a₂ b₂ n2) = (optList m, optList r) := by
      simp only [extractShared, enclosing, List.getElem?_cons_zero, Option.getD_some, hfind2, Nat.sub_self,
        List.getElem?_cons_succ, List.getElem?_nil, Nat.succ_ne_zero, if_false, Nat.reduceAdd, Nat.one_ne_zero]
      simp only [outerBnd, bnd, hsm, hsr, cleanShared_mid m hm, cleanShared_post r hr]
    have step1 := procEntries_step o₁ a₁ b₁ ha₁ hb₁ f pre1 post1 nested
      ([outerBnd q] :: [bnd o₁ a₁ b₁ n1, bnd o₂ a₂ b₂ n2] :: rest) 1 0 [bnd o₁ a₁ b₁ n1, bnd o₂ a₂ b₂ n2]
      [bnd o₂ a₂ b₂ n2] [] (optList l) (optList m)
      (fun o' l' r' h a' b' => parse_render_aux a₁ ha₁ o' l' r' h f a' b' true (by omega))
      (fun o' l' r' h a' b' => parse_render_aux b₁ hb₁ o' l' r' h f a' b' true (by omega))
      (by rw [← hI1, hl1]; exact hsh1)
    have step2 := procEntries_step o₂ a₂ b₂ ha₂ hb₂ f pre2 post2 nested
      ([outerBnd q] :: [bnd o₁ a₁ b₁ n1, bnd o₂ a₂ b₂ n2] :: rest) 1 1 [bnd o₁ a₁ b₁ n1, bnd o₂ a₂ b₂ n2]
      [] [.comb o₁.str (optList l) (optList m) (treeOf a₁) (treeOf b₁)] (optList m) (optList r)
      (fun o' l' r' h a' b' => parse_render_aux a₂ ha₂ o' l' r' h f a' b' true (by omega))
      (fun o' l' r' h a' b' => parse_render_aux b₂ hb₂ o' l' r' h f a' b' true (by omega))
      (by rw [← hI2, hl2]; exact hsh2)
    rw [← hI1, hl1] at step1
    rw [← hI2, hl2] at step2
    rw [afterDetect]
    simp only [List.isEmpty_cons, Bool.false_eq_true, if_false, firstComplete, List.any_cons, List.any_nil, Bool.or_false,
      outerBnd, bnd, if_true, Bool.or_true]
    simp only [outerBnd, bnd] at step1 step2
    rw [step1]
    have hlen : decide (([bnd o₁ a₁ b₁ n1, bnd o₂ a₂ b₂ n2] : List Bnd).length > 1) = true := by simp
    simp only [bnd] at hlen
    simp only [hlen, Bool.or_true, if_true, List.nil_append]
    rw [step2]
    simp only [hlen, Bool.or_true, if_true]
    simp [procEntries, finish]

/-- **Several combinations in one component.** Both are parsed as written, receive the text
    around and between them as shared text, and are joined by wAND in source order. -/
theorem parse_multi2 (l m r : Option Str) (o₁ o₂ : Op3) (a₁ b₁ a₂ b₂ : Expr)
    (ha₁ : BinW a₁) (hb₁ : BinW b₁) (ha₂ : BinW a₂) (hb₂ : BinW b₂)
    (hl : ∀ t, l = some t → SWord t) (hm : ∀ t, m = some t → SWord t) (hr : ∀ t, r = some t → SWord t)
    (nested : Bool) (fuel : Nat) (hf₁ : depth (.comb o₁ a₁ b₁) ≤ fuel) (hf₂ : depth (.comb o₂ a₂ b₂) ≤ fuel) :
    parse false fuel (renderE (.multi2 l (.comb o₁ a₁ b₁) m (.comb o₂ a₂ b₂) r)) nested
      = .res ⟨.comb sWAND [] [] (.comb o₁.str (optList l) (optList m) (treeOf a₁) (treeOf b₁))
                (.comb o₂.str (optList m) (optList r) (treeOf a₂) (treeOf b₂)),
              renderE (.multi2 l (.comb o₁ a₁ b₁) m (.comb o₂ a₂ b₂) r), cNoError⟩ := by
  cases fuel with
  | zero => simp [depth] at hf₁
  | succ f =>
    rw [render_multi2]
    have h1 : Bin (.comb o₁ a₁ b₁) := .comb _ _ _ ha₁.bin hb₁.bin
    have h2 : Bin (.comb o₂ a₂ b₂) := .comb _ _ _ ha₂.bin hb₂.bin
    have hT : multiText l o₁ a₁ b₁ m o₂ a₂ b₂ r = ('(' :: optPre l ++ '(' :: renderE a₁ ++ [' ']) ++ o₁.br
        ++ (' ' :: renderE b₁ ++ ')' :: ' ' :: optPre m ++ renderE (.comb o₂ a₂ b₂) ++ optPost r ++ [')']) := by
      simp [multiText, renderE]
    have hu := parse_unfold o₁ ('(' :: optPre l ++ '(' :: renderE a₁ ++ [' '])
      (' ' :: renderE b₁ ++ ')' :: ' ' :: optPre m ++ renderE (.comb o₂ a₂ b₂) ++ optPost r ++ [')']) f nested
    rw [← hT] at hu
    obtain ⟨rest, hd⟩ := detect_multi l m r o₁ o₂ a₁ b₁ a₂ b₂ h1 h2 hl hm hr ((multiText l o₁ a₁ b₁ m o₂ a₂ b₂ r).length + 1)
    rw [hu, hd]
    exact afterDetect_multi l m r o₁ o₂ a₁ b₁ a₂ b₂ ha₁ hb₁ ha₂ hb₂ hl hm hr nested f hf₁ hf₂ rest

/-- the tree of two combinations in one component is its documented meaning -/
theorem toP_multi2 (l m r : Option Str) (o₁ o₂ : Op3) (a₁ b₁ a₂ b₂ : Expr)
    (ha₁ : BinW a₁) (hb₁ : BinW b₁) (ha₂ : BinW a₂) (hb₂ : BinW b₂) :
    toP (.comb sWAND [] [] (.comb o₁.str (optList l) (optList m) (treeOf a₁) (treeOf b₁))
          (.comb o₂.str (optList m) (optList r) (treeOf a₂) (treeOf b₂)))
      = denoteE [] [] (.multi2 l (.comb o₁ a₁ b₁) m (.comb o₂ a₂ b₂) r) := by
  simp [toP, denoteE, toP_treeOf a₁ ha₁, toP_treeOf b₁ hb₁, toP_treeOf a₂ ha₂, toP_treeOf b₂ hb₂, sWAND, opWAND, str]

end IGVerif.Combo
