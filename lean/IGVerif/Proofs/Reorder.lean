import IGVerif.Spec.Grammar
/-! Order of annotations of different component types does not matter (C18, second half):
    swapping two adjacent parts that do not fill the same statement field leaves the meaning
    `denoteS` unchanged. Every reordering that keeps the relative order of annotations of one
    type is a composition of such swaps. -/
namespace IGVerif

/-- two field lists with the same content per field -/
def FEq (a b : PStmt) : Prop := ∀ i, a.find? (fun p => p.1 = i) = b.find? (fun p => p.1 = i)

theorem FEq.refl (a : PStmt) : FEq a a := fun _ => rfl
theorem FEq.trans {a b c : PStmt} (h₁ : FEq a b) (h₂ : FEq b c) : FEq a c := fun i => (h₁ i).trans (h₂ i)

theorem sortFields_congr {a b : PStmt} (h : FEq a b) : sortFields a = sortFields b := by
  unfold sortFields
  congr 1
  funext i
  exact h i

/-- content of field `i` after `addField` -/
theorem find_addField (op : Str) (f : Nat) (n : PNode) (acc : PStmt) (i : Nat) :
    (addField op f n acc).find? (fun p => p.1 = i) =
      if i = f then
        some (f, match acc.find? (fun p => p.1 = f) with
                 | some q => combineN op q.2 n
                 | none => n)
      else acc.find? (fun p => p.1 = i) := by
  induction acc with
  | nil =>
    simp only [addField, List.find?_cons, List.find?_nil]
    by_cases h : i = f
    · simp [h]
    · have : ¬ f = i := fun e => h e.symm
      simp [h, this]
  | cons q rest ih =>
    obtain ⟨g, m⟩ := q
    simp only [addField]
    by_cases hg : g = f
    · subst hg
      simp only [if_true, List.find?_cons]
      by_cases h : i = g
      · subst h; simp
      · have : ¬ g = i := fun e => h e.symm
        simp [h, this]
    · simp only [hg, if_false, List.find?_cons]
      by_cases h : i = f
      · subst h
        have : ¬ g = i := hg
        simp [this, ih]
      · by_cases hgi : g = i
        · simp [hgi, h]
        · simp [hgi, h, ih]

theorem addField_congr (op : Str) (f : Nat) (n : PNode) {a b : PStmt} (h : FEq a b) :
    FEq (addField op f n a) (addField op f n b) := by
  intro i
  rw [find_addField, find_addField, h f, h i]

theorem addField_comm (o o' : Str) (f g : Nat) (n m : PNode) (a : PStmt) (hfg : f ≠ g) :
    FEq (addField o f n (addField o' g m a)) (addField o' g m (addField o f n a)) := by
  intro i
  have hgf : g ≠ f := Ne.symm hfg
  simp only [find_addField]
  by_cases h1 : i = f
  · have h2 : ¬ i = g := fun e => hfg (h1.symm.trans e)
    simp [h1, hfg, hgf]
  · by_cases h2 : i = g
    · simp [h2, hfg, hgf]
    · simp [h1, h2]

/-! ### the three passes respect `FEq` and commute on parts with different targets -/

theorem simple_congr (ps : List Part) {a b : PStmt} (h : FEq a b) : FEq (denoteSimple ps a) (denoteSimple ps b) := by
  induction ps generalizing a b with
  | nil => simpa [denoteSimple] using h
  | cons p ps ih =>
    cases p with
    | ann hd o e =>
      simp only [denoteSimple]
      cases hs : hd.sym.simple with
      | none => exact ih h
      | some f => exact ih (addField_congr _ _ _ h)
    | filler => simpa [denoteSimple] using ih h
    | nested => simpa [denoteSimple] using ih h
    | ncomb => simpa [denoteSimple] using ih h
    | pairs => simpa [denoteSimple] using ih h

theorem combos_congr (ps : List Part) {a b : PStmt} (h : FEq a b) : FEq (denoteCombos ps a) (denoteCombos ps b) := by
  induction ps generalizing a b with
  | nil => simpa [denoteCombos] using h
  | cons p ps ih =>
    cases p with
    | ncomb hd t =>
      simp only [denoteCombos]
      cases hs : hd.sym.complex with
      | none => exact ih h
      | some f => exact ih (addField_congr _ _ _ h)
    | filler => simpa [denoteCombos] using ih h
    | nested => simpa [denoteCombos] using ih h
    | ann => simpa [denoteCombos] using ih h
    | pairs => simpa [denoteCombos] using ih h

theorem nested_congr (op : Str) (ps : List Part) {a b : PStmt} (h : FEq a b) :
    FEq (denoteNested op ps a) (denoteNested op ps b) := by
  induction ps generalizing a b with
  | nil => simpa [denoteNested] using h
  | cons p ps ih =>
    cases p with
    | nested hd s =>
      simp only [denoteNested]
      cases hs : hd.sym.complex with
      | none => exact ih h
      | some f => exact ih (addField_congr _ _ _ h)
    | filler => simpa [denoteNested] using ih h
    | ncomb => simpa [denoteNested] using ih h
    | ann => simpa [denoteNested] using ih h
    | pairs => simpa [denoteNested] using ih h

/-- the statement field a part fills in each of the three passes -/
def Part.simpleTarget : Part → Option Nat
  | .ann h _ _ => h.sym.simple
  | _ => none
def Part.comboTarget : Part → Option Nat
  | .ncomb h _ => h.sym.complex
  | _ => none
def Part.nestedTarget : Part → Option Nat
  | .nested h _ => h.sym.complex
  | _ => none

/-- two parts may be swapped: in no pass do they fill the same field -/
def Part.independent (p q : Part) : Prop :=
  (∀ f, p.simpleTarget = some f → q.simpleTarget ≠ some f) ∧
  (∀ f, p.comboTarget = some f → q.comboTarget ≠ some f) ∧
  (∀ f, p.nestedTarget = some f → q.nestedTarget ≠ some f)

theorem simple_step (p : Part) (ps : List Part) (acc : PStmt) :
    denoteSimple (p :: ps) acc = denoteSimple ps (denoteSimple [p] acc) := by
  cases p <;> simp [denoteSimple]

theorem combos_step (p : Part) (ps : List Part) (acc : PStmt) :
    denoteCombos (p :: ps) acc = denoteCombos ps (denoteCombos [p] acc) := by
  cases p <;> simp [denoteCombos]

theorem nested_step (op : Str) (p : Part) (ps : List Part) (acc : PStmt) :
    denoteNested op (p :: ps) acc = denoteNested op ps (denoteNested op [p] acc) := by
  cases p <;> simp [denoteNested]

theorem simple_swap (p q : Part) (post : List Part) (acc : PStmt)
    (h : ∀ f, p.simpleTarget = some f → q.simpleTarget ≠ some f) :
    FEq (denoteSimple (p :: q :: post) acc) (denoteSimple (q :: p :: post) acc) := by
  cases p with
  | ann h1 o1 e1 =>
    cases q with
    | ann h2 o2 e2 =>
      simp only [denoteSimple]
      cases hs1 : h1.sym.simple with
      | none => cases hs2 : h2.sym.simple <;> exact FEq.refl _
      | some f =>
        cases hs2 : h2.sym.simple with
        | none => exact FEq.refl _
        | some g =>
          have hfg : f ≠ g := by
            intro e
            have := h f (by simp [Part.simpleTarget, hs1])
            simp [Part.simpleTarget, hs2, e] at this
          exact simple_congr post (addField_comm _ _ g f _ _ acc (Ne.symm hfg))
    | filler => simp only [denoteSimple]; exact FEq.refl _
    | nested => simp only [denoteSimple]; exact FEq.refl _
    | ncomb => simp only [denoteSimple]; exact FEq.refl _
    | pairs => simp only [denoteSimple]; exact FEq.refl _
  | filler => cases q <;> simp only [denoteSimple] <;> exact FEq.refl _
  | nested => cases q <;> simp only [denoteSimple] <;> exact FEq.refl _
  | ncomb => cases q <;> simp only [denoteSimple] <;> exact FEq.refl _
  | pairs => cases q <;> simp only [denoteSimple] <;> exact FEq.refl _

theorem combos_swap (p q : Part) (post : List Part) (acc : PStmt)
    (h : ∀ f, p.comboTarget = some f → q.comboTarget ≠ some f) :
    FEq (denoteCombos (p :: q :: post) acc) (denoteCombos (q :: p :: post) acc) := by
  cases p with
  | ncomb h1 t1 =>
    cases q with
    | ncomb h2 t2 =>
      simp only [denoteCombos]
      cases hs1 : h1.sym.complex with
      | none => cases hs2 : h2.sym.complex <;> exact FEq.refl _
      | some f =>
        cases hs2 : h2.sym.complex with
        | none => exact FEq.refl _
        | some g =>
          have hfg : f ≠ g := by
            intro e
            have := h f (by simp [Part.comboTarget, hs1])
            simp [Part.comboTarget, hs2, e] at this
          exact combos_congr post (addField_comm _ _ g f _ _ acc (Ne.symm hfg))
    | filler => simp only [denoteCombos]; exact FEq.refl _
    | nested => simp only [denoteCombos]; exact FEq.refl _
    | ann => simp only [denoteCombos]; exact FEq.refl _
    | pairs => simp only [denoteCombos]; exact FEq.refl _
  | filler => cases q <;> simp only [denoteCombos] <;> exact FEq.refl _
  | nested => cases q <;> simp only [denoteCombos] <;> exact FEq.refl _
  | ann => cases q <;> simp only [denoteCombos] <;> exact FEq.refl _
  | pairs => cases q <;> simp only [denoteCombos] <;> exact FEq.refl _

theorem nested_swap (op : Str) (p q : Part) (post : List Part) (acc : PStmt)
    (h : ∀ f, p.nestedTarget = some f → q.nestedTarget ≠ some f) :
    FEq (denoteNested op (p :: q :: post) acc) (denoteNested op (q :: p :: post) acc) := by
  cases p with
  | nested h1 s1 =>
    cases q with
    | nested h2 s2 =>
      simp only [denoteNested]
      cases hs1 : h1.sym.complex with
      | none => cases hs2 : h2.sym.complex <;> exact FEq.refl _
      | some f =>
        cases hs2 : h2.sym.complex with
        | none => exact FEq.refl _
        | some g =>
          have hfg : f ≠ g := by
            intro e
            have := h f (by simp [Part.nestedTarget, hs1])
            simp [Part.nestedTarget, hs2, e] at this
          exact nested_congr op post (addField_comm _ _ g f _ _ acc (Ne.symm hfg))
    | filler => simp only [denoteNested]; exact FEq.refl _
    | ncomb => simp only [denoteNested]; exact FEq.refl _
    | ann => simp only [denoteNested]; exact FEq.refl _
    | pairs => simp only [denoteNested]; exact FEq.refl _
  | filler => cases q <;> simp only [denoteNested] <;> exact FEq.refl _
  | ncomb => cases q <;> simp only [denoteNested] <;> exact FEq.refl _
  | ann => cases q <;> simp only [denoteNested] <;> exact FEq.refl _
  | pairs => cases q <;> simp only [denoteNested] <;> exact FEq.refl _

/-- a prefix is processed the same way on both sides -/
theorem simple_prefix (pre : List Part) (x y : List Part) (h : ∀ acc, FEq (denoteSimple x acc) (denoteSimple y acc))
    (acc : PStmt) : FEq (denoteSimple (pre ++ x) acc) (denoteSimple (pre ++ y) acc) := by
  induction pre generalizing acc with
  | nil => exact h acc
  | cons p pre ih => rw [List.cons_append, List.cons_append, simple_step p (pre ++ x), simple_step p (pre ++ y)]; exact ih _

theorem combos_prefix (pre : List Part) (x y : List Part) (h : ∀ acc, FEq (denoteCombos x acc) (denoteCombos y acc))
    (acc : PStmt) : FEq (denoteCombos (pre ++ x) acc) (denoteCombos (pre ++ y) acc) := by
  induction pre generalizing acc with
  | nil => exact h acc
  | cons p pre ih =>
    rw [List.cons_append, List.cons_append, combos_step p (pre ++ x), combos_step p (pre ++ y)]; exact ih _

theorem nested_prefix (op : Str) (pre : List Part) (x y : List Part)
    (h : ∀ acc, FEq (denoteNested op x acc) (denoteNested op y acc))
    (acc : PStmt) : FEq (denoteNested op (pre ++ x) acc) (denoteNested op (pre ++ y) acc) := by
  induction pre generalizing acc with
  | nil => exact h acc
  | cons p pre ih =>
    rw [List.cons_append, List.cons_append, nested_step op p (pre ++ x), nested_step op p (pre ++ y)]; exact ih _

/-! ### the joining operator of single nested statements does not depend on the order -/

theorem countNested_append (a b : List Part) : countNested (a ++ b) = countNested a + countNested b := by
  induction a with
  | nil => simp [countNested]
  | cons p a ih => cases p <;> simp [countNested, ih] <;> omega

theorem countNested_swap (pre : List Part) (p q : Part) (post : List Part) :
    countNested (pre ++ p :: q :: post) = countNested (pre ++ q :: p :: post) := by
  rw [countNested_append, countNested_append]
  congr 1
  cases p <;> cases q <;> simp [countNested] <;> omega

theorem nestedOp_swap (pre : List Part) (p q : Part) (post : List Part) :
    nestedOp (pre ++ p :: q :: post) = nestedOp (pre ++ q :: p :: post) := by
  unfold nestedOp
  rw [countNested_swap]
  simp only [List.map_append, List.map_cons, List.any_append, List.any_cons]
  cases contains (str "[XOR]") p.fillerText <;> cases contains (str "[XOR]") q.fillerText <;>
    cases contains (str "[OR]") p.fillerText <;> cases contains (str "[OR]") q.fillerText <;> simp

/-- **Swapping two adjacent parts that fill different fields leaves the statement's meaning
    unchanged**, wherever they stand. -/
theorem denoteS_swap (pre : List Part) (p q : Part) (post : List Part) (h : Part.independent p q) :
    denoteS (.mk (pre ++ p :: q :: post)) = denoteS (.mk (pre ++ q :: p :: post)) := by
  simp only [denoteS]
  apply sortFields_congr
  rw [nestedOp_swap]
  have e1 : FEq (denoteSimple (pre ++ p :: q :: post) []) (denoteSimple (pre ++ q :: p :: post) []) :=
    simple_prefix pre _ _ (fun acc => simple_swap p q post acc h.1) []
  have e2 : FEq (denoteCombos (pre ++ p :: q :: post) (denoteSimple (pre ++ p :: q :: post) []))
                (denoteCombos (pre ++ q :: p :: post) (denoteSimple (pre ++ q :: p :: post) [])) :=
    FEq.trans (combos_congr _ e1) (combos_prefix pre _ _ (fun acc => combos_swap p q post acc h.2.1) _)
  exact FEq.trans (nested_congr _ _ e2) (nested_prefix _ pre _ _ (fun acc => nested_swap _ p q post acc h.2.2) _)

end IGVerif
