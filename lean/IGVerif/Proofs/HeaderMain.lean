import IGVerif.Proofs.Header
/-! The component type of every documented header (`Model/Header.lean`): a symbol of the table,
    any primary suffix, for property symbols the marker with any secondary suffix, any annotation. -/
namespace IGVerif.Header
open IGVerif

/-- the table, character by character (for rewriting) -/
def tableChars : List Str :=
  [['S', 't', 'a', 't', 'e', 'm', 'e', 'n', 't', ' ', 'A', 'n', 'n', 'o', 't', 'a', 't', 'i', 'o', 'n'],
   ['A'],
   ['A', ' ', '(', 'A', 'n', 'n', 'o', 't', 'a', 't', 'i', 'o', 'n', ')'],
   ['A', ',', 'p'],
   ['A', ',', 'p', '-', 'R', 'e', 'f'],
   ['A', ',', 'p', ' ', '(', 'A', 'n', 'n', 'o', 't', 'a', 't', 'i', 'o', 'n', ')'],
   ['D'],
   ['D', ' ', '(', 'A', 'n', 'n', 'o', 't', 'a', 't', 'i', 'o', 'n', ')'],
   ['I'],
   ['I', ' ', '(', 'A', 'n', 'n', 'o', 't', 'a', 't', 'i', 'o', 'n', ')'],
   ['B', 'd', 'i', 'r'],
   ['B', 'd', 'i', 'r', '-', 'R', 'e', 'f'],
   ['B', 'd', 'i', 'r', ' ', '(', 'A', 'n', 'n', 'o', 't', 'a', 't', 'i', 'o', 'n', ')'],
   ['B', 'd', 'i', 'r', ',', 'p'],
   ['B', 'd', 'i', 'r', ',', 'p', '-', 'R', 'e', 'f'],
   ['B', 'd', 'i', 'r', ',', 'p', ' ', '(', 'A', 'n', 'n', 'o', 't', 'a', 't', 'i', 'o', 'n', ')'],
   ['B', 'i', 'n', 'd'],
   ['B', 'i', 'n', 'd', '-', 'R', 'e', 'f'],
   ['B', 'i', 'n', 'd', ' ', '(', 'A', 'n', 'n', 'o', 't', 'a', 't', 'i', 'o', 'n', ')'],
   ['B', 'i', 'n', 'd', ',', 'p'],
   ['B', 'i', 'n', 'd', ',', 'p', '-', 'R', 'e', 'f'],
   ['B', 'i', 'n', 'd', ',', 'p', ' ', '(', 'A', 'n', 'n', 'o', 't', 'a', 't', 'i', 'o', 'n', ')'],
   ['C', 'a', 'c'],
   ['C', 'a', 'c', '-', 'R', 'e', 'f'],
   ['C', 'a', 'c', ' ', '(', 'A', 'n', 'n', 'o', 't', 'a', 't', 'i', 'o', 'n', ')'],
   ['C', 'e', 'x'],
   ['C', 'e', 'x', '-', 'R', 'e', 'f'],
   ['C', 'e', 'x', ' ', '(', 'A', 'n', 'n', 'o', 't', 'a', 't', 'i', 'o', 'n', ')'],
   ['E'],
   ['E', ' ', '(', 'A', 'n', 'n', 'o', 't', 'a', 't', 'i', 'o', 'n', ')'],
   ['E', ',', 'p'],
   ['E', ',', 'p', '-', 'R', 'e', 'f'],
   ['E', ',', 'p', ' ', '(', 'A', 'n', 'n', 'o', 't', 'a', 't', 'i', 'o', 'n', ')'],
   ['M'],
   ['M', ' ', '(', 'A', 'n', 'n', 'o', 't', 'a', 't', 'i', 'o', 'n', ')'],
   ['F'],
   ['F', ' ', '(', 'A', 'n', 'n', 'o', 't', 'a', 't', 'i', 'o', 'n', ')'],
   ['P'],
   ['P', '-', 'R', 'e', 'f'],
   ['P', ' ', '(', 'A', 'n', 'n', 'o', 't', 'a', 't', 'i', 'o', 'n', ')'],
   ['P', ',', 'p'],
   ['P', ',', 'p', '-', 'R', 'e', 'f'],
   ['P', ',', 'p', ' ', '(', 'A', 'n', 'n', 'o', 't', 'a', 't', 'i', 'o', 'n', ')'],
   ['O'],
   ['O', '-', 'R', 'e', 'f']]

theorem table_eq : table = tableChars := by decide

/-- symbols of components (without the property marker) -/
def roots : List Str :=
  [['A'],
   ['D'],
   ['I'],
   ['B', 'd', 'i', 'r'],
   ['B', 'i', 'n', 'd'],
   ['C', 'a', 'c'],
   ['C', 'e', 'x'],
   ['E'],
   ['M'],
   ['F'],
   ['P'],
   ['O']]

/-- components that have a property variant -/
def propRoots : List Str :=
  [['A'], ['B', 'd', 'i', 'r'], ['B', 'i', 'n', 'd'], ['E'], ['P']]

def startsUpper : Str → Bool
  | u :: _ => u.isUpper
  | [] => false

theorem table_upper : ∀ v ∈ table, ∃ u vs, v = u :: vs ∧ u.isUpper = true := by
  have h : tableChars.all startsUpper = true := by decide
  rw [table_eq]
  intro v hv
  have := List.all_eq_true.mp h v hv
  cases v with
  | nil => simp [startsUpper] at this
  | cons u vs => exact ⟨u, vs, rfl, this⟩

def rootOk : Str → Bool
  | c :: cs => !(',' == c) && !(c == '[') && cs.all (fun x => !x.isUpper && !(',' == x) && !(x == '['))
  | [] => false

/-- a root is a character other than `,` and `[` followed by characters that are neither capitals nor `,` nor `[` -/
theorem root_shape : ∀ r ∈ roots, ∃ c cs, r = c :: cs ∧ (',' == c) = false ∧ c ≠ '[' ∧
    ∀ x ∈ cs, x.isUpper = false ∧ (',' == x) = false ∧ x ≠ '[' := by
  have h : roots.all rootOk = true := by decide
  intro r hr
  have := List.all_eq_true.mp h r hr
  cases r with
  | nil => simp [rootOk] at this
  | cons c cs =>
    simp only [rootOk, Bool.and_eq_true, Bool.not_eq_true', beq_eq_false_iff_ne, ne_eq] at this
    refine ⟨c, cs, rfl, by simpa using this.1.1, this.1.2, ?_⟩
    intro x hx
    have hx' := List.all_eq_true.mp this.2 x hx
    simp only [Bool.and_eq_true, Bool.not_eq_true', beq_eq_false_iff_ne, ne_eq] at hx'
    exact ⟨hx'.1.1, by simpa using hx'.1.2, hx'.2⟩

theorem hits_eq (c : Char) (cs : Str) (hcs : ∀ x ∈ cs, x.isUpper = false) :
    table.filter (fun v => contains v (c :: cs)) = table.filter (fun v => isPrefix v (c :: cs)) := by
  apply List.filter_congr
  intro v hv
  obtain ⟨u, vs, rfl, hu⟩ := table_upper v hv
  exact contains_eq_isPrefix u vs c cs hu hcs

end IGVerif.Header

namespace IGVerif.Header
open IGVerif

theorem cut_header (h anno : Str) (hh : ∀ x ∈ h, x ≠ '[') (ha : anno = [] ∨ ∃ t, anno = '[' :: t) :
    cutAnno (h ++ anno) = h := by
  unfold cutAnno
  rw [List.takeWhile_append_of_pos (by intro a ha'; simpa using hh a ha')]
  rcases ha with rfl | ⟨t, rfl⟩ <;> simp

/-- the identification on a header `c :: t` without further capitals: only the symbols that are a
    prefix of the header take part -/
theorem reduce (c : Char) (t anno : Str) (ht : ∀ x ∈ t, x.isUpper = false ∧ x ≠ '[') (hc : c ≠ '[')
    (ha : anno = [] ∨ ∃ t', anno = '[' :: t') :
    extractType table (c :: t ++ anno) =
      loopHits (contains marker (c :: t)) (table.filter (fun v => isPrefix v (c :: t))) [] false := by
  unfold extractType
  have hcut : cutAnno (c :: t ++ anno) = c :: t :=
    cut_header (c :: t) anno (by intro x hx; rcases List.mem_cons.mp hx with rfl | hx; exact hc; exact (ht x hx).2) ha
  simp only [hcut]
  rw [loop_filter, hits_eq c t (fun x hx => (ht x hx).1)]

theorem digits_ok (d : Str) (hd : ∀ c ∈ d, c.isDigit = true) :
    ∀ x ∈ d, x.isUpper = false ∧ (',' == x) = false ∧ x ≠ '[' := by
  intro x hx
  have := digit_facts x (hd x hx)
  refine ⟨this.1, this.2.1, ?_⟩
  intro h; subst h; simp at this

/-- header of a component without property marker: only prefixes of the header take part, and the
    marker is found nowhere -/
theorem plain_reduce (r : Str) (hr : r ∈ roots) (d anno : Str) (hd : ∀ c ∈ d, c.isDigit = true)
    (ha : anno = [] ∨ ∃ t, anno = '[' :: t) :
    extractType table (r ++ d ++ anno) = loopHits false (table.filter (fun v => isPrefix v (r ++ d))) [] false := by
  obtain ⟨c, cs, rfl, hc1, hc2, hcs⟩ := root_shape r hr
  have hd' := digits_ok d hd
  have ht : ∀ x ∈ cs ++ d, x.isUpper = false ∧ (',' == x) = false ∧ x ≠ '[' := by
    intro x hx; rcases List.mem_append.mp hx with h | h
    · exact hcs x h
    · exact hd' x h
  have := reduce c (cs ++ d) anno (fun x hx => ⟨(ht x hx).1, (ht x hx).2.2⟩) hc2 ha
  simp only [List.cons_append] at this ⊢
  rw [this]
  have hP : contains marker (c :: (cs ++ d)) = false := by
    apply contains_absent
    intro x hx; rcases List.mem_cons.mp hx with rfl | hx
    · exact hc1
    · exact (ht x hx).2.1
  rw [hP]

/-- header of a property component: root, primary suffix, marker, secondary suffix -/
theorem prop_reduce (r : Str) (hr : r ∈ roots) (d1 d2 anno : Str) (hd1 : ∀ c ∈ d1, c.isDigit = true)
    (hd2 : ∀ c ∈ d2, c.isDigit = true) (ha : anno = [] ∨ ∃ t, anno = '[' :: t) :
    extractType table (r ++ d1 ++ marker ++ d2 ++ anno) =
      loopHits true (table.filter (fun v => isPrefix v (r ++ d1 ++ marker ++ d2))) [] false := by
  obtain ⟨c, cs, rfl, _, hc2, hcs⟩ := root_shape r hr
  have h1 := digits_ok d1 hd1
  have h2 := digits_ok d2 hd2
  have ht : ∀ x ∈ cs ++ d1 ++ marker ++ d2, x.isUpper = false ∧ x ≠ '[' := by
    intro x hx
    simp only [List.mem_append] at hx
    rcases hx with ((h | h) | h) | h
    · exact ⟨(hcs x h).1, (hcs x h).2.2⟩
    · exact ⟨(h1 x h).1, (h1 x h).2.2⟩
    · simp [marker] at h; rcases h with rfl | rfl <;> decide
    · exact ⟨(h2 x h).1, (h2 x h).2.2⟩
  have := reduce c (cs ++ d1 ++ marker ++ d2) anno ht hc2 ha
  simp only [List.cons_append] at this ⊢
  rw [this]
  have hP : contains marker (c :: (cs ++ d1 ++ marker ++ d2)) = true := by
    have := contains_mid marker (c :: (cs ++ d1)) d2
    simpa using this
  rw [hP]

/-- **Every component symbol, with any primary suffix and any annotation, is identified as itself.** -/
theorem header_type_plain (r : Str) (hr : r ∈ roots) (d anno : Str) (hd : ∀ c ∈ d, c.isDigit = true)
    (ha : anno = [] ∨ ∃ t, anno = '[' :: t) :
    extractType table (r ++ d ++ anno) = .ok r false := by
  rw [plain_reduce r hr d anno hd ha, table_eq]
  simp only [roots, List.mem_cons, List.not_mem_nil, or_false] at hr
  cases d with
  | nil =>
    rcases hr with rfl | rfl | rfl | rfl | rfl | rfl | rfl | rfl | rfl | rfl | rfl | rfl <;>
      simp [tableChars, List.filter, isPrefix, loopHits]
  | cons x xs =>
    have hx := digit_facts x (hd x (by simp))
    rcases hr with rfl | rfl | rfl | rfl | rfl | rfl | rfl | rfl | rfl | rfl | rfl | rfl <;>
      simp [tableChars, List.filter, isPrefix, loopHits, hx.2.1, hx.2.2.1, hx.2.2.2.1]

/-- **Every property symbol, with any primary and secondary suffix and any annotation, is identified
    as the property variant of its component.** -/
theorem header_type_property (r : Str) (hr : r ∈ propRoots) (d1 d2 anno : Str) (hd1 : ∀ c ∈ d1, c.isDigit = true)
    (hd2 : ∀ c ∈ d2, c.isDigit = true) (ha : anno = [] ∨ ∃ t, anno = '[' :: t) :
    extractType table (r ++ d1 ++ marker ++ d2 ++ anno) = .ok (r ++ marker) true := by
  have hr' : r ∈ roots := by
    simp only [propRoots, List.mem_cons, List.not_mem_nil, or_false] at hr
    rcases hr with rfl | rfl | rfl | rfl | rfl <;> decide
  rw [prop_reduce r hr' d1 d2 anno hd1 hd2 ha, table_eq]
  simp only [propRoots, List.mem_cons, List.not_mem_nil, or_false] at hr
  cases d1 with
  | nil =>
    cases d2 with
    | nil =>
      rcases hr with rfl | rfl | rfl | rfl | rfl <;>
        simp [tableChars, List.filter, isPrefix, isSuffix, loopHits, marker]
    | cons y ys =>
      have hy := digit_facts y (hd2 y (by simp))
      rcases hr with rfl | rfl | rfl | rfl | rfl <;>
        simp [tableChars, List.filter, isPrefix, isSuffix, loopHits, marker, hy.2.2.1, hy.2.2.2.1]
  | cons x xs =>
    have hx := digit_facts x (hd1 x (by simp))
    rcases hr with rfl | rfl | rfl | rfl | rfl <;>
      simp [tableChars, List.filter, isPrefix, isSuffix, loopHits, marker, hx.2.1, hx.2.2.1, hx.2.2.2.1]

theorem cutAnno_idem (h : Str) (hh : ∀ x ∈ h, x ≠ '[') : cutAnno h = h := by
  have := cut_header h [] hh (Or.inl rfl)
  simpa using this

/-- whatever stands inside (and behind) the annotation has no influence on the type: symbols, the
    property marker or further brackets in the annotation are not seen -/
theorem annotation_has_no_influence (tbl : List Str) (h t : Str) (hh : ∀ x ∈ h, x ≠ '[') :
    extractType tbl (h ++ '[' :: t) = extractType tbl h := by
  unfold extractType
  rw [cut_header h ('[' :: t) hh (Or.inr ⟨t, rfl⟩), cutAnno_idem h hh]

theorem contains_skip_blanks (a : Char) (p : Str) (ha : (a == ' ') = false) (ws l : Str) (hws : ∀ x ∈ ws, x = ' ') :
    contains (a :: p) (ws ++ l) = contains (a :: p) l := by
  induction ws with
  | nil => rfl
  | cons x xs ih =>
    have hx : x = ' ' := hws x (by simp)
    subst hx
    simp only [List.cons_append, contains, isPrefix, ha, Bool.false_and, Bool.false_or]
    exact ih (fun y hy => hws y (by simp [hy]))

theorem loop_skip_blanks (tbl : List Str) (htbl : ∀ v ∈ tbl, ∃ a p, v = a :: p ∧ (a == ' ') = false)
    (ws i : Str) (hws : ∀ x ∈ ws, x = ' ') (hasP : Bool) (ret : Str) (prop : Bool) :
    loop (ws ++ i) hasP tbl ret prop = loop i hasP tbl ret prop := by
  induction tbl generalizing ret prop with
  | nil => rfl
  | cons v vs ih =>
    obtain ⟨a, p, rfl, ha⟩ := htbl v (by simp)
    have ih' := fun r q => ih (fun w hw => htbl w (by simp [hw])) r q
    simp only [loop, contains_skip_blanks a p ha ws i hws, ih']

/-- blanks in front of the header (as left by the separation of the operands) have no influence -/
theorem leading_blanks_have_no_influence (tbl : List Str) (htbl : ∀ v ∈ tbl, ∃ a p, v = a :: p ∧ (a == ' ') = false)
    (ws i : Str) (hws : ∀ x ∈ ws, x = ' ') :
    extractType tbl (ws ++ i) = extractType tbl i := by
  unfold extractType
  have hcut : cutAnno (ws ++ i) = ws ++ cutAnno i := by
    unfold cutAnno
    rw [List.takeWhile_append_of_pos (by intro a ha; have := hws a ha; subst this; decide)]
  simp only [hcut]
  rw [loop_skip_blanks tbl htbl ws (cutAnno i) hws]
  have : contains marker (ws ++ cutAnno i) = contains marker (cutAnno i) :=
    contains_skip_blanks ',' ['p'] (by decide) ws _ hws
  rw [this]

theorem table_no_blank_head : ∀ v ∈ table, ∃ a p, v = a :: p ∧ (a == ' ') = false := by
  intro v hv
  obtain ⟨u, vs, rfl, hu⟩ := table_upper v hv
  refine ⟨u, vs, rfl, ?_⟩
  cases h : (u == ' ') with
  | false => rfl
  | true => have := eq_of_beq h; subst this; simp at hu
end IGVerif.Header
