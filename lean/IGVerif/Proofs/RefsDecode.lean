import IGVerif.Model.Refs
/-! `GenerateReferenceSlice` (range compression of row references): the compressed cell denotes
    exactly the rows it was built from. -/
namespace IGVerif.Refs

/-- one step on the reversed list (newest entry first) -/
def addR (rev : List Ref) (id : Nat) : List Ref :=
  let added := id + 1
  match rev with
  | [] => [.one added]
  | .range a b :: rest =>
      if b + 1 = added then Ref.range a added :: rest else Ref.one added :: Ref.range a b :: rest
  | .one n :: rest =>
      if n + 1 = added then Ref.range n added :: rest
      else if n ≠ added then Ref.one added :: Ref.one n :: rest
      else Ref.one n :: rest

theorem add_eq_addR (refs : List Ref) (id : Nat) : add refs id = (addR refs.reverse id).reverse := by
  unfold add addR
  generalize h : refs.reverse = rev
  have hr : refs = rev.reverse := by rw [← h, List.reverse_reverse]
  cases rev with
  | nil => simp
  | cons r rest =>
    cases r with
    | one n =>
      simp only []
      split
      · rfl
      · split
        · rfl
        · exact hr
    | range a b => simp only []; split <;> rfl

theorem build_eq (ids : List Nat) (refs : List Ref) :
    ids.foldl add refs = (ids.foldl addR refs.reverse).reverse := by
  induction ids generalizing refs with
  | nil => simp
  | cons i ids ih => simp only [List.foldl_cons]; rw [ih, add_eq_addR, List.reverse_reverse]

def WF : List Ref → Prop
  | [] => True
  | .one _ :: rest => WF rest
  | .range a b :: rest => a ≤ b ∧ WF rest

def lastOr0 : List Ref → Nat
  | [] => 0
  | r :: _ => r.last

theorem decode_snoc (rest : List Ref) (x : Ref) : decode (x :: rest).reverse = decode rest.reverse ++ x.decode := by
  simp [decode, List.flatMap_append]

theorem decode_range_succ (a b : Nat) (h : a ≤ b + 1) :
    Ref.decode (.range a (b + 1)) = Ref.decode (.range a b) ++ [b + 1] := by
  simp only [Ref.decode]
  have e : b + 1 + 1 - a = (b + 1 - a) + 1 := by omega
  rw [e, List.range_succ, List.map_append]
  simp; omega

theorem decode_pair (n : Nat) : Ref.decode (.range n (n + 1)) = [n, n + 1] := by
  simp only [Ref.decode]
  have e : n + 1 + 1 - n = 2 := by omega
  rw [e]; simp [List.range_succ]; omega

/-- one step: a strictly larger row index is appended to what the cell denotes -/
theorem addR_step (rev : List Ref) (id : Nat) (hw : WF rev) (hl : lastOr0 rev < id + 1) :
    WF (addR rev id) ∧ lastOr0 (addR rev id) = id + 1 ∧
    decode (addR rev id).reverse = decode rev.reverse ++ [id + 1] := by
  unfold addR
  cases rev with
  | nil => simp [WF, lastOr0, decode, Ref.decode, Ref.last]
  | cons r rest =>
    cases r with
    | one n =>
      simp only [lastOr0, Ref.last] at hl
      simp only []
      split
      · rename_i h
        refine ⟨⟨by omega, hw⟩, rfl, ?_⟩
        rw [decode_snoc, decode_snoc, ← h, decode_pair]
        simp [Ref.decode]
      · split
        · exact ⟨hw, rfl, by rw [decode_snoc (Ref.one n :: rest)]; simp [Ref.decode]⟩
        · rename_i h1 h2; exfalso; omega
    | range a b =>
      simp only [lastOr0, Ref.last] at hl
      simp only []
      split
      · rename_i h
        refine ⟨⟨by have := hw.1; omega, hw.2⟩, rfl, ?_⟩
        rw [decode_snoc, decode_snoc, ← h, decode_range_succ a b (by have := hw.1; omega)]
        simp
      · exact ⟨hw, rfl, by rw [decode_snoc (Ref.range a b :: rest)]; simp [Ref.decode]⟩

theorem foldl_addR (ids : List Nat) (rev : List Ref) (hw : WF rev)
    (hl : ∀ id ∈ ids, lastOr0 rev < id + 1) (hs : ids.Pairwise (· < ·)) :
    decode (ids.foldl addR rev).reverse = decode rev.reverse ++ ids.map (· + 1) := by
  induction ids generalizing rev with
  | nil => simp
  | cons i ids ih =>
    obtain ⟨w, l, d⟩ := addR_step rev i hw (hl i (by simp))
    rw [List.pairwise_cons] at hs
    simp only [List.foldl_cons]
    rw [ih (addR rev i) w (by intro id hid; rw [l]; have := hs.1 id hid; omega) hs.2, d]
    simp

/-- **Range compression is lossless**: for strictly increasing row indices (the order in
    which the export visits the rows), the compressed reference cell denotes exactly those
    rows (1-based). -/
theorem decode_build (ids : List Nat) (hs : ids.Pairwise (· < ·)) :
    decode (build ids) = ids.map (· + 1) := by
  unfold build
  rw [build_eq]
  simpa [decode] using foldl_addR ids [] trivial (by intro id _; simp [lastOr0]) hs

example : build [0, 1, 2, 4, 6, 7] = [.range 1 3, .one 5, .range 7 8] := by decide
example : decode (build [0, 1, 2, 4, 6, 7]) = [1, 2, 3, 5, 7, 8] := by decide

end IGVerif.Refs
