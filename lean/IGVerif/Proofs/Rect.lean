import IGVerif.Model.TabPrint
/-! Rectangularity of `printTabularOutput`: every data line has exactly as many cell
    separators as the header line, whatever the rows, options and texts — provided the cells
    are clean (which `cleanInput`/`adjust` guarantee, see Props/C07). -/
namespace IGVerif.TabPrint
open IGVerif IGVerif.Tab

def headCell (o : POpts) (sep : Char) (h : Str × Str) : Str :=
  h.2 ++ [sep] ++ (if h.1 = kID then
    (if o.po = 1 || o.po = 2 then kOrig ++ [sep] else []) ++ (if o.ps = 1 || o.ps = 2 then kScript ++ [sep] else []) else [])

def rowCell (o : POpts) (sep : Char) (orig script : Str) (r : Row) (i : Nat) (h : Str × Str) : Str :=
  (let v := r.get h.1; if v.isEmpty then [' '] else v) ++ [sep] ++
    (if h.1 = kID then extraCell o.po (i = 0) orig sep ++ extraCell o.ps (i = 0) script sep else [])

def headLine (hdr : List (Str × Str)) (o : POpts) (sep : Char) : Str := hdr.flatMap (headCell o sep)
def rowLine (hdr : List (Str × Str)) (o : POpts) (sep : Char) (orig script : Str) (r : Row) (i : Nat) : Str :=
  hdr.flatMap (rowCell o sep orig script r i)

/-- the printer is: optional header line, then one line per row, each framed by prefix/suffix -/
theorem printRows_lines (hdr : List (Str × Str)) (rows : List Row) (orig script : Str) (o : POpts) (sep : Char)
    (pre suf : Str) :
    printRows hdr rows orig script o sep pre suf =
      (if o.headers then pre ++ headLine hdr o sep ++ suf else []) ++
      (rows.zipIdx.flatMap fun (r, i) => pre ++ ['\''] ++ rowLine hdr o sep orig script r i ++ suf) := rfl

theorem count_extra (mode : Nat) (first : Bool) (content : Str) (sep : Char)
    (hc : sep ∉ content) (hs : sep ≠ ' ') :
    (extraCell mode first content sep).count sep = if mode = 1 || mode = 2 then 1 else 0 := by
  have h0 : content.count sep = 0 := List.count_eq_zero.mpr hc
  have hs' : (' ' == sep) = false := by simp; exact fun h => hs h.symm
  match mode with
  | 0 => simp [extraCell]
  | 1 => cases first <;> simp [extraCell, h0, hs', List.count_cons]
  | 2 => simp [extraCell, h0]
  | n + 3 => simp [extraCell]

theorem count_opt (c : Bool) (name : Str) (sep : Char) (hn : sep ∉ name) :
    (if c then name ++ [sep] else []).count sep = if c then 1 else 0 := by
  cases c <;> simp [List.count_eq_zero.mpr hn]

/-- one column: the header cell and the data cell contribute the same number of separators -/
theorem cell_count (o : POpts) (sep : Char) (orig script : Str) (r : Row) (i : Nat) (h : Str × Str)
    (hname : sep ∉ h.2) (hval : sep ∉ r.get h.1) (horig : sep ∉ orig) (hscript : sep ∉ script)
    (hko : sep ∉ kOrig) (hks : sep ∉ kScript) (hsp : sep ≠ ' ') :
    (headCell o sep h).count sep = (rowCell o sep orig script r i h).count sep := by
  have hv : (if (r.get h.1).isEmpty then [' '] else r.get h.1).count sep = 0 := by
    split
    · exact List.count_eq_zero.mpr (by simp; exact hsp)
    · exact List.count_eq_zero.mpr hval
  unfold headCell rowCell
  simp only [List.count_append, List.count_eq_zero.mpr hname, hv]
  split
  · simp only [List.count_append, count_extra _ _ _ _ horig hsp, count_extra _ _ _ _ hscript hsp,
      count_opt _ _ _ hko, count_opt _ _ _ hks]
  · rfl

theorem sum_map_congr {α} (l : List α) (f g : α → Nat) (h : ∀ x ∈ l, f x = g x) : (l.map f).sum = (l.map g).sum := by
  induction l with
  | nil => rfl
  | cons a l ih => simp [h a (by simp), ih (fun x hx => h x (by simp [hx]))]

/-- **Rectangular**: a data line has exactly as many separators as the header line -/
theorem line_count (hdr : List (Str × Str)) (o : POpts) (sep : Char) (orig script : Str) (r : Row) (i : Nat)
    (hnames : ∀ h ∈ hdr, sep ∉ h.2) (hvals : ∀ h ∈ hdr, sep ∉ r.get h.1) (horig : sep ∉ orig) (hscript : sep ∉ script)
    (hko : sep ∉ kOrig) (hks : sep ∉ kScript) (hsp : sep ≠ ' ') :
    (headLine hdr o sep).count sep = (rowLine hdr o sep orig script r i).count sep := by
  unfold headLine rowLine
  rw [List.count_flatMap, List.count_flatMap]
  exact sum_map_congr hdr _ _ (fun h hh => cell_count o sep orig script r i h (hnames h hh) (hvals h hh) horig hscript hko hks hsp)

/-- a forbidden character (line break, double quote) that occurs in no cell, no header name
    and in neither of the two statement texts does not occur in a data line -/
theorem rowLine_free (bad : Char) (hdr : List (Str × Str)) (o : POpts) (sep : Char) (orig script : Str) (r : Row) (i : Nat)
    (hvals : ∀ h ∈ hdr, bad ∉ r.get h.1) (horig : bad ∉ orig) (hscript : bad ∉ script)
    (hsep : bad ≠ sep) (hsp : bad ≠ ' ') : bad ∉ rowLine hdr o sep orig script r i := by
  unfold rowLine
  simp only [List.mem_flatMap, not_exists, not_and]
  intro h hh
  have hx : ∀ (mode : Nat) (first : Bool) (content : Str), bad ∉ content → bad ∉ extraCell mode first content sep := by
    intro mode first content hc
    match mode with
    | 0 => simp [extraCell]
    | 1 => cases first <;> simp [extraCell, hc, hsep, hsp]
    | 2 => simp [extraCell, hc, hsep]
    | n + 3 => simp [extraCell]
  unfold rowCell
  simp only [List.mem_append, not_or]
  refine ⟨⟨?_, by simp [hsep]⟩, ?_⟩
  · split
    · simp [hsp]
    · exact hvals h hh
  · split
    · simp only [List.mem_append, not_or]; exact ⟨hx _ _ _ horig, hx _ _ _ hscript⟩
    · simp

example : '|' ∉ kOrig ∧ '|' ∉ kScript ∧ '|' ≠ ' ' := by decide

end IGVerif.TabPrint
