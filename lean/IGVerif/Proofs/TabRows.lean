import IGVerif.Model.Tab
import IGVerif.Proofs.OdoD
/-! Table-level consequences of the odometer theorem and of the IG Core / IG Extended switch:
    how many rows `Tab.stmtRows` produces, which ids they carry, and that IG Core adds none. -/
namespace IGVerif.Tab
open IGVerif

/-! ### generic fold facts -/

theorem foldl_snoc_length {σ : Type} (f : List Row × σ → Nat → List Row × σ)
    (hf : ∀ acc i, ∃ r, (f acc i).1 = acc.1 ++ [r]) (is : List Nat) (acc : List Row × σ) :
    (is.foldl f acc).1.length = acc.1.length + is.length := by
  induction is generalizing acc with
  | nil => simp
  | cons i is ih =>
    obtain ⟨r, hr⟩ := hf acc i
    simp only [List.foldl_cons, List.length_cons]
    rw [ih, hr]; simp; omega

theorem rowStep_snoc (o : Opts) (stmtId : Str) (stmtAnn : Option Str) (stmtLinks : Str) (cols : List Column)
    (perms : List (List LeafV)) (refs : List (List (List Bool × List Refs.Ref)))
    (acc : List Row × List Nested) (ri : Nat) :
    ∃ r, (rowStep o stmtId stmtAnn stmtLinks cols perms refs acc ri).1 = acc.1 ++ [r] := by
  unfold rowStep
  exact ⟨_, rfl⟩

/-- **One row per element of the product**: the statement's own rows are as many as the
    odometer emits permutations -/
theorem ownRows_length (o : Opts) (fs : PStmt) (stmtId : Str) (stmtAnn : Option Str) (stmtLinks : Str) :
    (ownRows o fs stmtId stmtAnn stmtLinks).1.length = (permsOf (columnsOf fs)).length := by
  unfold ownRows
  simp only []
  rw [foldl_snoc_length _ (rowStep_snoc o stmtId stmtAnn stmtLinks _ _ _)]
  simp

/-- … which is the number of ways of choosing one alternative per component column -/
theorem ownRows_card (o : Opts) (fs : PStmt) (stmtId : Str) (stmtAnn : Option Str) (stmtLinks : Str)
    (hne : columnsOf fs ≠ []) :
    (ownRows o fs stmtId stmtAnn stmtLinks).1.length = Odo.count ((columnsOf fs).map (·.alts)) := by
  rw [ownRows_length]
  unfold permsOf
  have hne' : (columnsOf fs).map (·.alts) ≠ [] := by simpa using hne
  rw [Odo.generate_eq _ hne']
  simp only [Option.getD_some, List.length_map]
  rw [Odo.length_allR, Odo.count_eq_total]

/-! ### IG Core never registers a nested statement -/

theorem addPrivate_core (o : Opts) (h : o.ext = false) (stmtId : Str) (key : List Nat) (priv : List PNode) :
    ∀ (row : Row) (reg : List Nested) (i : Nat), (addPrivate o stmtId key row reg priv i).2 = reg := by
  induction priv with
  | nil => intro row reg i; simp [addPrivate]
  | cons p ps ih =>
    intro row reg i
    cases p <;> simp [addPrivate, h, ih]

theorem leafCell_core (o : Opts) (h : o.ext = false) (stmtId : Str) (col : Column) (ci : Nat) (v : LeafV) (t : Str)
    (priv : List PNode) (row : Row) (reg : List Nested) :
    (leafCell o stmtId col ci v t priv row reg).2 = reg := by
  unfold leafCell
  simp only []
  exact addPrivate_core o h stmtId [col.field, ci] priv _ reg 0

theorem nestedEntry_core (o : Opts) (h : o.ext = false) (stmtId : Str) (col : Column) (key : Str)
    (entries : List (PNode × Link.NPath × Option Str)) (st : Row × List Nested) (ei : Nat) :
    (nestedEntry o stmtId col key entries st ei).2 = st.2 := by
  unfold nestedEntry
  simp [h]

theorem foldl_snd_inv {α β : Type} (f : α × β → Nat → α × β) (hf : ∀ st i, (f st i).2 = st.2)
    (is : List Nat) (st : α × β) : (is.foldl f st).2 = st.2 := by
  induction is generalizing st with
  | nil => rfl
  | cons i is ih => simp only [List.foldl_cons]; rw [ih, hf]

theorem nestedCell_core (o : Opts) (h : o.ext = false) (stmtId : Str) (col : Column) (v : LeafV) (n : PNode)
    (row : Row) (reg : List Nested) : (nestedCell o stmtId col v n row reg).2 = reg := by
  unfold nestedCell
  simp only []
  rw [foldl_snd_inv _ (nestedEntry_core o h stmtId col _ _)]

theorem cellStep_core (o : Opts) (h : o.ext = false) (stmtId : Str) (cols : List Column) (perm : List LeafV)
    (refs : List (List (List Bool × List Refs.Ref))) (st : Row × List Nested × List Str) (ci : Nat) :
    (cellStep o stmtId cols perm refs st ci).2.1 = st.2.1 := by
  unfold cellStep
  simp only []
  split
  · exact leafCell_core o h _ _ _ _ _ _ _ _
  · rfl
  · exact nestedCell_core o h _ _ _ _ _ _

theorem foldl_mid_inv {α β γ : Type} (f : α × β × γ → Nat → α × β × γ) (hf : ∀ st i, (f st i).2.1 = st.2.1)
    (is : List Nat) (st : α × β × γ) : (is.foldl f st).2.1 = st.2.1 := by
  induction is generalizing st with
  | nil => rfl
  | cons i is ih => simp only [List.foldl_cons]; rw [ih, hf]

theorem rowStep_core (o : Opts) (h : o.ext = false) (stmtId : Str) (stmtAnn : Option Str) (stmtLinks : Str)
    (cols : List Column) (perms : List (List LeafV)) (refs : List (List (List Bool × List Refs.Ref)))
    (acc : List Row × List Nested) (ri : Nat) :
    (rowStep o stmtId stmtAnn stmtLinks cols perms refs acc ri).2 = acc.2 := by
  unfold rowStep
  simp only []
  exact foldl_mid_inv _ (cellStep_core o h stmtId cols (perms.getD ri []) refs) (List.range cols.length) _

/-- in IG Core mode the registry of nested statements stays empty -/
theorem ownRows_core_registry (o : Opts) (h : o.ext = false) (fs : PStmt) (stmtId : Str) (stmtAnn : Option Str)
    (stmtLinks : Str) : (ownRows o fs stmtId stmtAnn stmtLinks).2 = [] := by
  unfold ownRows
  simp only []
  rw [foldl_snd_inv _ (rowStep_core o h stmtId stmtAnn stmtLinks _ _ _)]

/-- **IG Core adds no rows**: the table of a statement consists of its own atomic statements
    only, whatever it nests -/
theorem stmtRows_core (o : Opts) (h : o.ext = false) (fuel : Nat) (fs : PStmt) (stmtId : Str)
    (stmtAnn : Option Str) (stmtLinks : Str) :
    stmtRows o (fuel + 1) fs stmtId stmtAnn stmtLinks = (ownRows o fs stmtId stmtAnn stmtLinks).1 := by
  have hr := ownRows_core_registry o h fs stmtId stmtAnn stmtLinks
  unfold stmtRows
  simp only []
  generalize ownRows o fs stmtId stmtAnn stmtLinks = res at hr ⊢
  obtain ⟨rows, reg⟩ := res
  simp only [] at hr
  subst hr
  simp

/-- in both modes the table starts with the statement's own atomic statements, and these are
    equally many (the nested row groups of IG Extended follow them) -/
theorem stmtRows_own_prefix (o : Opts) (fuel : Nat) (fs : PStmt) (stmtId : Str) (stmtAnn : Option Str) (stmtLinks : Str) :
    ∃ rest, stmtRows o (fuel + 1) fs stmtId stmtAnn stmtLinks = (ownRows o fs stmtId stmtAnn stmtLinks).1 ++ rest := by
  unfold stmtRows
  simp only []
  generalize ownRows o fs stmtId stmtAnn stmtLinks = res
  obtain ⟨rows, reg⟩ := res
  exact ⟨_, rfl⟩

end IGVerif.Tab
