import IGVerif.Model.Json
import IGVerif.Spec.JsonGrammar
/-! Every document the serialiser writes is valid JSON (C08), for every tree shape, nesting
    depth and string content that went through `escape`. -/
namespace IGVerif.Json
open IGVerif IGVerif.JG

/-! ### strings -/

theorem WS_nil : WS [] := by intro c h; cases h
theorem WS_space : WS (str " ") := by intro c h; simp [str] at h; subst h; rfl
theorem WS_nl : WS (str "\n") := by intro c h; simp [str] at h; subst h; rfl
theorem WS_space_nl : WS (str " \n") := by
  intro c h; simp [str] at h; rcases h with h | h <;> subst h <;> rfl
theorem WS_append {a b : Str} (ha : WS a) (hb : WS b) : WS (a ++ b) := by
  intro c h; rcases List.mem_append.mp h with h | h
  · exact ha c h
  · exact hb c h

theorem hexDigit_hex (n : Nat) (h : n < 16) : hexChar (hexDigit n) = true := by
  have : n = 0 ∨ n = 1 ∨ n = 2 ∨ n = 3 ∨ n = 4 ∨ n = 5 ∨ n = 6 ∨ n = 7 ∨ n = 8 ∨ n = 9 ∨ n = 10 ∨ n = 11 ∨
      n = 12 ∨ n = 13 ∨ n = 14 ∨ n = 15 := by omega
  rcases this with h | h | h | h | h | h | h | h | h | h | h | h | h | h | h | h <;> subst h <;> decide

theorem body_escapeChar (c : Char) (rest : Str) (h : StrBody rest) : StrBody (escapeChar c ++ rest) := by
  unfold escapeChar
  split
  · exact StrBody.plain '\'' rest (by decide) h
  · split
    · exact StrBody.esc '\\' rest (by decide) h
    · split
      · rename_i h32
        have h16 : c.toNat / 16 < 16 := by omega
        exact StrBody.escU '0' '0' _ _ rest (by decide) (by decide) (hexDigit_hex _ h16)
          (hexDigit_hex _ (Nat.mod_lt _ (by decide))) h
      · rename_i h1 h2 h3
        refine StrBody.plain c rest ?_ h
        simp only [plainChar, Bool.and_eq_true, bne_iff_ne, ne_eq, decide_eq_true_eq]
        exact ⟨⟨h1, h2⟩, by omega⟩

/-- whatever the text, its escaped form is a legal JSON string body -/
theorem body_escape (s : Str) : StrBody (escape s) := by
  induction s with
  | nil => exact StrBody.nil
  | cons c cs ih =>
    simp only [escape, List.flatMap_cons]
    exact body_escapeChar c _ ih

theorem natStr_eq (n : Nat) : natStr n = Nat.toDigits 10 n := by
  simp [natStr]

theorem digitChar_ne_zero (n : Nat) (h0 : 0 < n) (h : n < 10) : n.digitChar ≠ '0' := by
  have : n = 1 ∨ n = 2 ∨ n = 3 ∨ n = 4 ∨ n = 5 ∨ n = 6 ∨ n = 7 ∨ n = 8 ∨ n = 9 := by omega
  rcases this with h | h | h | h | h | h | h | h | h <;> subst h <;> decide

theorem head_toDigits (n : Nat) (h : 0 < n) : (Nat.toDigits 10 n).head? ≠ some '0' := by
  induction n using Nat.strongRecOn with
  | _ n ih =>
    rw [Nat.toDigits_eq_if (by decide)]
    split
    · rename_i hlt
      simp only [List.head?_cons, ne_eq, Option.some.injEq]
      exact digitChar_ne_zero n h hlt
    · rename_i hge
      have hpos : 0 < n / 10 := Nat.div_pos (by omega) (by decide)
      have := ih (n / 10) (Nat.div_lt_self h (by decide)) hpos
      have hne : Nat.toDigits 10 (n / 10) ≠ [] := Nat.toDigits_ne_nil
      cases hd : Nat.toDigits 10 (n / 10) with
      | nil => exact absurd hd hne
      | cons c cs => rw [hd] at this; simpa using this

theorem digits_natStr (n : Nat) : digits (natStr n) := by
  rw [natStr_eq]
  refine ⟨Nat.toDigits_ne_nil, ?_, ?_⟩
  · intro c hc
    exact Nat.isDigit_of_mem_toDigits (by decide) (by decide) hc
  · intro hlen
    by_cases h0 : n = 0
    · subst h0; simp [Nat.toDigits_zero] at hlen
    · exact head_toDigits n (by omega)

theorem plain_of_digit (c : Char) (h : c.isDigit = true) : plainChar c = true := by
  simp only [Char.isDigit, Bool.and_eq_true, decide_eq_true_eq] at h
  simp only [plainChar, Bool.and_eq_true, bne_iff_ne, ne_eq, decide_eq_true_eq]
  refine ⟨⟨?_, ?_⟩, ?_⟩
  · intro e; subst e; revert h; decide
  · intro e; subst e; revert h; decide
  · have := h.1
    have e : c.toNat = c.val.toNat := rfl
    rw [e]
    exact Nat.le_trans (by decide) (UInt32.le_iff_toNat_le.mp this)

theorem body_of_digits (s : Str) (h : ∀ c ∈ s, c.isDigit = true) : StrBody s := by
  induction s with
  | nil => exact StrBody.nil
  | cons c cs ih =>
    exact StrBody.plain c cs (plain_of_digit c (h c (by simp))) (ih (fun x hx => h x (by simp [hx])))

theorem body_natStr (n : Nat) : StrBody (natStr n) :=
  body_of_digits _ (digits_natStr n).2.1

/-! ### structure -/

def IsMember (m : Str) : Prop :=
  ∃ w₁ k pv, WS w₁ ∧ StrBody k ∧ Padded pv ∧ m = w₁ ++ '"' :: k ++ '"' :: ':' :: pv

theorem padded_of_value (v : Str) (h : Value v) : Padded v := by
  have := Padded.mk [] v [] WS_nil h WS_nil
  simpa using this

theorem padded_space_value (v : Str) (h : Value v) : Padded (' ' :: v) := by
  have := Padded.mk (str " ") v [] WS_space h WS_nil
  simpa [str] using this

theorem padded_space_value_nl (v : Str) (h : Value v) : Padded (' ' :: v ++ str "\n") := by
  have := Padded.mk (str " ") v (str "\n") WS_space h WS_nl
  simpa [str] using this

theorem padded_ws_left (w s : Str) (hw : WS w) (h : Padded s) : Padded (w ++ s) := by
  cases h with
  | mk w₁ v w₂ h1 hv h2 =>
    have := Padded.mk (w ++ w₁) v w₂ (WS_append hw h1) hv h2
    simpa [List.append_assoc] using this

theorem isMember_member (pre key val : Str) (hp : WS pre) (hk : StrBody key) (hv : Value val) :
    IsMember (member pre key val) :=
  ⟨pre, key, ' ' :: val, hp, hk, padded_space_value val hv, rfl⟩

theorem isMember_member_nl (pre key val : Str) (hp : WS pre) (hk : StrBody key) (hv : Value val) :
    IsMember (member pre key val ++ str "\n") :=
  ⟨pre, key, ' ' :: val ++ str "\n", hp, hk, padded_space_value_nl val hv, by simp [member, List.append_assoc]⟩

theorem members_joinC (ms : List Str) (hne : ms ≠ []) (h : ∀ m ∈ ms, IsMember m) : Members (joinC ms) := by
  induction ms with
  | nil => exact absurd rfl hne
  | cons m rest ih =>
    obtain ⟨w₁, k, pv, h1, hk, hpv, rfl⟩ := h m (by simp)
    cases rest with
    | nil =>
      have := Members.one w₁ k [] pv h1 hk WS_nil hpv
      simpa [joinC] using this
    | cons m2 rest2 =>
      have hrest := ih (by simp) (fun x hx => h x (by simp [hx]))
      have := Members.cons w₁ k [] pv _ h1 hk WS_nil hpv hrest
      simpa [joinC, List.append_assoc] using this

theorem elements_ws_left (w es : Str) (hw : WS w) (h : Elements es) : Elements (w ++ es) := by
  cases h with
  | one _ hp => exact Elements.one _ (padded_ws_left w _ hw hp)
  | cons pv rest hp hr =>
    have := Elements.cons (w ++ pv) rest (padded_ws_left w pv hw hp) hr
    simpa [List.append_assoc] using this

theorem padded_ws_right (s w : Str) (hw : WS w) (h : Padded s) : Padded (s ++ w) := by
  cases h with
  | mk w₁ v w₂ h1 hv h2 =>
    have := Padded.mk w₁ v (w₂ ++ w) h1 hv (WS_append h2 hw)
    simpa [List.append_assoc] using this

def optBody : Option Str → Prop
  | some s => StrBody s
  | none => True

def GoodSep (sep : Str) : Prop := ∃ w, WS w ∧ sep = ',' :: w

mutual
def WFNode : JNode → Prop
  | .stmt name _ anno dov children => StrBody name ∧ optBody anno ∧ optBody dov ∧ WFList children
  | .leaf name comp _ props anno dov => StrBody name ∧ StrBody comp ∧ WFProps props ∧ optBody anno ∧ optBody dov
  | .comb op children comp _ props anno dov =>
      StrBody op ∧ StrBody comp ∧ WFList children ∧ WFProps props ∧ optBody anno ∧ optBody dov
def WFProps : Props → Prop
  | .none => True
  | .flat s => StrBody s
  | .tree cs => WFList cs
def WFList : JList → Prop
  | .nil => True
  | .cons x sep rest => WFNode x ∧ (rest = .nil ∨ GoodSep sep) ∧ WFList rest
end

theorem body_lit (s : String) (h : ∀ c ∈ s.toList, plainChar c = true) : StrBody (str s) := by
  unfold str
  generalize s.toList = l at h
  induction l with
  | nil => exact StrBody.nil
  | cons c cs ih => exact StrBody.plain c cs (h c (by simp)) (ih (fun x hx => h x (by simp [hx])))

theorem value_q (s : Str) (h : StrBody s) : Value (q s) := Value.str s h

theorem optMember_ok (pre key : Str) (v : Option Str) (hp : WS pre) (hk : StrBody key) (hv : optBody v) :
    ∀ m ∈ optMember pre key v, IsMember m := by
  intro m hm
  cases v with
  | none => simp [optMember] at hm
  | some x =>
    simp only [optMember, List.mem_singleton] at hm
    subst hm
    exact isMember_member pre key (q x) hp hk (value_q x hv)

theorem kName : StrBody (str "name") := body_lit _ (by decide)
theorem kLevel : StrBody (str "level") := body_lit _ (by decide)
theorem kAnno : StrBody (str "anno") := body_lit _ (by decide)
theorem kDov : StrBody (str "dov") := body_lit _ (by decide)
theorem kChildren : StrBody (str "children") := body_lit _ (by decide)
theorem kComp : StrBody (str "comp") := body_lit _ (by decide)
theorem kProp : StrBody (str "prop") := body_lit _ (by decide)
theorem kPos : StrBody (str "pos") := body_lit _ (by decide)
theorem kB : StrBody (str "b") := body_lit _ (by decide)

theorem value_num (n : Nat) : Value (natStr n) := Value.num _ (digits_natStr n)

mutual
theorem members_ok : ∀ (j : JNode), WFNode j → ∀ m ∈ members j, IsMember m
  | .stmt name level anno dov children, h => by
    obtain ⟨hn, ha, hd, hc⟩ := h
    intro m hm
    simp only [members, List.mem_append, List.mem_cons, List.mem_singleton, List.not_mem_nil, or_false] at hm
    rcases hm with (((hm | hm) | hm) | hm) | hm
    · subst hm; exact isMember_member _ _ _ WS_nl kName (value_q _ hn)
    · subst hm; exact isMember_member _ _ _ WS_nl kLevel (value_num level)
    · exact optMember_ok _ _ anno WS_space kAnno ha m hm
    · exact optMember_ok _ _ dov WS_space kDov hd m hm
    · subst hm; exact isMember_member_nl _ _ _ WS_space_nl kChildren (value_arr (str "\n") children WS_nl hc)
  | .leaf name comp level props anno dov, h => by
    obtain ⟨hn, hc, hp, ha, hd⟩ := h
    intro m hm
    simp only [members, List.mem_append, List.mem_cons, List.mem_singleton, List.not_mem_nil, or_false] at hm
    rcases hm with hm | hm
    · subst hm; exact isMember_member _ _ _ WS_nil kName (value_q _ hn)
    · exact tail_ok comp level props anno dov hc hp ha hd m hm
  | .comb op children comp level props anno dov, h => by
    obtain ⟨ho, hc, hch, hp, ha, hd⟩ := h
    intro m hm
    simp only [members, List.mem_append, List.mem_cons, List.mem_singleton, List.not_mem_nil, or_false] at hm
    rcases hm with (hm | hm) | hm
    · subst hm; exact isMember_member _ _ _ WS_nil kName (value_q _ ho)
    · subst hm; exact isMember_member _ _ _ WS_nl kChildren (value_arr [] children WS_nil hch)
    · exact tail_ok comp level props anno dov hc hp ha hd m hm
theorem tail_ok (comp : Str) (level : Nat) : ∀ (props : Props) (anno dov : Option Str), StrBody comp → WFProps props →
    optBody anno → optBody dov → ∀ m ∈ tailMembers comp level props anno dov, IsMember m
  | props, anno, dov, hc, hp, ha, hd => by
    intro m hm
    simp only [tailMembers, List.mem_append, List.mem_cons, List.mem_singleton, List.not_mem_nil, or_false] at hm
    rcases hm with (((hm | hm) | hm) | hm) | hm
    · subst hm; exact isMember_member _ _ _ WS_space kComp (value_q _ hc)
    · subst hm; exact isMember_member _ _ _ WS_space kLevel (value_num level)
    · exact props_ok props hp m hm
    · exact optMember_ok _ _ anno WS_space kAnno ha m hm
    · exact optMember_ok _ _ dov WS_space kDov hd m hm
theorem props_ok : ∀ (props : Props), WFProps props → ∀ m ∈ propMembers props, IsMember m
  | .none, _ => by intro m hm; simp [propMembers] at hm
  | .flat s, h => by
    intro m hm
    simp only [propMembers, List.mem_singleton] at hm
    subst hm; exact isMember_member _ _ _ WS_space kProp (value_q _ h)
  | .tree cs, h => by
    intro m hm
    simp only [propMembers, List.mem_cons, List.mem_singleton, List.not_mem_nil, or_false] at hm
    rcases hm with hm | hm
    · subst hm; exact isMember_member _ _ _ WS_space kPos (value_q _ kB)
    · subst hm; exact isMember_member _ _ _ WS_space kChildren (value_arr [] cs WS_nil h)
theorem value_arr (inner : Str) : ∀ (l : JList), WS inner → WFList l → Value (arrStr inner l)
  | .nil, _, _ => by
    have := Value.arrEmpty [] WS_nil
    simpa [arrStr] using this
  | .cons x sep rest, hi, h => by
    have he := elems_ok (.cons x sep rest) h (by simp) inner hi
    have : Elements (inner ++ (serList (.cons x sep rest) ++ inner)) := elements_ws_left _ _ hi he
    have hv := Value.arr _ this
    simpa [arrStr, List.append_assoc] using hv
theorem elems_ok : ∀ (l : JList), WFList l → l ≠ .nil → ∀ (tail : Str), WS tail → Elements (serList l ++ tail)
  | .nil, _, hne, _, _ => absurd rfl hne
  | .cons x sep .nil, h, _, tail, ht => by
    obtain ⟨hx, _, _⟩ := h
    simp only [serList]
    exact Elements.one _ (padded_ws_right _ tail ht (padded_of_value _ (value_ser x hx)))
  | .cons x sep (.cons y s2 r2), h, _, tail, ht => by
    obtain ⟨hx, hs, hr⟩ := h
    rcases hs with hs | ⟨w, hw, rfl⟩
    · cases hs
    · have hrest := elems_ok (.cons y s2 r2) hr (by simp) tail ht
      have h1 : Elements (w ++ (serList (.cons y s2 r2) ++ tail)) := elements_ws_left _ _ hw hrest
      have := Elements.cons (ser x) _ (padded_of_value _ (value_ser x hx)) h1
      simpa [serList, List.append_assoc] using this
theorem value_ser : ∀ (j : JNode), WFNode j → Value (ser j)
  | j, h => by
    have hm := members_ok j h
    have hne : members j ≠ [] := by cases j <;> simp [members]
    rw [ser]
    exact Value.obj _ (members_joinC _ hne hm)
end

end IGVerif.Json
