import IGVerif.Model.Validate
namespace IGVerif.Validate

theorem parCount_eq (l r : Char) (h : l ≠ r) (s : Str) (n : Int) :
    parCount l r s n = n + (s.count l : Int) - (s.count r : Int) := by
  induction s generalizing n with
  | nil => simp [parCount]
  | cons c cs ih =>
    simp only [parCount, List.count_cons]
    rw [ih]
    by_cases h1 : c = l
    · have h2 : ¬ c = r := fun e => h (h1.symm.trans e)
      simp [h1, h]
      omega
    · by_cases h2 : c = r
      · simp [h1, h2, Ne.symm h]
        omega
      · simp [h1, h2]

/-- **Unequal numbers of opening and closing symbols are exactly what the check rejects** -/
theorem validate_iff (l r : Char) (h : l ≠ r) (s : Str) : validate l r s = true ↔ s.count l = s.count r := by
  unfold validate
  rw [parCount_eq l r h]
  simp only [beq_iff_eq]
  omega

end IGVerif.Validate
