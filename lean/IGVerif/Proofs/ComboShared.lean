import IGVerif.Proofs.ComboChain
/-! Shared text: `(left (a [o] b) right)` — text written inside the component's parentheses but
    outside the inner combination ends up, trimmed, as the shared left / right text of the
    combination node (`extractSharedComponents` through the enclosing boundary of the next
    lower level). -/
namespace IGVerif.Combo
open IGVerif

theorem trimL_all (p : Char → Bool) (pre t : Str) (h : ∀ c ∈ pre, p c = true) : trimL p (pre ++ t) = trimL p t := by
  induction pre with
  | nil => rfl
  | cons c pre ih =>
    simp only [List.cons_append, trimL, h c (by simp), if_true]
    exact ih (fun x hx => h x (by simp [hx]))

theorem trimBoth_core (p : Char → Bool) (pre t post : Str) (hpre : ∀ c ∈ pre, p c = true)
    (hpost : ∀ c ∈ post, p c = true) (c : Char) (u : Str) (ht : t = c :: u) (hc : p c = false)
    (d : Char) (v : Str) (hr : t.reverse = d :: v) (hd : p d = false) : trimBoth p (pre ++ t ++ post) = t := by
  unfold trimBoth
  rw [List.append_assoc, trimL_all _ _ _ hpre]
  have e1 : trimL p (t ++ post) = t ++ post := by rw [ht, List.cons_append, trimL_stop _ _ _ hc]
  rw [e1, List.reverse_append, trimL_all _ _ _ (fun x hx => hpost x (by simpa using hx)), hr, trimL_stop _ _ _ hd, ← hr,
    List.reverse_reverse]

/-- shared text: plain, not empty, neither starting nor ending with white space or a bracket -/
structure SWord (t : Str) : Prop where
  plain : Plain t
  ne : t ≠ []
  hd : ∀ c, t.head? = some c → isWs c = false ∧ isIgnoredShared c = false
  lst : ∀ c, t.getLast? = some c → isWs c = false ∧ isIgnoredShared c = false

theorem SWord.split {t : Str} (h : SWord t) :
    ∃ c u d v, t = c :: u ∧ t.reverse = d :: v ∧ isWs c = false ∧ isIgnoredShared c = false ∧ isWs d = false
      ∧ isIgnoredShared d = false := by
  obtain ⟨c, u, rfl⟩ : ∃ c u, t = c :: u := by
    cases t with
    | nil => exact absurd rfl h.ne
    | cons c u => exact ⟨c, u, rfl⟩
  obtain ⟨d, v, hdv⟩ : ∃ d v, (c :: u).reverse = d :: v := by
    cases hr : (c :: u).reverse with
    | nil => simp at hr
    | cons d v => exact ⟨d, v, rfl⟩
  have h1 : (c :: u).getLast? = some d := by rw [← List.head?_reverse, hdv]; rfl
  exact ⟨c, u, d, v, rfl, hdv, (h.hd c rfl).1, (h.hd c rfl).2, (h.lst d h1).1, (h.lst d h1).2⟩

theorem cleanShared_pre (l : Option Str) (h : ∀ t, l = some t → SWord t) : cleanShared (optPre l ++ ['(']) = optList l := by
  cases l with
  | none => simpa [optPre, optList, sp] using cleanShared_left 0
  | some t =>
    obtain ⟨c, u, d, v, ht, hr, hwc, hic, hwd, hid⟩ := (h t rfl).split
    have e1 : trimBoth isIgnoredShared (optPre (some t) ++ ['(']) = t ++ [' '] := by
      have := trimBoth_core isIgnoredShared [] (t ++ [' ']) ['('] (by simp) (by simp [isIgnoredShared]) c (u ++ [' '])
        (by rw [ht]; rfl) hic ' ' t.reverse (by simp) (by decide)
      simpa [optPre] using this
    have e2 : trimWs (t ++ [' ']) = t := by
      have := trimBoth_core isWs [] t [' '] (by simp) (by simp [isWs]) c u ht hwc d v hr hwd
      simpa [trimWs] using this
    simp [cleanShared, e1, e2, (h t rfl).ne, optList]

theorem cleanShared_post (r : Option Str) (h : ∀ t, r = some t → SWord t) : cleanShared (')' :: optPost r) = optList r := by
  cases r with
  | none => simpa [optPost, optList, sp] using cleanShared_right 0
  | some t =>
    obtain ⟨c, u, d, v, ht, hr, hwc, hic, hwd, hid⟩ := (h t rfl).split
    have e1 : trimBoth isIgnoredShared (')' :: optPost (some t)) = ' ' :: t := by
      have := trimBoth_core isIgnoredShared [')'] (' ' :: t) [] (by simp [isIgnoredShared]) (by simp) ' ' t rfl (by decide)
        d (v ++ [' ']) (by simp [hr]) hid
      simpa [optPost] using this
    have e2 : trimWs (' ' :: t) = t := by
      have := trimBoth_core isWs [' '] t [] (by simp [isWs]) (by simp) c u ht hwc d v hr hwd
      simpa [trimWs] using this
    simp [cleanShared, e1, e2, (h t rfl).ne, optList]

theorem plain_optPre (l : Option Str) (h : ∀ t, l = some t → SWord t) : Plain (optPre l) := by
  cases l with
  | none => intro c hc; simp [optPre] at hc
  | some t => exact plain_append (h t rfl).plain (by intro c hc; simp at hc; subst hc; decide)

theorem plain_optPost (r : Option Str) (h : ∀ t, r = some t → SWord t) : Plain (optPost r) := by
  cases r with
  | none => intro c hc; simp [optPost] at hc
  | some t =>
    have : optPost (some t) = [' '] ++ t := rfl
    rw [this]
    exact plain_append (by intro c hc; simp at hc; subst hc; decide) (h t rfl).plain

/-- text of `(l (a [o] b) r)` -/
def sharedText (sl : Option Str) (o : Op3) (a b : Expr) (sr : Option Str) : Str :=
  '(' :: (optPre sl ++ (renderE (.comb o a b) ++ (optPost sr ++ [')'])))

theorem render_shared (sl sr : Option Str) (o : Op3) (a b : Expr) :
    renderE (.shared sl (.comb o a b) sr) = sharedText sl o a b sr := by
  simp [sharedText, renderE]

/-- the outer boundary of the shared form: no operator, not complete -/
def outerBnd (q : Nat) : Bnd := { left := 1, right := q, op := 0, opVal := [], complete := false }

theorem scan_shared (sl sr : Option Str) (o : Op3) (a b : Expr) (ha : Bin a) (hb : Bin b)
    (hsl : ∀ t, sl = some t → SWord t) (hsr : ∀ t, sr = some t → SWord t) :
    ∃ lm', scan '(' ')' (sharedText sl o a b sr) 0 {} = .done lm'
      ∧ lm'[0]? = some [outerBnd (1 + (optPre sl).length + (renderE (.comb o a b)).length + (optPost sr).length)]
      ∧ lm'[1]? = some [bnd o a b (1 + (optPre sl).length)] := by
  unfold sharedText
  rw [scan_open, scan_plain _ _ _ _ (plain_optPre sl hsl)]
  have hlm1 : openAt ([] : LM) 0 { left := 0 + 1 } = [[{ left := 1 }]] := by simp [openAt]
  simp only [List.length_nil, hlm1]
  obtain ⟨lm2, hs2, hE2⟩ := scan_render (.comb o a b) (.comb o a b ha hb) (optPost sr ++ [')']) (0 + 1 + (optPre sl).length)
    { modes := [.left], lm := [[{ left := 1 }]], gpar := (0 : Int) + 1 } (by simp)
  rw [hs2, scan_plain _ _ _ _ (plain_optPost sr hsr)]
  have hat0 : lm2[0]? = some ([] ++ [({ left := 1 } : Bnd)]) := by
    have := hE2.low 0 (by simp)
    simpa using this
  have hat1 : lm2[1]? = some ([] ++ [bnd o a b (1 + (optPre sl).length)]) := by
    have := hE2.at_
    simp only [List.length_cons, List.length_nil] at this
    have h1 : ([[({ left := 1 } : Bnd)]] : LM)[0 + 1]? = none := by simp
    rw [h1] at this
    simp only [Option.getD_none, List.nil_append, ents_comb] at this
    have e : 0 + 1 + (optPre sl).length = 1 + (optPre sl).length := by omega
    rw [e] at this
    exact some_of_getD_append lm2 1 [] _ (by simpa using this)
  have hc := length_render_comb o a b
  rw [scan_close _ _ _ .left [] [] _ rfl hat0 (by simp; omega)]
  refine ⟨_, by rw [scan], ?_, ?_⟩
  · dsimp only [List.length_nil]
    rw [getElem?_modAt_eq, hat0]
    simp [modLast, outerBnd]
  · dsimp only [List.length_nil]
    rw [getElem?_modAt_ne _ _ _ _ (by simp), hat1]
    simp

theorem parCount_shared (sl sr : Option Str) (o : Op3) (a b : Expr) (ha : Bin a) (hb : Bin b)
    (hsl : ∀ t, sl = some t → SWord t) (hsr : ∀ t, sr = some t → SWord t) :
    Validate.parCount '(' ')' (sharedText sl o a b sr) 0 = 0 := by
  unfold sharedText
  rw [Validate.parCount]
  simp only [if_true]
  rw [parCount_nopar _ _ _ (plain_optPre sl hsl).noPar, parCount_render _ (.comb o a b ha hb),
    parCount_nopar _ _ _ (plain_optPost sr hsr).noPar]
  simp [Validate.parCount]

/-- `detectCombinations` on the shared form, with any fuel: no rewriting, the level map holds the
    incomplete outer boundary on level 1 and the combination on level 2 -/
theorem detect_shared (sl sr : Option Str) (o : Op3) (a b : Expr) (ha : Bin a) (hb : Bin b)
    (hsl : ∀ t, sl = some t → SWord t) (hsr : ∀ t, sr = some t → SWord t) (fuel : Nat) :
    ∃ rest, detect '(' ')' fuel (sharedText sl o a b sr)
      = .ok ([outerBnd (1 + (optPre sl).length + (renderE (.comb o a b)).length + (optPost sr).length)]
              :: [bnd o a b (1 + (optPre sl).length)] :: rest) (sharedText sl o a b sr) := by
  obtain ⟨lm', hsc, h0, h1⟩ := scan_shared sl sr o a b ha hb hsl hsr
  have hpc := parCount_shared sl sr o a b ha hb hsl hsr
  obtain ⟨x0, x1, rest, hlm⟩ : ∃ x0 x1 rest, lm' = x0 :: x1 :: rest := by
    cases lm' with
    | nil => simp at h0
    | cons x0 t =>
      cases t with
      | nil => simp at h1
      | cons x1 rest => exact ⟨x0, x1, rest, rfl⟩
  subst hlm
  simp only [List.getElem?_cons_zero, List.getElem?_cons_succ, Option.some.injEq] at h0 h1
  subst h0 h1
  refine ⟨rest, ?_⟩
  rw [detect]
  simp only [hpc, hsc]
  simp

/-- what `ParseIntoNodeTree` builds from that level map -/
theorem afterDetect_shared (sl sr : Option Str) (o : Op3) (a b : Expr) (ha : BinW a) (hb : BinW b)
    (hsl : ∀ t, sl = some t → SWord t) (hsr : ∀ t, sr = some t → SWord t) (nested : Bool) (f : Nat)
    (hf : depth (.comb o a b) ≤ f + 1) (rest : LM) :
    afterDetect '(' ')' (parse false f) nested
        (.ok ([outerBnd (1 + (optPre sl).length + (renderE (.comb o a b)).length + (optPost sr).length)]
              :: [bnd o a b (1 + (optPre sl).length)] :: rest) (sharedText sl o a b sr))
      = .res ⟨.comb o.str (optList sl) (optList sr) (treeOf a) (treeOf b), sharedText sl o a b sr, cNoError⟩ := by
  simp only [depth] at hf
  -- the text around the combination
  have hpre : ('(' :: optPre sl).length = 1 + (optPre sl).length := by simp; omega
  have hI : sharedText sl o a b sr = ('(' :: optPre sl) ++ renderE (.comb o a b) ++ (optPost sr ++ [')']) := by
    simp [sharedText]
  have hc := length_render_comb o a b
  have hbr : (o.br).length = o.str.length + 2 := by simp [Op3.br]
  -- shared text through the enclosing boundary
  have hl : slice (sharedText sl o a b sr) 1 (1 + (optPre sl).length + 1) = optPre sl ++ ['('] :=
    slice_of _ ['('] (optPre sl ++ ['(']) (renderE a ++ ' ' :: o.br ++ ' ' :: renderE b ++ ')' :: optPost sr ++ [')']) _ _
      (by simp [sharedText, renderE]) (by simp) (by simp; omega)
  have hr : slice (sharedText sl o a b sr) (1 + (optPre sl).length + (renderE a).length + (renderE b).length + o.str.length + 5)
      (1 + (optPre sl).length + (renderE (.comb o a b)).length + (optPost sr).length) = ')' :: optPost sr :=
    slice_of _ ('(' :: optPre sl ++ '(' :: renderE a ++ ' ' :: o.br ++ ' ' :: renderE b) (')' :: optPost sr) [')'] _ _
      (by simp [sharedText, renderE]) (by simp [hbr]; omega) (by simp [hbr, hc]; omega)
  have hsh : extractShared (('(' :: optPre sl) ++ renderE (.comb o a b) ++ (optPost sr ++ [')']))
      ([outerBnd (1 + (optPre sl).length + (renderE (.comb o a b)).length + (optPost sr).length)]
        :: [bnd o a b (1 + (optPre sl).length)] :: rest) 1 0
      [bnd o a b ('(' :: optPre sl).length] (bnd o a b ('(' :: optPre sl).length) = (optList sl, optList sr) := by
    rw [← hI, hpre]
    have hfind : (List.find? (fun v => decide (v.left < (bnd o a b (1 + (optPre sl).length)).left)
          && decide (v.right > (bnd o a b (1 + (optPre sl).length)).right) && v.opVal == [])
        [outerBnd (1 + (optPre sl).length + (renderE (.comb o a b)).length + (optPost sr).length)])
        = some (outerBnd (1 + (optPre sl).length + (renderE (.comb o a b)).length + (optPost sr).length)) := by
      have c1 : 1 < 1 + (optPre sl).length + 1 := by omega
      have c2 : 1 + (optPre sl).length + (renderE (.comb o a b)).length + (optPost sr).length
          > 1 + (optPre sl).length + (renderE a).length + (renderE b).length + o.str.length + 5 := by omega
      simp [List.find?, outerBnd, bnd, c1, c2]
    simp only [extractShared, enclosing, List.getElem?_cons_zero, Option.getD_some, hfind, if_true, Nat.zero_add,
      List.getElem?_cons_succ, List.getElem?_nil]
    simp only [outerBnd, bnd, hl, hr, cleanShared_pre sl hsl, cleanShared_post sr hsr]
  have := procEntries_comb o a b ha hb f ('(' :: optPre sl) (optPost sr ++ [')']) nested
    ([outerBnd (1 + (optPre sl).length + (renderE (.comb o a b)).length + (optPost sr).length)]
        :: [bnd o a b (1 + (optPre sl).length)] :: rest) 1 (optList sl) (optList sr)
    (fun o' l' r' h a' b' => parse_render_aux a ha o' l' r' h f a' b' true (by omega))
    (fun o' l' r' h a' b' => parse_render_aux b hb o' l' r' h f a' b' true (by omega)) hsh
  rw [← hI, hpre] at this
  rw [afterDetect]
  simp only [List.isEmpty_cons, Bool.false_eq_true, if_false, firstComplete, List.any_cons, List.any_nil, Bool.or_false,
    outerBnd, bnd, if_true]
  simp only [outerBnd, bnd] at this
  exact this

/-- **Shared text.** `(l (a [o] b) r)` is parsed into the combination node of `a` and `b` that
    carries `l` as shared left and `r` as shared right text (either may be absent). -/
theorem parse_shared (sl sr : Option Str) (o : Op3) (a b : Expr) (ha : BinW a) (hb : BinW b)
    (hsl : ∀ t, sl = some t → SWord t) (hsr : ∀ t, sr = some t → SWord t) (nested : Bool) (fuel : Nat)
    (hf : depth (.comb o a b) ≤ fuel) :
    parse false fuel (renderE (.shared sl (.comb o a b) sr)) nested
      = .res ⟨.comb o.str (optList sl) (optList sr) (treeOf a) (treeOf b), renderE (.shared sl (.comb o a b) sr), cNoError⟩ := by
  cases fuel with
  | zero => simp [depth] at hf
  | succ f =>
    rw [render_shared]
    have hT : sharedText sl o a b sr
        = ('(' :: optPre sl ++ '(' :: renderE a ++ [' ']) ++ o.br ++ (' ' :: renderE b ++ ')' :: optPost sr ++ [')']) := by
      simp [sharedText, renderE]
    have hu := parse_unfold o ('(' :: optPre sl ++ '(' :: renderE a ++ [' ']) (' ' :: renderE b ++ ')' :: optPost sr ++ [')']) f nested
    rw [← hT] at hu
    obtain ⟨rest, hd⟩ := detect_shared sl sr o a b ha.bin hb.bin hsl hsr ((sharedText sl o a b sr).length + 1)
    rw [hu, hd]
    exact afterDetect_shared sl sr o a b ha hb hsl hsr nested f hf rest

/-- the tree of the shared form is its documented meaning -/
theorem toP_shared (sl sr : Option Str) (o : Op3) (a b : Expr) (ha : BinW a) (hb : BinW b) :
    toP (.comb o.str (optList sl) (optList sr) (treeOf a) (treeOf b)) = denoteE [] [] (.shared sl (.comb o a b) sr) := by
  simp [toP, denoteE, toP_treeOf a ha, toP_treeOf b hb]

end IGVerif.Combo
