import IGVerif.Model.Tab
/-! `printTabularOutput`, `generateCSVOutput`, `generateGoogleSheetsOutput`, `CleanInput`,
    and the static header, code-shaped. Header tables (symbol order, names, static schema) are
    parameters; the driver passes the regenerated facts. -/
namespace IGVerif.TabPrint
open IGVerif IGVerif.Tab

/-- `CleanInput(input, separator)`: first every `\r?\n|\r` becomes a blank, then the
    separator is deleted. One left-to-right pass; `prevCR` remembers that the previous
    character was a carriage return (so that a following line feed belongs to it). -/
def cleanAux (sep : Char) : Bool → Str → Str
  | _, [] => []
  | prevCR, c :: rest =>
    if c = '\r' then ' ' :: cleanAux sep true rest
    else if c = '\n' then (if prevCR then cleanAux sep false rest else ' ' :: cleanAux sep false rest)
    else if c = sep then cleanAux sep false rest
    else c :: cleanAux sep false rest

def cleanInput (sep : Char) (s : Str) : Str := cleanAux sep false s

structure POpts where
  gs : Bool := false
  headers : Bool := true
  /-- 0 none, 1 first entry, 2 all entries, 3 any other string (column without content) -/
  po : Nat := 0
  ps : Nat := 0
  deriving Repr, BEq, Inhabited

def kOrig : Str := str "Original Statement"
def kScript : Str := str "IG Script Encoding"

/-- static header: symbols of `IGComponentSymbols` that the static schema lists (annotation
    columns only with annotations on), framed by the id and the two linkage columns -/
def header (symbols : List (Str × Str)) (schema : List (Str × Bool)) (ann : Bool) : List (Str × Str) :=
  let cols := symbols.filter fun s => schema.any (fun e => e.1 = s.1 && (!e.2 || ann))
  (kID, kID) :: cols ++ [(kLinkStmts, kLinkStmts), (kLinkComps, kLinkComps)]

def extraCell (mode : Nat) (first : Bool) (content : Str) (sep : Char) : Str :=
  match mode with
  | 0 => []
  | 1 => (if first then content else [' ']) ++ [sep]
  | 2 => content ++ [sep]
  | _ => []

/-- `printTabularOutput` -/
def printRows (hdr : List (Str × Str)) (rows : List Row) (orig script : Str) (o : POpts) (sep : Char)
    (rowPrefix rowSuffix : Str) : Str :=
  let head : Str :=
    if o.headers then
      rowPrefix ++ (hdr.flatMap fun h =>
        h.2 ++ [sep] ++ (if h.1 = kID then
          (if o.po = 1 || o.po = 2 then kOrig ++ [sep] else []) ++ (if o.ps = 1 || o.ps = 2 then kScript ++ [sep] else []) else [])) ++ rowSuffix
    else []
  let body := (rows.zipIdx.flatMap fun (r, i) =>
    rowPrefix ++ ['\''] ++ (hdr.flatMap fun h =>
      (let v := r.get h.1; if v.isEmpty then [' '] else v) ++ [sep] ++
      (if h.1 = kID then extraCell o.po (i = 0) orig sep ++ extraCell o.ps (i = 0) script sep else [])) ++ rowSuffix)
  head ++ body

/-- `generateCSVOutput` / `generateGoogleSheetsOutput` for one result -/
def output (hdr : List (Str × Str)) (rows : List Row) (orig script : Str) (o : POpts) (sep : Char) : Str :=
  let orig' := adjust o.gs orig
  let script' := adjust o.gs script
  if o.gs then
    printRows hdr rows orig' script' o sep (str "=SPLIT(\"") (str "\"; \"" ++ [sep] ++ str "\")\n")
  else
    printRows hdr rows orig' script' o sep [] ['\n']

end IGVerif.TabPrint
