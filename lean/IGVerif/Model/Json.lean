import IGVerif.Basic
/-! The JSON document the visual export writes, as a tree (`JNode`), and the serialiser that
    reproduces the hand-placed separators of `IGTreePrinter.go` byte for byte. -/
namespace IGVerif.Json
open IGVerif

mutual
inductive Props
  | none
  | flat (s : Str)            -- `, "prop": "…"`
  | tree (children : JList)   -- `, "pos": "b", "children": […]`
inductive JNode
  /-- `Statement.PrintTree`: root / nested statement object -/
  | stmt (name : Str) (level : Nat) (anno dov : Option Str) (children : JList)
  /-- leaf value object -/
  | leaf (name comp : Str) (level : Nat) (props : Props) (anno dov : Option Str)
  /-- operator object with its (possibly spliced) children -/
  | comb (op : Str) (children : JList) (comp : Str) (level : Nat) (props : Props) (anno dov : Option Str)
/-- sibling list; `sep` is the separator the printer wrote after `x` (used when more follow) -/
inductive JList
  | nil
  | cons (x : JNode) (sep : Str) (rest : JList)
end

def JList.isNil : JList → Bool
  | .nil => true
  | _ => false

def JList.append : JList → JList → JList
  | .nil, ys => ys
  | .cons x sep rest, ys => .cons x sep (JList.append rest ys)

/-- set the separator after the last element -/
def JList.withLastSep (sep : Str) : JList → JList
  | .nil => .nil
  | .cons x _ .nil => .cons x sep .nil
  | .cons x s rest => .cons x s (JList.withLastSep sep rest)

def JList.toList : JList → List JNode
  | .nil => []
  | .cons x _ rest => x :: rest.toList

def JList.single (x : JNode) : JList := .cons x [] .nil

instance : Inhabited JNode := ⟨.leaf [] [] 0 .none none none⟩

/-- `escapeForTreeOutput`: quotes become apostrophes, backslashes are doubled, control
    characters are written as \u00XX -/
def hexDigit (n : Nat) : Char := if n < 10 then Char.ofNat (48 + n) else Char.ofNat (87 + n)

def escapeChar (c : Char) : Str :=
  if c = '"' then ['\'']
  else if c = '\\' then ['\\', '\\']
  else if c.toNat < 32 then ['\\', 'u', '0', '0', hexDigit (c.toNat / 16), hexDigit (c.toNat % 16)]
  else [c]

def escape (s : Str) : Str := s.flatMap escapeChar

def q (s : Str) : Str := '"' :: s ++ ['"']

def optMember (pre : Str) (key : Str) (v : Option Str) (post : Str) : Str :=
  match v with
  | some x => pre ++ q key ++ str ": " ++ q x ++ post
  | none => []

mutual
def ser : JNode → Str
  | .stmt name level anno dov children =>
    str "{\n" ++ q (str "name") ++ str ": " ++ q name ++ str ",\n" ++
    q (str "level") ++ str ": " ++ natStr level ++ str ", " ++
    optMember [] (str "anno") anno (str ", ") ++ optMember [] (str "dov") dov (str ", ") ++
    str "\n" ++ q (str "children") ++ str ": [" ++
    (match children with
     | .nil => []
     | cs => str "\n" ++ serList cs ++ str "\n") ++
    str "]\n}"
  | .leaf name comp level props anno dov =>
    '{' :: q (str "name") ++ str ": " ++ q name ++ serTail comp level props anno dov
  | .comb op children comp level props anno dov =>
    '{' :: q (str "name") ++ str ": " ++ q op ++ str ",\n" ++ q (str "children") ++ str ": [" ++
    serList children ++ [']'] ++ serTail comp level props anno dov
def serTail (comp : Str) (level : Nat) (props : Props) (anno dov : Option Str) : Str :=
  str ", " ++ q (str "comp") ++ str ": " ++ q comp ++ str ", " ++ q (str "level") ++ str ": " ++ natStr level ++
  serProps props ++ optMember (str ", ") (str "anno") anno [] ++ optMember (str ", ") (str "dov") dov [] ++ ['}']
def serProps : Props → Str
  | .none => []
  | .flat s => str ", " ++ q (str "prop") ++ str ": " ++ q s
  | .tree cs => str ", " ++ q (str "pos") ++ str ": " ++ q (str "b") ++ str ", " ++ q (str "children") ++ str ": [" ++
      serList cs ++ [']']
def serList : JList → Str
  | .nil => []
  | .cons x _ .nil => ser x
  | .cons x sep rest => ser x ++ sep ++ serList rest
end

end IGVerif.Json
