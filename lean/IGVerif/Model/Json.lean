import IGVerif.Basic
/-! The JSON document the visual export writes, as a tree (`JNode`), and the serialiser that
    reproduces the hand-placed separators of `IGTreePrinter.go` byte for byte. -/
namespace IGVerif.Json
open IGVerif

mutual
inductive Props
  | none
  | flat (s : Str)            -- `, "prop": "…"`
  | tree (children : JList)   -- `, "pos": "b", "children": […]`
inductive JNode
  /-- `Statement.PrintTree`: root / nested statement object -/
  | stmt (name : Str) (level : Nat) (anno dov : Option Str) (children : JList)
  /-- leaf value object -/
  | leaf (name comp : Str) (level : Nat) (props : Props) (anno dov : Option Str)
  /-- operator object with its (possibly spliced) children -/
  | comb (op : Str) (children : JList) (comp : Str) (level : Nat) (props : Props) (anno dov : Option Str)
/-- sibling list; `sep` is the separator the printer wrote after `x` (used when more follow) -/
inductive JList
  | nil
  | cons (x : JNode) (sep : Str) (rest : JList)
end

def JList.isNil : JList → Bool
  | .nil => true
  | _ => false

def JList.append : JList → JList → JList
  | .nil, ys => ys
  | .cons x sep rest, ys => .cons x sep (JList.append rest ys)

/-- set the separator after the last element -/
def JList.withLastSep (sep : Str) : JList → JList
  | .nil => .nil
  | .cons x _ .nil => .cons x sep .nil
  | .cons x s rest => .cons x s (JList.withLastSep sep rest)

def JList.toList : JList → List JNode
  | .nil => []
  | .cons x _ rest => x :: rest.toList

def JList.single (x : JNode) : JList := .cons x [] .nil

instance : Inhabited JNode := ⟨.leaf [] [] 0 .none none none⟩

/-- `escapeForTreeOutput`: quotes become apostrophes, backslashes are doubled, control
    characters are written as \u00XX -/
def hexDigit (n : Nat) : Char := if n < 10 then Char.ofNat (48 + n) else Char.ofNat (87 + n)

def escapeChar (c : Char) : Str :=
  if c = '"' then ['\'']
  else if c = '\\' then ['\\', '\\']
  else if c.toNat < 32 then ['\\', 'u', '0', '0', hexDigit (c.toNat / 16), hexDigit (c.toNat % 16)]
  else [c]

def escape (s : Str) : Str := s.flatMap escapeChar

def q (s : Str) : Str := '"' :: s ++ ['"']

/-- one object member: leading whitespace, quoted key, `: `, value text -/
def member (pre key val : Str) : Str := pre ++ '"' :: key ++ '"' :: ':' :: ' ' :: val

def optMember (pre key : Str) (v : Option Str) : List Str :=
  match v with
  | some x => [member pre key (q x)]
  | none => []

/-- comma-joined -/
def joinC : List Str → Str
  | [] => []
  | [x] => x
  | x :: xs => x ++ ',' :: joinC xs

mutual
/-- the members of the object a node is written as, in order -/
def members : JNode → List Str
  | .stmt name level anno dov children =>
    [member (str "\n") (str "name") (q name), member (str "\n") (str "level") (natStr level)] ++
    optMember (str " ") (str "anno") anno ++ optMember (str " ") (str "dov") dov ++
    [member (str " \n") (str "children") (arrStr (str "\n") children) ++ str "\n"]
  | .leaf name comp level props anno dov =>
    [member [] (str "name") (q name)] ++ tailMembers comp level props anno dov
  | .comb op children comp level props anno dov =>
    [member [] (str "name") (q op), member (str "\n") (str "children") (arrStr [] children)] ++
    tailMembers comp level props anno dov
def tailMembers (comp : Str) (level : Nat) (props : Props) (anno dov : Option Str) : List Str :=
  [member (str " ") (str "comp") (q comp), member (str " ") (str "level") (natStr level)] ++
  propMembers props ++ optMember (str " ") (str "anno") anno ++ optMember (str " ") (str "dov") dov
def propMembers : Props → List Str
  | .none => []
  | .flat s => [member (str " ") (str "prop") (q s)]
  | .tree cs => [member (str " ") (str "pos") (q (str "b")), member (str " ") (str "children") (arrStr [] cs)]
/-- `[` inner items inner `]`; `inner` (a line break or nothing) only around a non-empty list -/
def arrStr (inner : Str) : JList → Str
  | .nil => ['[', ']']
  | .cons x sep rest => '[' :: inner ++ serList (.cons x sep rest) ++ inner ++ [']']
def ser (j : JNode) : Str := '{' :: joinC (members j) ++ ['}']
def serList : JList → Str
  | .nil => []
  | .cons x _ .nil => ser x
  | .cons x sep rest => ser x ++ sep ++ serList rest
end

end IGVerif.Json
