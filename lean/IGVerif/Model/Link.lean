import IGVerif.Model.PTree
/-! `tree.FindLogicalLinkage` / `searchUpward` / `searchDownward` on pure trees
    (node identity = path), code-shaped including the redundant grandchild probes, and the
    path-operator specification. Steps: 0 = Left, 1 = Right, 2+i = entry i of a `[]*Node`
    leaf (expanded component-pair statements). -/
namespace IGVerif.Link

abbrev NPath := List Nat

def sub : PNode → NPath → Option PNode
  | n, [] => some n
  | .comb _ _ _ _ _ l _, 0 :: p => sub l p
  | .comb _ _ _ _ _ _ r, 1 :: p => sub r p
  | .pairs _ ns, (i + 2) :: p => match ns[i]? with | some n => sub n p | none => none
  | _, _ :: _ => none

def opAt (t : PNode) (p : NPath) : Option Str :=
  match sub t p with
  | some (.comb op _ _ _ _ _ _) => if op = [] then none else some op
  | _ => none

def pushOp (ops : List Str) (o : Str) : List Str := if o = [] then ops else ops ++ [o]

/-- first successful search among the entries of a `[]*Node` leaf, in order; `f n i` searches
    entry `n` at index `i` -/
def firstFound (f : PNode → Nat → Bool × List Str) : List PNode → Nat → List Str → Bool × List Str
  | [], _, ops => (false, ops)
  | n :: rest, i, ops => let r := f n i; if r.1 then r else firstFound f rest (i + 1) ops

/-- Go `searchDownward(origin, lastNode, startNode, target, opsPath)`; `s` = subtree at `start`. -/
def down (fuel : Nat) (s : PNode) (start last target : NPath) (ops : List Str) : Bool × List Str :=
  match fuel with
  | 0 => (false, ops)
  | fuel + 1 =>
  if start = target then (true, ops) else
  match s with
  | .comb op _ _ _ _ l r =>
    let ops1 := pushOp ops op
    let leftRes : Option (Bool × List Str) :=
      if start ++ [0] ≠ last then
        let r1 := down fuel l (start ++ [0]) (start ++ [0]) target ops1
        if r1.1 then some r1 else
        -- the two redundant probes `startNode.Left.Left` / `startNode.Left.Right`
        match l with
        | .comb _ _ _ _ _ ll lr =>
          let r2 := down fuel ll (start ++ [0, 0]) (start ++ [0, 0]) target r1.2
          if r2.1 then some r2 else
          let r3 := down fuel lr (start ++ [0, 1]) (start ++ [0, 1]) target r1.2
          if r3.1 then some r3 else none
        | _ => none
      else none
    match leftRes with
    | some x => x
    | none =>
      let rightRes : Option (Bool × List Str) :=
        if start ++ [1] ≠ last then
          let r1 := down fuel r (start ++ [1]) (start ++ [1]) target ops1
          if r1.1 then some r1 else
          match r with
          | .comb _ _ _ _ _ rl rr =>
            let r2 := down fuel rl (start ++ [1, 0]) (start ++ [1, 0]) target r1.2
            if r2.1 then some r2 else
            let r3 := down fuel rr (start ++ [1, 1]) (start ++ [1, 1]) target r1.2
            if r3.1 then some r3 else none
          | _ => none
        else none
      match rightRes with
      | some x => x
      | none => (false, ops1)
  | .pairs _ ns => firstFound (fun n i => down fuel n (start ++ [i + 2]) start target ops) ns 0 ops
  | _ => (false, ops)

def pushOpt (ops : List Str) : Option Str → List Str
  | some op => ops ++ [op]
  | none => ops

/-- Go `searchUpward(origin, lastNode, target, opsPath)`; `rlast` is the path of `lastNode`
    in reverse (innermost step first), so that the parent is its tail. -/
def upR (fuel : Nat) (t : PNode) : (rlast : List Nat) → (target : NPath) → List Str → Bool × List Str
  | [], _, ops => (false, ops)
  | c :: rpar, target, ops =>
    let parent := rpar.reverse
    match sub t parent with
    | none => (false, ops)
    | some s =>
      let r := down fuel s parent (parent ++ [c]) target ops
      if r.1 then r else
      upR fuel t rpar target (pushOpt ops (opAt t parent))

def up (fuel : Nat) (t : PNode) (last target : NPath) (ops : List Str) : Bool × List Str :=
  upR fuel t last.reverse target ops

def size : PNode → Nat
  | .comb _ _ _ _ _ l r => 1 + size l + size r
  | _ => 3

/-- `FindLogicalLinkage(source, target)` inside tree `t`; `(found, ops)` -/
def find (t : PNode) (src tgt : NPath) : Bool × List Str :=
  let fuel := 2 * size t + 8
  match sub t src with
  | none => (false, [])
  | some s =>
    let d := down fuel s src src tgt []
    if d.1 then d else
    let u := up fuel t src tgt []
    if u.1 then u else (false, [])

/-- `tree.CollapseAdjacentOperators(ops, [AND, bAND, wAND])` -/
def collapsible (o : Str) : Bool := o = opAND || o = opBAND || o = opWAND

def collapse : List Str → List Str
  | [] => []
  | [x] => [x]
  | x :: y :: rest => if collapsible x && collapsible y then collapse (x :: rest) else x :: collapse (y :: rest)

/-! specification: the operators on the tree path between two nodes -/

def commonPrefix : NPath → NPath → NPath
  | a :: as, b :: bs => if a = b then a :: commonPrefix as bs else []
  | _, _ => []

/-- operators of the proper ancestors of `p` at depth ≥ `k`, bottom-up -/
def upOps (t : PNode) (p : NPath) (k : Nat) : List Str :=
  ((List.range p.length).reverse.filter (· ≥ k)).filterMap (fun i => opAt t (p.take i))

/-- operators of the proper ancestors of `q` at depth > `k`, top-down -/
def downOps (t : PNode) (q : NPath) (k : Nat) : List Str :=
  ((List.range q.length).filter (· > k)).filterMap (fun i => opAt t (q.take i))

def pathOps (t : PNode) (p q : NPath) : List Str :=
  let k := (commonPrefix p q).length
  upOps t p k ++ downOps t q k

def toNPath (p : List Bool) : NPath := p.map (fun b => if b then 1 else 0)

end IGVerif.Link
