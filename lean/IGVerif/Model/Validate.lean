import IGVerif.Basic
/-! `parser.validateInput`: the balance check of parentheses / braces that runs before anything
    else is parsed (one counter, +1 for an opening and −1 for a closing symbol, zero at the end). -/
namespace IGVerif.Validate

def parCount (l r : Char) : Str → Int → Int
  | [], n => n
  | c :: cs, n => parCount l r cs (if c = l then n + 1 else if c = r then n - 1 else n)

/-- `true` = accepted (PARSING_NO_ERROR), `false` = IMBALANCED_PARENTHESES -/
def validate (l r : Char) (s : Str) : Bool := parCount l r s 0 == 0

/-- both checks of `ParseStatement` -/
def validateBoth (s : Str) : Bool := validate '(' ')' s && validate '{' '}' s

end IGVerif.Validate
