import IGVerif.Model.PTree
/-! Degree of Variability: `Node.CalculateStateComplexity` and `Statement.CalculateComplexity`. -/
namespace IGVerif.Dov
open IGVerif

/-- fields whose value enters `leadingStmtStates`, in the order of the Go slice literal -/
def leadingFields : List Nat :=
  [0,1,2,3,4,5,6,7,8,9,10,11,12, 13,14,15,16,17,18,19,20,21, 24,25]

def condFields : List Nat := [22, 23]

/-- `shared.AggregateIfGreaterThan(arr, threshold, default)` -/
def aggregateIfGreater (arr : List Int) (threshold dflt : Int) : Int :=
  let sum := arr.foldl (fun s x => if x > threshold then s + x else s) 0
  if sum > dflt then sum else dflt

/-- `shared.FindMaxValue(arr, default)` (with its `max += arr[i]` accumulation) -/
def findMaxValue (arr : List Int) (dflt : Int) : Int :=
  let m := arr.foldl (fun m x => if x > m then m + x else m) 0
  if m > dflt then m else dflt

mutual
/-- `none` = the Go function returned an error (value -1) -/
def node (fuel : Nat) : PNode → Option Int
  | .leaf t _ _ _ _ => some (if t = [] then 0 else 1)
  | .empty => some 0
  | .stmt _ fs => match fuel with | 0 => none | fuel + 1 => some (total fuel fs)
  | .pairs _ _ => none
  | .comb op _ _ _ _ l r =>
    match fuel with
    | 0 => none
    | fuel + 1 =>
    match node fuel l, node fuel r with
    | some a, some b =>
      if op = opAND || op = opBAND || op = opWAND then some (a + b - 1)
      else if op = opXOR then some (a + b)
      else if op = opOR then some (a + b + 1)
      else none
    | _, _ => none
/-- value bound to a field's variable in `CalculateComplexity`: 0 for nil, -1 on error -/
def fieldVal (fuel : Nat) (fs : PStmt) (i : Nat) : Int :=
  match fs.find? (fun p => p.1 = i) with
  | none => 0
  | some p => match node fuel p.2 with | some v => v | none => -1
def total (fuel : Nat) (fs : PStmt) : Int :=
  aggregateIfGreater (fieldVals fuel fs leadingFields) 1 1 *
  findMaxValue [sumVals (fieldVals fuel fs condFields)] 1
def fieldVals (fuel : Nat) (fs : PStmt) : List Nat → List Int
  | [] => []
  | i :: is => fieldVal fuel fs i :: fieldVals fuel fs is
def sumVals : List Int → Int
  | [] => 0
  | x :: xs => x + sumVals xs
end

def defaultFuel : Nat := 64

end IGVerif.Dov
