import IGVerif.Model.PTree
import IGVerif.Model.Dov
import IGVerif.Model.Json
import IGVerif.Model.Tab
/-! Visual export: `Statement.PrintTree`, `Node.PrintNodeTree`, `appendPropertyNodes`,
    `appendAnnotations`, `appendDegreeOfVariability` as a function into `Json.JNode`
    (code-shaped; a collapsed combination yields a *fragment* — several siblings). -/
namespace IGVerif.Vis
open IGVerif IGVerif.Json

structure VOpts where
  flat : Bool := false
  bin : Bool := false
  ac : Bool := false
  ann : Bool := false
  dov : Bool := false
  deriving Repr, BEq, Inhabited

/-- statement fields printed as children, in `PrintTree`'s order -/
def printedFields (ac : Bool) : List Nat :=
  (if ac then [22, 23] else []) ++ [0, 3, 4, 5, 6, 9, 10, 13, 16, 17, 18, 19] ++
  (if ac then [] else [22, 23]) ++ [24, 25, 26]

/-- `Statement.GetPropertyComponent(n, true)`: property fields by component name -/
def propFields (comp : Str) : List Nat :=
  if comp = str "A" then [1, 2]
  else if comp = str "Bdir" then [7, 8]
  else if comp = str "Bind" then [11, 12]
  else if comp = str "E" then [14, 15]
  else if comp = str "P" then [20, 21]
  else []

/-- component symbol printed by `StringFlatStatement(true)` per statement field -/
def fieldSymbol (i : Nat) : Str :=
  str ((["A","A,p","A,p","D","I","Bdir","Bdir","Bdir,p","Bdir,p","Bind","Bind","Bind,p","Bind,p",
    "E","E,p","E,p","M","F","P","P","P,p","P,p","Cac","Cac","Cex","Cex","O"] : List String).getD i "?")

/-- `Statement.StringFlatStatement(true)` -/
def flatStmtSym (fs : PStmt) : Str :=
  let out := Tab.flatOrder.flatMap fun i =>
    match fs.find? (fun p => p.1 = i) with
    | some p => let c := Tab.flatNode 64 p.2
                if c.isEmpty then [] else fieldSymbol i ++ '(' :: c ++ [')', ' ']
    | none => []
  out.dropLast

def intStr (i : Int) : Str := (toString i).toList

def optAnn (o : VOpts) (a : Option Str) : Option Str :=
  if o.ann then a.map escape else none

/-- flat-mode property entries of one property node (`appendPropertyNodes`, `printFlat`) -/
def flatEntries (n : PNode) : List Str :=
  match n with
  | .comb .. =>
    (leafArrays false {} [] n).flatten.map fun v =>
      match v.node with
      | .leaf t _ _ _ _ => escape t
      | other => escape (Tab.flatNode 64 other)
  | .stmt _ fs => [escape (flatStmtSym fs)]
  | .leaf t _ _ _ _ => [escape t]
  | _ => [str "<panic: []*Node is not *Statement>"]

def mergePrivate : List PNode → Option PNode
  | [] => none
  | p :: ps => some (ps.foldl (fun acc x => combineN opBAND acc x) p)

def jlistOfFragments (sep : Str) : List JList → JList
  | [] => .nil
  | [f] => f
  | f :: fs => (f.withLastSep sep).append (jlistOfFragments sep fs)

mutual
/-- `Node.PrintNodeTree`; result is a fragment (siblings) -/
def nodeJ (o : VOpts) (fuel : Nat) (fs : PStmt) (level : Nat) (c : Ctx) (parentOp : Option Str) (parentComp : Str)
    (n : PNode) : JList :=
  match fuel with
  | 0 => .nil
  | fuel + 1 =>
  match n with
  | .empty => .nil
  | .leaf t sl sr m priv =>
    let esl := stringify (c.sl ++ effShared sl)
    let esr := stringify (c.sr ++ effShared sr)
    let name := (if esl.isEmpty then [] else esl ++ [' ']) ++ t ++ (if esr.isEmpty then [] else ' ' :: esr)
    let comp := effComp c m
    let dv := if o.dov then (Dov.node Dov.defaultFuel n).map intStr else none
    JList.single (.leaf (escape name) comp level (propsJ o fuel fs level comp true priv)
      (optAnn o (effAnn c m.ann)) dv)
  | .comb op sl sr m priv l r =>
    let comp := effComp c m
    let c' := childCtx c op sl sr m
    let lf := nodeJ o fuel fs level c' (some op) comp l
    let rf := nodeJ o fuel fs level c' (some op) comp r
    if !o.bin && c.hasParent && parentOp = some op && comp = parentComp then
      jlistOfFragments (str ", ") [lf, rf]
    else
      let dv := if o.dov then (Dov.node Dov.defaultFuel n).map intStr else none
      JList.single (.comb op (jlistOfFragments (str ",\n") [lf, rf]) comp level
        (propsJ o fuel fs level comp false priv) (optAnn o (effAnn c m.ann)) dv)
  | .stmt m inner =>
    JList.single (stmtJ o fuel inner (level + 1) (effComp c m) (effAnn c m.ann) true)
  | .pairs m (.stmt _ inner :: _) =>
    JList.single (stmtJ o fuel inner (level + 1) (effComp c m) (effAnn c m.ann) false)
  | .pairs _ _ => .nil
/-- `Statement.PrintTree(parent, …, level)` -/
def stmtJ (o : VOpts) (fuel : Nat) (fs : PStmt) (level : Nat) (parentComp : Str) (parentAnn : Option Str)
    (parentDovOk : Bool) : JNode :=
  match fuel with
  | 0 => .stmt [] level none none .nil
  | fuel + 1 =>
  let tot := intStr (Dov.total Dov.defaultFuel fs)
  let name := if parentComp ≠ [] then parentComp else if o.dov then str "DoV: " ++ tot else []
  let dv := if o.dov && parentDovOk then some tot else none
  .stmt name level (optAnn o parentAnn) dv
    (jlistOfFragments (str ",\n") (fieldsJ o fuel fs level (printedFields o.ac)))
def fieldsJ (o : VOpts) (fuel : Nat) (fs : PStmt) (level : Nat) : List Nat → List JList
  | [] => []
  | i :: is =>
    match fuel with
    | 0 => []
    | fuel + 1 =>
    (match fs.find? (fun p => p.1 = i) with
     | some p => (match nodeJ o fuel fs level {} none [] p.2 with | .nil => [] | f => [f])
     | none => []) ++ fieldsJ o fuel fs level is
/-- `Node.appendPropertyNodes` -/
def propsJ (o : VOpts) (fuel : Nat) (fs : PStmt) (level : Nat) (comp : Str) (isLeaf : Bool) (priv : List PNode) : Props :=
  match fuel with
  | 0 => .none
  | fuel + 1 =>
  let shared : List PNode := (propFields comp).filterMap (fun i => (fs.find? (fun p => p.1 = i)).map (·.2))
  let enter := ((isLeaf || o.flat) && !shared.isEmpty) || !priv.isEmpty
  if !enter then .none else
  let all := shared ++ (match mergePrivate priv with | some m => [m] | none => [])
  if all.isEmpty then .none else
  if o.flat then .flat (joinWith (str ", ") (all.flatMap flatEntries))
  else .tree (jlistOfFragments (str ", ") (propNodesJ o fuel fs level all))
def propNodesJ (o : VOpts) (fuel : Nat) (fs : PStmt) (level : Nat) : List PNode → List JList
  | [] => []
  | p :: ps =>
    match fuel with
    | 0 => []
    | fuel + 1 => nodeJ o fuel fs level {} none [] p :: propNodesJ o fuel fs level ps
end

/-- `ConvertIGScriptToVisualTree`: `stmts[0].PrintNodeTree(nil, …, 0)` -/
def visTop (o : VOpts) (root : PNode) : Str :=
  match nodeJ o 200 [] 0 {} none [] root with
  | .cons x _ .nil => ser x
  | l => serList l

end IGVerif.Vis
