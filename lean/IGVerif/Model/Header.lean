import IGVerif.Basic
/-! `parser.extractComponentType`: identification of the component type from the header of a nested
    component (`Cac1[anno]`, `Bdir1,p2`, …), as `parseNestedStatementCombination` calls it for the
    header of a combination and for the header of each operand (`parseNestedStatements` has a
    `HasPrefix` chain of its own for single nested statements, which is tied by D only). The function has no regular expression: it cuts a
    trailing annotation at the first `[`, then walks `tree.IGComponentSymbols` in table order with
    `strings.Contains`, remembers the last symbol contained, appends the property marker when `,p`
    occurs anywhere, and reports two different symbols as `MULTIPLE_COMPONENTS_FOUND`.

    The model keeps that shape: one loop over the table with the three variables of the code
    (`ret`, `prop`, and the position in the table). The table is a parameter; `Props/C02.lean`
    instantiates it with the table regenerated from the source. -/
namespace IGVerif.Header

inductive Res
  | ok (ty : Str) (prop : Bool)          -- PARSING_NO_ERROR
  | multiple (ret : Str) (prop : Bool)   -- PARSING_ERROR_MULTIPLE_COMPONENTS_FOUND, with the values returned beside the error
  | notFound (prop : Bool)               -- PARSING_ERROR_COMPONENT_NOT_FOUND
  deriving DecidableEq, Repr

/-- `input[:strings.Index(input, "[")]` when a `[` is present, the whole input otherwise -/
def cutAnno (input : Str) : Str := input.takeWhile (· ≠ '[')

def marker : Str := [',', 'p']

/-- the `for _, v := range tree.IGComponentSymbols` loop -/
def loop (input : Str) (hasP : Bool) : List Str → Str → Bool → Res
  | [], ret, prop => if ret = [] then .notFound prop else .ok ret prop
  | v :: vs, ret, prop =>
    if contains v input then
      if ret ≠ [] ∧ ret ≠ v then .multiple ret prop
      else if hasP then
        loop input hasP vs (if isSuffix marker v then v else v ++ marker) true
      else loop input hasP vs v prop
    else loop input hasP vs ret prop

def extractType (table : List Str) (input : Str) : Res :=
  let i := cutAnno input
  loop i (contains marker i) table [] false

/-- the table as written in `core/tree/IGStructs.go` (`IGComponentSymbols`); `Props/C02.lean`
    proves it equal to the regenerated one -/
def table : List Str :=
  ["Statement Annotation", "A", "A (Annotation)", "A,p", "A,p-Ref", "A,p (Annotation)", "D", "D (Annotation)", "I",
   "I (Annotation)", "Bdir", "Bdir-Ref", "Bdir (Annotation)", "Bdir,p", "Bdir,p-Ref", "Bdir,p (Annotation)", "Bind",
   "Bind-Ref", "Bind (Annotation)", "Bind,p", "Bind,p-Ref", "Bind,p (Annotation)", "Cac", "Cac-Ref", "Cac (Annotation)",
   "Cex", "Cex-Ref", "Cex (Annotation)", "E", "E (Annotation)", "E,p", "E,p-Ref", "E,p (Annotation)", "M", "M (Annotation)",
   "F", "F (Annotation)", "P", "P-Ref", "P (Annotation)", "P,p", "P,p-Ref", "P,p (Annotation)", "O", "O-Ref"].map String.toList

end IGVerif.Header
