import IGVerif.Model.Web
/-! Concurrent requests at the granularity of the handler's yield points (C14) and request
    histories (C13): process-global option variables, the writes each handler performs before
    converting, and an uninterpreted conversion that sees only the variables it reads. -/
namespace IGVerif.Sched

abbrev Var := String
abbrev G := Var → String

/-- what one request does: ordered assignments (value computed from the request only) and
    the variables its conversion may read -/
structure Handler (Req : Type) where
  writes : List (Var × (Req → String))
  reads : List Var

def applyWrites {Req : Type} : List (Var × (Req → String)) → Req → G → G
  | [], _, g => g
  | w :: ws, r, g => applyWrites ws r (fun v => if v = w.1 then w.2 r else g v)

def view (reads : List Var) (g : G) : List String := reads.map g

structure System (Req Out : Type) where
  handler : Req → Handler Req
  conv : Req → List String → Out
  neverWritten : List Var

/-- side condition checked by `decide` on generated lists -/
def covered {Req : Type} (h : Handler Req) (never : List Var) : Bool :=
  h.reads.all (fun v => h.writes.any (fun w => w.1 = v) || never.contains v)

/-! ### sequential histories (C13) -/

def step {Req Out : Type} (S : System Req Out) (g : G) (r : Req) : G × Out :=
  let h := S.handler r
  let g' := applyWrites h.writes r g
  (g', S.conv r (view h.reads g'))

def run {Req Out : Type} (S : System Req Out) (g : G) : List Req → G × List Out
  | [] => (g, [])
  | r :: rs => let (g', o) := step S g r; let (g'', os) := run S g' rs; (g'', o :: os)

/-! ### interleavings at yield points (C14) -/

/-- program counter of one request -/
inductive PC
  | start       -- before the lock
  | locked      -- holds the lock (or no lock exists), options not yet assigned
  | optsSet     -- options assigned, not yet converted
  | done
  deriving Repr, DecidableEq, Inhabited

structure Conf (Out : Type) where
  g : G
  pcs : List PC
  outs : List (Option Out)
  holder : Option Nat

def setAt {α : Type} : List α → Nat → α → List α
  | [], _, _ => []
  | _ :: xs, 0, v => v :: xs
  | x :: xs, n + 1, v => x :: setAt xs n v

/-- one advance of request `i`; `none` when `i` cannot move (finished, or waiting for a lock
    another request holds). `useLock = false` models a handler without mutual exclusion. -/
def advance {Req Out : Type} (S : System Req Out) (useLock : Bool) (rs : List Req) (c : Conf Out) (i : Nat) : Option (Conf Out) :=
  match rs[i]?, c.pcs[i]? with
  | some r, some pc =>
    match pc with
    | .start =>
      if useLock then
        (match c.holder with
         | some j => if j = i then some { c with pcs := setAt c.pcs i .locked } else none
         | none => some { c with pcs := setAt c.pcs i .locked, holder := some i })
      else some { c with pcs := setAt c.pcs i .locked }
    | .locked =>
      some { c with g := applyWrites (S.handler r).writes r c.g, pcs := setAt c.pcs i .optsSet }
    | .optsSet =>
      some { c with outs := setAt c.outs i (some (S.conv r (view (S.handler r).reads c.g))),
                    pcs := setAt c.pcs i .done,
                    holder := if c.holder = some i then none else c.holder }
    | .done => none
  | _, _ => none

def exec {Req Out : Type} (S : System Req Out) (useLock : Bool) (rs : List Req) : Conf Out → List Nat → Option (Conf Out)
  | c, [] => some c
  | c, i :: σ => match advance S useLock rs c i with
    | some c' => exec S useLock rs c' σ
    | none => none

def init {Out : Type} (g : G) (n : Nat) : Conf Out :=
  { g := g, pcs := List.replicate n .start, outs := List.replicate n none, holder := none }

/-- response of request `r` processed alone from state `g` -/
def alone {Req Out : Type} (S : System Req Out) (g : G) (r : Req) : Out := (step S g r).2

end IGVerif.Sched
