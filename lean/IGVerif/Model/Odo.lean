import IGVerif.Basic
/-! `tree.GenerateNodeArrayPermutations` (the odometer), code-shaped, and its specification. -/
namespace IGVerif.Odo

/-- Go: the carry loop `for i := len-1; i >= 0; i--`, run on the *reversed* position vector
    (last array first). Returns `none` for `break loop`. The Go special case
    `i == 1 && pos[0] == len(arrays[0])-1` is modelled literally (`l0`/`p0` are the first
    array's length and position; the comparison is on Go ints, so `len-1` may be `-1`). -/
def carry : (rlens rpos : List Nat) → Option (List Nat)
  | [], [] => some []
  | [], _ :: _ => none
  | _ :: _, [] => none
  | l :: ls, p :: ps =>
    if p > 0 ∧ p ≥ l then
      match ls, ps with
      | [], _ => none                                           -- i == 0
      | _ :: _, [] => none
      | l0 :: ls', p0 :: ps' =>
        if ls'.isEmpty && p0 + 1 == l0 then none                -- i == 1 && pos[0] == len0-1
        else (carry (l0 :: ls') ((p0 + 1) :: ps')).map (0 :: ·) -- pos[i] = 0; pos[i-1]++
    else (carry ls ps).map (p :: ·)

/-- one element per array; out-of-range positions are skipped (`if p >= 0 && p < len(ar)`) -/
def select {α : Type} : (arrays : List (List α)) → (pos : List Nat) → List α
  | a :: as, p :: ps => (match a[p]? with | some x => [x] | none => []) ++ select as ps
  | _, _ => []

def bump : List Nat → List Nat
  | [] => []
  | p :: ps => (p + 1) :: ps

/-- the `loop:` body, with fuel; positions are kept reversed -/
def loop {α : Type} (arrays : List (List α)) : Nat → List Nat → List (List α)
  | 0, _ => []
  | fuel + 1, rpos =>
    match carry (arrays.reverse.map List.length) rpos with
    | none => []
    | some rpos' => select arrays rpos'.reverse :: loop arrays fuel (bump rpos')

/-- `n`: product of the non-empty lengths = size of the preallocated result -/
def count {α : Type} (arrays : List (List α)) : Nat :=
  arrays.foldl (fun acc a => if a.length = 0 then acc else acc * a.length) 1

/-- The Go function: `none` = PARSING_ERROR_EMPTY_LEAF (no arrays). The Go code writes row
    `ct` into a slice of length `count`; `overflow` reports whether it would write past it. -/
def generate {α : Type} (arrays : List (List α)) : Option (List (List α)) :=
  if arrays.isEmpty then none
  else some (loop arrays (count arrays + 1) (arrays.map (fun _ => 0)))

/-- specification: Cartesian product, first array slowest -/
def product {α : Type} : List (List α) → List (List α)
  | [] => [[]]
  | a :: as => a.flatMap (fun x => (product as).map (x :: ·))

end IGVerif.Odo
