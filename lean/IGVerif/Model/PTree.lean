import IGVerif.Basic
/-! Parsed trees: a pure-tree image of `tree.Node` / `tree.Statement` (node identity = path).
    Everything the exporters read through parent pointers (`GetSharedLeft/Right`,
    `GetComponentName`, `GetAnnotations`, `GetSuffix`) is computed top-down from an inherited
    context, which is what those Go functions compute bottom-up on a tree whose parent
    pointers are consistent. -/
namespace IGVerif

/-- operator strings as in core/tree/IGStructs.go -/
def opAND : Str := str "AND"
def opOR : Str := str "OR"
def opXOR : Str := str "XOR"
def opBAND : Str := str "bAND"
def opWAND : Str := str "wAND"

structure Meta where
  ct  : Str := []               -- Node.ComponentType (raw, only where the code sets it)
  sfx : Option Str := none      -- Node.Suffix
  ann : Option Str := none      -- Node.Annotations (stored with brackets)
  deriving Repr, BEq, Inhabited, DecidableEq

inductive PNode
  | leaf  (t : Str) (sl sr : List Str) (m : Meta) (priv : List PNode)
  | comb  (op : Str) (sl sr : List Str) (m : Meta) (priv : List PNode) (l r : PNode)
  | stmt  (m : Meta) (fields : List (Nat × PNode))   -- Entry : *Statement ; Nat = field index
  | pairs (m : Meta) (ns : List PNode)               -- Entry : []*Node
  | empty
  deriving Repr, Inhabited, BEq

abbrev PStmt := List (Nat × PNode)

/-- Go: `SharedLeft != nil && len != 0 && [0] != ""` -/
def sharedNonEmpty : List Str → Bool
  | [] => false
  | x :: _ => x ≠ []

def effShared (xs : List Str) : List Str := if sharedNonEmpty xs then xs else []

/-- what a node inherits from its ancestors -/
structure Ctx where
  sl : List Str := []
  sr : List Str := []
  comp : Str := []
  ann : Option Str := none
  sfx : Option Str := none
  hasParent : Bool := false
  deriving Repr, BEq, Inhabited

def annNonEmpty : Option Str → Bool
  | some (_ :: _) => true
  | _ => false

/-- `GetAnnotations` of a node with own annotations `own` under context `c` -/
def effAnn (c : Ctx) (own : Option Str) : Option Str :=
  if c.hasParent && !annNonEmpty own then c.ann else own

def effSfx (c : Ctx) (own : Option Str) : Option Str :=
  match own with
  | some s => some s
  | none => c.sfx

def effComp (c : Ctx) (m : Meta) : Str := if m.ct ≠ [] then m.ct else c.comp

/-- context handed to the children of a combination node -/
def childCtx (c : Ctx) (op : Str) (sl sr : List Str) (m : Meta) : Ctx :=
  { sl := c.sl ++ effShared sl
    sr := c.sr ++ effShared sr
    comp := effComp c m
    -- a child asks its parent only when the parent is not a bAND node
    ann := if op = opBAND then none else effAnn c m.ann
    -- suffix is inherited from parents that have a logical operator
    sfx := if op ≠ [] then effSfx c m.sfx else none
    hasParent := true }

/-- A leaf value as the exporters see it. -/
structure LeafV where
  path : List Bool
  node : PNode                  -- the leaf node itself (text / nested statement / pairs)
  esl : List Str
  esr : List Str
  comp : Str
  eann : Option Str
  esfx : Option Str
  deriving Repr, Inhabited, BEq

def LeafV.text (v : LeafV) : Option Str :=
  match v.node with
  | .leaf t _ _ _ _ => some t
  | _ => none

def LeafV.priv (v : LeafV) : List PNode :=
  match v.node with
  | .leaf _ _ _ _ p => p
  | .comb _ _ _ _ p _ _ => p
  | _ => []

def mkLeafV (c : Ctx) (path : List Bool) (n : PNode) (sl sr : List Str) (m : Meta) : LeafV :=
  { path := path.reverse, node := n
    esl := c.sl ++ effShared sl, esr := c.sr ++ effShared sr
    comp := effComp c m, eann := effAnn c m.ann, esfx := effSfx c m.sfx }

/-- `aggregateNodes` -/
def aggregate {α : Type} (flat : Bool) (l r : List (List α)) : List (List α) :=
  if flat then [l.flatten ++ r.flatten] else l ++ r

/-- `Node.GetLeafNodes(aggregateImplicitLinkages)`: AND/OR/XOR flatten; bAND flattens iff
    aggregating; wAND keeps the arrays apart. `rpath` is the reversed path of the node. -/
def leafArrays (agg : Bool) : Ctx → List Bool → PNode → List (List LeafV)
  | c, rp, n@(.leaf t sl sr m _) => if t = [] then [] else [[mkLeafV c rp n sl sr m]]
  | c, rp, n@(.stmt m _) => [[mkLeafV c rp n [] [] m]]
  | c, rp, n@(.pairs m _) => [[mkLeafV c rp n [] [] m]]
  | _, _, .empty => []
  | c, rp, .comb op sl sr m _ l r =>
    let c' := childCtx c op sl sr m
    let flat := if op = opBAND then agg else if op = opWAND then false else true
    aggregate flat (leafArrays agg c' (false :: rp) l) (leafArrays agg c' (true :: rp) r)

def leavesOf (n : PNode) : List LeafV := (leafArrays true {} [] n).flatten

/-- `Node.CountLeaves` -/
def countLeaves : PNode → Nat
  | .leaf t _ _ _ _ => if t = [] then 0 else 1
  | .comb _ _ _ _ _ l r => countLeaves l + countLeaves r
  | .empty => 0
  | _ => 1

/-- sub-tree at a path -/
def PNode.sub : PNode → List Bool → Option PNode
  | n, [] => some n
  | .comb _ _ _ _ _ l _, false :: p => l.sub p
  | .comb _ _ _ _ _ _ r, true :: p => r.sub p
  | _, _ :: _ => none

def PNode.opOf : PNode → Option Str
  | .comb op _ _ _ _ _ _ => some op
  | _ => none

def PNode.withMeta (f : Meta → Meta) : PNode → PNode
  | .leaf t sl sr m p => .leaf t sl sr (f m) p
  | .comb op sl sr m p l r => .comb op sl sr (f m) p l r
  | .stmt m fs => .stmt (f m) fs
  | .pairs m ns => .pairs (f m) ns
  | .empty => .empty

def PNode.meta : PNode → Meta
  | .leaf _ _ _ m _ => m
  | .comb _ _ _ m _ _ _ => m
  | .stmt m _ => m
  | .pairs m _ => m
  | .empty => {}


/-- `tree.Combine(l, r, op)`: new node, component type from the left (else right) operand -/
def combineN (op : Str) (l r : PNode) : PNode :=
  let ctl := l.meta.ct
  .comb op [] [] { ct := if ctl ≠ [] then ctl else r.meta.ct } [] l r


end IGVerif
