import IGVerif.Basic
/-! The web layer (`web/converter`): option decoding of `converterHandler` (code-shaped), the
    process-global option variables, and the request state machine used by C13 / C14. -/
namespace IGVerif.Web
open IGVerif

abbrev Form := List (String × String)

def Form.get (f : Form) (k : String) : String :=
  match f.find? (fun p => p.1 = k) with
  | some p => p.2
  | none => ""

inductive Method | GET | POST
  deriving Repr, DecidableEq, Inhabited

inductive Page | tab | vis
  deriving Repr, DecidableEq, Inhabited

structure Req where
  page : Page
  method : Method
  form : Form
  deriving Repr, Inhabited

/-- constants of `web/converter/shared` and `tabular` used by the handler -/
def defaultRaw : String := "Once policy comes into force, relevant regulators must monitor and enforce compliance."
def defaultCoded : String := "Cac{Once E(policy) F(comes into force)} A,p(relevant) A(regulators) D(must) I(monitor [AND] enforce) Bdir(compliance)."
def defaultId : String := "123"
def origNone : String := "No inclusion of Original Statement in output (i.e., no additional column)"
def scriptNone : String := "No inclusion of IG Script coding in output (i.e., no additional column)"
def outputGS : String := "Google Sheets"
def outputCSV : String := "CSV format"
def minCanvas : Int := 100

/-- what the handler hands to the core conversion -/
structure TabCall where
  orig : String
  coded : String
  id : String
  dyn : Bool
  ext : Bool
  ann : Bool
  outputType : String
  headers : Bool
  po : String
  ps : String
  deriving Repr, DecidableEq, Inhabited

structure VisCall where
  coded : String
  id : String
  flat : Bool
  bin : Bool
  ac : Bool
  dyn : Bool
  ext : Bool
  ann : Bool
  dov : Bool
  deriving Repr, DecidableEq, Inhabited

inductive Outcome
  | formOnly                    -- GET without `execute`: the form is shown, nothing converted
  | canvasError (what : String) -- invalid canvas size: error page, nothing converted
  | noStatement                 -- empty encoded statement
  | tab (c : TabCall)
  | vis (c : VisCall)
  deriving Repr, Inhabited

/-- `evaluateBooleanUrlParameters` -/
def urlBool (v : String) : Bool := v = "t" || v = "true" || v = "1"

/-- `strconv.Atoi`, as far as the handler uses it: optional sign and decimal digits -/
def atoi (s : String) : Option Int :=
  let cs := s.toList
  let (neg, ds) := match cs with
    | '-' :: r => (true, r)
    | '+' :: r => (false, r)
    | r => (false, r)
  if ds.isEmpty || !(ds.all Char.isDigit) then none
  else
    let n : Nat := ds.foldl (fun acc c => acc * 10 + (c.toNat - 48)) 0
    -- values beyond int64 are rejected by Atoi
    if n > 9223372036854775807 then none else some (if neg then - (n : Int) else (n : Int))

def canvasBad (v : String) : Bool :=
  v ≠ "" && (match atoi v with | none => true | some n => n < minCanvas)

/-- `converterHandler`: from a request to the core call it makes -/
def decode (r : Req) : Outcome :=
  let f := r.form
  let post := r.method = .POST
  let on := fun k => f.get k = "on"
  let dyn₀ := on "dynamicSchema"
  let ann₀ := on "annotations"
  let dov₀ := on "dov"
  let ext₀ := on "igExtended"
  let hdrV := if f.get "includeHeaders" = "" && !post then "on" else f.get "includeHeaders"
  let hdr₀ := hdrV = "on"
  let po := if f.get "printOriginalStatement" = "" && !post then origNone else f.get "printOriginalStatement"
  let ps := if f.get "printIgScript" = "" && !post then scriptNone else f.get "printIgScript"
  let flat₀ := !(on "propertyTree")
  let bin₀ := on "binaryTree"
  let ac₀ := on "actCondTop"
  if canvasBad (f.get "canvasWidth") then .canvasError "width" else
  if canvasBad (f.get "canvasHeight") then .canvasError "height" else
  if post then
    let coded := f.get "codedStmt"
    if coded = "" then .noStatement else
    match r.page with
    | .tab => .tab { orig := f.get "rawStmt", coded := coded, id := f.get "stmtId", dyn := dyn₀, ext := ext₀, ann := ann₀,
                     outputType := f.get "outputType", headers := hdr₀, po := po, ps := ps }
    | .vis => .vis { coded := coded, id := f.get "stmtId", flat := flat₀, bin := bin₀, ac := ac₀, dyn := dyn₀, ext := ext₀,
                     ann := ann₀, dov := dov₀ }
  else
    -- GET: URL parameters refine defaults (a parameter counts as present when non-empty)
    let has := fun k => f.get k ≠ ""
    let raw₁ := if has "rawStmt" then f.get "rawStmt" else defaultRaw
    let (raw, coded) :=
      if has "codedStmt" then
        let c := f.get "codedStmt"
        ((if c ≠ defaultCoded && raw₁ = defaultRaw then "" else raw₁), c)
      else if has "rawStmt" then (raw₁, "")
      else (raw₁, defaultCoded)
    let id := if has "stmtId" then f.get "stmtId" else defaultId
    let dyn := has "dynamicSchema" && urlBool (f.get "dynamicSchema")
    let ext := has "igExtended" && urlBool (f.get "igExtended")
    let ann := has "annotations" && urlBool (f.get "annotations")
    let hdr := !(has "includeHeaders") || urlBool (f.get "includeHeaders")
    let outT := if has "outputType" then f.get "outputType" else outputGS
    let flat := !(!(has "propertyTree") || urlBool (f.get "propertyTree"))
    let dov := has "dov" && urlBool (f.get "dov")
    let bin := has "binaryTree" && urlBool (f.get "binaryTree")
    let ac := has "actCondTop" && urlBool (f.get "actCondTop")
    let exec := has "execute" && urlBool (f.get "execute")
    if !exec then .formOnly else
    if coded = "" then .noStatement else
    match r.page with
    | .tab => .tab { orig := raw, coded := coded, id := id, dyn := dyn, ext := ext, ann := ann, outputType := outT,
                     headers := hdr, po := po, ps := ps }
    | .vis => .vis { coded := coded, id := id, flat := flat, bin := bin, ac := ac, dyn := dyn, ext := ext, ann := ann, dov := dov }

end IGVerif.Web
