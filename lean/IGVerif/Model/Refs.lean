import IGVerif.Basic
/-! `tree.GenerateReferenceSlice` with `generateRanges = incrementReferences = true`, as used
    by the tabular export: row indices 0,1,2,… become "1-3","5",… -/
namespace IGVerif.Refs

/-- a reference entry: single id or closed range -/
inductive Ref
  | one (n : Nat)
  | range (a b : Nat)
  deriving Repr, DecidableEq, Inhabited

def Ref.str : Ref → Str
  | .one n => natStr n
  | .range a b => natStr a ++ '-' :: natStr b

def Ref.last : Ref → Nat
  | .one n => n
  | .range _ b => b

/-- one step of the Go function on structured entries (`id` is the zero-based row index) -/
def add (refs : List Ref) (id : Nat) : List Ref :=
  let added := id + 1
  match refs.reverse with
  | [] => [.one added]
  | .range a b :: rest =>
      if b + 1 = added then (Ref.range a added :: rest).reverse
      else (Ref.one added :: Ref.range a b :: rest).reverse
  | .one n :: rest =>
      if n + 1 = added then (Ref.range n added :: rest).reverse
      else if n ≠ added then (Ref.one added :: Ref.one n :: rest).reverse
      else refs

def build (ids : List Nat) : List Ref := ids.foldl add []

/-- what a reference cell denotes -/
def Ref.decode : Ref → List Nat
  | .one n => [n]
  | .range a b => (List.range (b + 1 - a)).map (· + a)

def decode (refs : List Ref) : List Nat := refs.flatMap Ref.decode

end IGVerif.Refs
