import IGVerif.Basic
import IGVerif.Model.Validate
/-! `parser.ParseIntoNodeTree` / `detectCombinations` / `extractSharedComponents`
    (core/parser/IGComponentCombinationParser.go): the hand-written parser that turns the text of
    one component — or, with braces, a combination of nested statements — into an operator tree.

    Code shape kept: one left-to-right scan that records, per nesting level, the boundaries of
    every parenthesised region (left, operator position and value, right, complete); a repeated
    operator on one level rewrites the expression (`( a [AND] b ) [AND] c`) and starts over; the
    tree is built from the first level that holds a complete combination, each side being
    re-scanned and parsed recursively; several combinations on that level are joined by wAND.

    Simplifications, each checked by the correspondence run (`combo` operation):
    * `modeMap` / `foundOperators` are maps keyed by level in the code; a level's entries are
      reset when the level is closed and only the current level is ever read, so both are kept
      as a stack (`modes`) and as "the operator already stored in the open boundary".
    * the list of non-shared elements is computed by the code but only printed; not modelled.
    * indices are character positions; the code uses byte positions (equal on ASCII input, which
      is what the correspondence run feeds). -/
namespace IGVerif.Combo

def sAND : Str := ['A','N','D']
def sOR : Str := ['O','R']
def sXOR : Str := ['X','O','R']
def sWAND : Str := ['w','A','N','D']
def sBAND : Str := ['b','A','N','D']
def bAND : Str := ['[','A','N','D',']']
def bOR : Str := ['[','O','R',']']
def bXOR : Str := ['[','X','O','R',']']
def bWAND : Str := ['[','w','A','N','D',']']
def bBAND : Str := ['[','b','A','N','D',']']

def cNoError : Str := str "NO_ERROR_DURING_PARSING"
def cNoCombinations : Str := str "NO_COMBINATIONS_IN_INPUT"
def cInvalidCombination : Str := str "INVALID_COMBINATION_IN_INPUT"
def cOutside : Str := str "LOGICAL_OPERATOR_OUTSIDE_COMBINATION"
def cMix : Str := str "INVALID_LOGICAL_OPERATOR_COMBINATIONS"
def cImbalanced : Str := str "IMBALANCED_PARENTHESES"
def cEmptyLeaf : Str := str "EMPTY_LEAF_VALUE"

inductive Mode | left | right
  deriving DecidableEq, Repr

/-- `tree.Boundaries` -/
structure Bnd where
  left : Nat
  right : Nat := 0
  op : Nat := 0
  opVal : Str := []
  complete : Bool := false
  deriving Repr, DecidableEq, Inhabited

/-- `levelMap`: entry `k` holds the boundaries of level `k+1`, in order of opening -/
abbrev LM := List (List Bnd)

/-- the operator token at the head of the remaining text, in the order the code tests -/
def opAt (rest : Str) : Option Str :=
  if isPrefix bAND rest then some sAND
  else if isPrefix bXOR rest then some sXOR
  else if isPrefix bOR rest then some sOR
  else if isPrefix bWAND rest then some sWAND
  else if isPrefix bBAND rest then some sBAND
  else none

structure St where
  modes : List Mode := []      -- head = mode of the current level; level = length
  lm : LM := []
  gpar : Int := 0              -- generalParCount
  deriving Repr

def modLast (f : Bnd → Bnd) : List Bnd → List Bnd
  | [] => []
  | [b] => [f b]
  | b :: c :: bs => b :: modLast f (c :: bs)

def modAt : LM → Nat → (List Bnd → List Bnd) → LM
  | [], _, _ => []
  | x :: xs, 0, f => f x :: xs
  | x :: xs, k+1, f => x :: modAt xs k f

def lastAt (lm : LM) (k : Nat) : Option Bnd :=
  match lm[k]? with
  | some es => es.getLast?
  | none => none

/-- open a new boundary on level index `k` -/
def openAt (lm : LM) (k : Nat) (e : Bnd) : LM :=
  if k < lm.length then modAt lm k (· ++ [e]) else lm ++ [[e]]

inductive Out
  | done (lm : LM)
  | err (code : Str)
  | panic                       -- write into a nil map: closing symbol on level 0
  | rewrite (l i : Nat)         -- repeated operator at `i` in the boundary that starts at `l`
  deriving Repr

/-- the main loop of `detectCombinations` over the remaining characters; `i` = index of the head -/
def scan (lp rp : Char) : Str → Nat → St → Out
  | [], _, st => .done st.lm
  | c :: cs, i, st0 =>
    let gpar := if c = '(' then st0.gpar + 1 else if c = ')' then st0.gpar - 1 else st0.gpar
    let st : St := { st0 with gpar := gpar }
    if c = lp then
      scan lp rp cs (i+1)
        { st with modes := .left :: st.modes, lm := openAt st.lm st.modes.length { left := i + 1 } }
    else if c = rp then
      match st.modes with
      | [] => .panic
      | _ :: ms =>
        match lastAt st.lm ms.length with
        | none => .panic
        | some b =>
          if b.op + b.opVal.length + 2 = i then .err cInvalidCombination
          else
            scan lp rp cs (i+1)
              { st with modes := ms,
                        lm := modAt st.lm ms.length
                          (modLast fun b => { b with right := i, complete := b.opVal ≠ [] }) }
    else if c = '[' then
      match opAt (c :: cs) with
      | none => scan lp rp cs (i+1) st
      | some o =>
        if lp = '{' ∧ gpar ≠ 0 then scan lp rp cs (i+1) st
        else
          match st.modes with
          | [] => .err cOutside
          | m :: ms =>
            match lastAt st.lm ms.length with
            | none => .panic
            | some b =>
              if b.left = i then .err cInvalidCombination
              else if m = .right then
                (if o = b.opVal then .rewrite b.left i else .err cMix)
              else
                scan lp rp cs (i+1)
                  { st with modes := .right :: ms,
                            lm := modAt st.lm ms.length
                              (modLast fun b => { b with op := i, opVal := o }) }
    else scan lp rp cs (i+1) st

inductive DRes
  | ok (lm : LM) (e : Str)
  | err (code : Str) (e : Str)
  | panic
  | nofuel
  deriving Repr

/-- the expression after wrapping the part before a repeated operator in its own parentheses -/
def rewriteExpr (lp rp : Char) (e : Str) (l i : Nat) : Str :=
  e.take l ++ [lp] ++ (e.drop l).take (i - 1 - l) ++ [rp, ' '] ++ e.drop i

/-- `detectCombinations` (fuel bounds the number of rewrites) -/
def detect (lp rp : Char) : Nat → Str → DRes
  | fuel, e =>
    if Validate.parCount lp rp e 0 ≠ 0 then .err cImbalanced e else
    match scan lp rp e 0 {} with
    | .done lm => .ok lm e
    | .err c => .err c e
    | .panic => .panic
    | .rewrite l i =>
      match fuel with
      | 0 => .nofuel
      | f+1 => detect lp rp f (rewriteExpr lp rp e l i)

/-- operator tree as built by the combination parser; `nil` = Go `nil`, `empty` = `&tree.Node{}` -/
inductive CNode
  | nil
  | empty
  | leaf (t : Str)
  | comb (op : Str) (sl sr : List Str) (l r : CNode)
  deriving Repr, Inhabited, DecidableEq

structure PRes where
  node : CNode
  out : Str
  code : Str
  deriving Repr, Inhabited, DecidableEq

inductive PR
  | res (r : PRes)
  | panic
  | nofuel
  deriving Repr, Inhabited, DecidableEq

def trimL (p : Char → Bool) : Str → Str
  | [] => []
  | c :: cs => if p c then trimL p cs else c :: cs

def trimBoth (p : Char → Bool) (s : Str) : Str := (trimL p (trimL p s).reverse).reverse

/-- `strings.Trim(s, " ")` -/
def trimSp (s : Str) : Str := trimBoth (· = ' ') s

def isWs (c : Char) : Bool :=
  c = ' ' || c = '\t' || c = '\n' || c = '\r' || c.toNat = 11 || c.toNat = 12 || c.toNat = 0x85 || c.toNat = 0xA0

/-- `strings.TrimSpace` -/
def trimWs (s : Str) : Str := trimBoth isWs s

def isIgnoredShared (c : Char) : Bool := c = '(' || c = ')' || c = '{' || c = '}'

/-- Go `input[a:b]` for `a ≤ b ≤ len` -/
def slice (s : Str) (a b : Nat) : Str := (s.drop a).take (b - a)

def cleanShared (v : Str) : List Str :=
  let t := trimWs (trimBoth isIgnoredShared v)
  if t = [] then [] else [t]

/-- the boundary of the next lower level that encloses `b` and holds no combination itself -/
def enclosing (lm : LM) (k : Nat) (b : Bnd) : Option Bnd :=
  match k with
  | 0 => none
  | k'+1 => (lm[k']?.getD []).find? fun v => v.left < b.left && v.right > b.right && v.opVal == []

/-- `extractSharedComponents` for entry `idx` (`b`) of level index `k` (entries `es`) -/
def extractShared (input : Str) (lm : LM) (k idx : Nat) (es : List Bnd) (b : Bnd) : List Str × List Str :=
  let outer := enclosing lm k b
  let l :=
    if idx = 0 then
      match outer with
      | some v => slice input v.left b.left
      | none => input.take b.left
    else
      match es[idx-1]? with
      | some p => slice input p.right b.left
      | none => []
  let r :=
    match es[idx+1]? with
    | some nx => slice input b.right nx.left
    | none =>
      match outer with
      | some v => slice input b.right v.right
      | none => input.drop b.right
  (cleanShared l, cleanShared r)

def firstComplete : LM → Nat → Option (Nat × List Bnd)
  | [], _ => none
  | es :: rest, k => if es.any (·.complete) then some (k, es) else firstComplete rest (k+1)

inductive Side
  | child (c : CNode)
  | abort (r : PRes)
  | panic
  | nofuel

/-- one side of a combination: re-scan, then leaf or recursive parse -/
def side (lp rp : Char) (P : Str → Bool → PR) (input : Str) (soFar : CNode) (s : Str) : Side :=
  match detect lp rp (s.length + 1) s with
  | .panic => .panic
  | .nofuel => .nofuel
  | .err c _ => .abort ⟨soFar, input, c⟩
  | .ok lm' s' =>
    if lm'.isEmpty then
      let t := trimSp s'
      if t ≠ [] then .child (.leaf t) else .abort ⟨.nil, input, cEmptyLeaf⟩
    else
      match P s' true with
      | .panic => .panic
      | .nofuel => .nofuel
      | .res r =>
        if r.code ≠ cNoError ∧ r.code ≠ cNoCombinations then .abort ⟨.nil, r.out, r.code⟩
        else
          match r.node with
          | .nil | .empty =>
            let t := trimSp r.out
            .child (if t ≠ [] then .leaf t else .nil)
          | n => .child n

/-- joins the first-order combinations in order of their position by wAND (`tree.Combine`) -/
def finish (input : Str) : List CNode → PR
  | [] => .res ⟨.empty, input, cNoError⟩
  | x :: xs => .res ⟨xs.foldl (fun t y => .comb sWAND [] [] t y) x, input, cNoError⟩

/-- the loop over the entries of the first level that holds a complete combination -/
def procEntries (lp rp : Char) (P : Str → Bool → PR) (input : Str) (nested : Bool) (lm : LM)
    (k : Nat) (es : List Bnd) : List Bnd → Nat → List CNode → PR
  | [], _, acc => finish input acc
  | b :: bs, idx, acc =>
    if !b.complete then procEntries lp rp P input nested lm k es bs (idx+1) acc else
    let sh := extractShared input lm k idx es b
    let left := slice input b.left b.op
    let right := slice input (b.op + b.opVal.length + 2) b.right
    match side lp rp P input (.comb b.opVal sh.1 sh.2 .nil .nil) left with
    | .panic => .panic
    | .nofuel => .nofuel
    | .abort r => .res r
    | .child l =>
      match side lp rp P input (.comb b.opVal sh.1 sh.2 l .nil) right with
      | .panic => .panic
      | .nofuel => .nofuel
      | .abort r => .res r
      | .child r =>
        let node := CNode.comb b.opVal sh.1 sh.2 l r
        if !nested || es.length > 1 then procEntries lp rp P input nested lm k es bs (idx+1) (acc ++ [node])
        else .res ⟨node, input, cNoError⟩

/-- what `ParseIntoNodeTree` does with the result of `detectCombinations` -/
def afterDetect (lp rp : Char) (P : Str → Bool → PR) (nested : Bool) : DRes → PR
  | .panic => .panic
  | .nofuel => .nofuel
  | .err c e => .res ⟨.nil, e, c⟩
  | .ok lm input =>
    if lm.isEmpty then .res ⟨.leaf (trimSp input), trimSp input, cNoCombinations⟩
    else
      match firstComplete lm 0 with
      | none => .res ⟨.empty, input, cNoError⟩
      | some (k, es) => procEntries lp rp P input nested lm k es es 0 []

/-- `ParseIntoNodeTree(input, nested, lp, rp)`; `brace` selects `{ }` instead of `( )` -/
def parse (brace : Bool) : Nat → Str → Bool → PR
  | 0, _, _ => .nofuel
  | fuel+1, input, nested =>
    let lp := if brace then '{' else '('
    let rp := if brace then '}' else ')'
    if !brace && !(contains bAND input || contains bXOR input || contains bOR input || contains bBAND input) then
      .res ⟨.leaf (trimSp input), input, cNoCombinations⟩
    else
      afterDetect lp rp (parse brace fuel) nested (detect lp rp (input.length + 1) input)

/-- `parseComponent`, single occurrence: parse the content; on "operator outside combination"
    parse it again in parentheses -/
def parseContent (fuel : Nat) (content : Str) : PR :=
  match parse false fuel content false with
  | .res r => if r.code = cOutside then parse false fuel ('(' :: content ++ [')']) false else .res r
  | x => x

/-- canonical text of a tree (the harness prints the Go tree in the same form) -/
def showList : List Str → Str
  | [] => []
  | [x] => x
  | x :: xs => x ++ ['^'] ++ showList xs

def showNode : CNode → Str
  | .nil => ['N']
  | .empty => ['E']
  | .leaf t => ['L', '<'] ++ t ++ ['>']
  | .comb op sl sr l r =>
    ['C', '['] ++ op ++ ['|'] ++ showList sl ++ ['|'] ++ showList sr ++ [']', '('] ++ showNode l ++ [')', '('] ++ showNode r ++ [')']

end IGVerif.Combo
