import IGVerif.Model.PTree
import IGVerif.Model.Odo
import IGVerif.Model.Refs
import IGVerif.Model.Link
/-! Static-mode tabular export (`GenerateTabularOutputFromParsedStatements` →
    `generateStatementMatrix`), code-shaped on pure trees. Dynamic mode is not modelled. -/
namespace IGVerif.Tab
open IGVerif

structure Opts where
  ext : Bool := true        -- ProduceIGExtendedOutput
  ann : Bool := false       -- IncludeAnnotations
  gs  : Bool := false       -- Google Sheets (else CSV): only affects the leading-apostrophe rule
  deriving Repr, BEq, Inhabited

abbrev Row := List (Str × Str)     -- entryMap: key ↦ cell

def Row.get (r : Row) (k : Str) : Str :=
  match r.find? (fun p => p.1 = k) with
  | some p => p.2
  | none => []

def Row.set (r : Row) (k v : Str) : Row :=
  if r.any (fun p => p.1 = k) then r.map (fun p => if p.1 = k then (k, v) else p) else r ++ [(k, v)]

def kID : Str := str "Statement ID"
def kStmtAnn : Str := str "Statement Annotation"
def kLinkComps : Str := str "Logical Linkage (Components)"
def kLinkStmts : Str := str "Logical Linkage (Statements)"
def refSuffix : Str := str "-Ref"
def annSuffix : Str := str " (Annotation)"

/-- `shared.EscapeSymbolsForExport` -/
def escape (s : Str) : Str := s.map (fun c => if c = '"' then '\'' else c)

/-- `performOutputSpecificAdjustments` -/
def adjust (gs : Bool) (s : Str) : Str :=
  if gs && (escape s).head? = some '\'' then '\'' :: escape s else escape s

/-- `fmt.Sprint([]string)` -/
def sprintOps (ops : List Str) : Str := '[' :: joinWith [' '] ops ++ [']']

/-- statement field order of `Statement.StringFlat` -/
def flatOrder : List Nat :=
  [0,1,2,3,4,5,6,7,8,9,10,11,12,22,23,24,25,13,14,15,16,17,18,19,20,21,26]

mutual
/-- `Node.StringFlat` -/
def flatNode (fuel : Nat) : PNode → Str
  | .leaf t _ _ _ _ => t
  | .comb op sl sr _ _ l r =>
    match fuel with
    | 0 => []
    | fuel + 1 =>
    (if sharedNonEmpty sl then (sl.map (· ++ [' '])).flatten else []) ++
    flatNode fuel l ++ ' ' :: op ++ ' ' :: flatNode fuel r ++
    (if sharedNonEmpty sr then ' ' :: (sr.map (· ++ [' '])).flatten else [])
  | .stmt _ fs => match fuel with | 0 => [] | fuel + 1 => flatStmt fuel fs
  | .pairs _ ns =>
    match fuel, ns with
    | fuel + 1, .stmt _ fs :: _ => flatStmt fuel fs
    | _, _ => []
  | .empty => []
/-- `Statement.StringFlat(false)` -/
def flatStmt (fuel : Nat) (fs : PStmt) : Str :=
  match fuel with
  | 0 => []
  | fuel + 1 =>
  let out := flatFields fuel fs flatOrder
  out.dropLast
def flatFields (fuel : Nat) (fs : PStmt) : List Nat → Str
  | [] => []
  | i :: is =>
    (match fs.find? (fun p => p.1 = i) with
     | some p => let c := flatNode fuel p.2; if c.isEmpty then [] else c ++ [' ']
     | none => []) ++ flatFields fuel fs is
end

/-- one column of the permutation matrix: the alternatives of a leaf array together with the
    field they come from and the root of that field's tree (for linkage search) -/
structure Column where
  field : Nat
  root : PNode
  alts : List LeafV
  deriving Inhabited

def isComplexField (i : Nat) : Bool := [2, 6, 8, 10, 12, 15, 19, 21, 23, 25, 26].contains i

/-- `Statement.GenerateLeafArrays(true)`: field order of `generateLeafArrays` -/
def leafOrder : List Nat :=
  [0,1,2,3,4,5,6,7,8,9,10,11,12,22,23,24,25,13,14,15,16,17,18,19,20,21,26]

def columnsOf (fs : PStmt) : List Column :=
  leafOrder.flatMap fun i =>
    match fs.find? (fun p => p.1 = i) with
    | none => []
    | some p =>
      if isComplexField i then
        [{ field := i, root := p.2,
           alts := [{ path := [], node := p.2, esl := [], esr := [], comp := p.2.meta.ct, eann := p.2.meta.ann, esfx := p.2.meta.sfx }] }]
      else (leafArrays true {} [] p.2).map fun arr => { field := i, root := p.2, alts := arr }

/-- registry of component-level nested statements of one statement: key ↦ id, in order -/
structure Nested where
  key : List Nat
  id : Str
  node : PNode          -- S or P leaf
  field : Nat
  path : Link.NPath     -- position inside its field's tree (for statement-level linkage)
  deriving Inhabited

def nestedId (stmtId : Str) (k : Nat) : Str := '{' :: stmtId ++ '}' :: '.' :: natStr k

def register (reg : List Nested) (stmtId : Str) (key : List Nat) (node : PNode) (field : Nat) (path : Link.NPath) : List Nested × Str :=
  match reg.find? (fun n => n.key = key) with
  | some n => (reg, n.id)
  | none =>
    let id := nestedId stmtId (reg.length + 1)
    (reg ++ [{ key := key, id := id, node := node, field := field, path := path }], id)

/-- leaves (S / P nodes) of a complex field's tree with their paths and parents' operators -/
def stmtLeaves : PNode → Link.NPath → Option Str → List (PNode × Link.NPath × Option Str)
  | .comb op _ _ _ _ l r, p, _ => stmtLeaves l (p ++ [0]) (some op) ++ stmtLeaves r (p ++ [1]) (some op)
  | .empty, _, _ => []
  | n, p, par => [(n, p, par)]

def appendCell (existing sep v : Str) : Str := if existing.isEmpty then v else existing ++ sep ++ v

/-- private nodes of a chosen value (static mode) -/
def addPrivate (o : Opts) (stmtId : Str) (fieldKey : List Nat) (row : Row) (reg : List Nested)
    : List PNode → Nat → Row × List Nested
  | [], _ => (row, reg)
  | p :: ps, i =>
    let pcomp := p.meta.ct
    let (row, reg) :=
      match p with
      | .leaf t _ _ _ _ =>
        (row.set pcomp (appendCell (row.get pcomp) [','] (adjust o.gs t)), reg)
      | .stmt _ _ | .pairs _ _ =>
        if o.ext then
          -- the code caches the id per private node (pointer); the pure tree carries a copy of
          -- the node in every value it is linked to, so the node is identified by its content
          let (reg', id) := register reg stmtId (1000 :: ((p.meta.sfx.getD []) ++ '|' :: flatNode 64 p).map Char.toNat) p 1000 []
          (row.set (pcomp ++ refSuffix) (appendCell (row.get (pcomp ++ refSuffix)) [','] id), reg')
        else
          (row.set (pcomp ++ refSuffix) (appendCell (row.get (pcomp ++ refSuffix)) [','] (adjust o.gs (flatNode 64 p))), reg)
      | _ => (row, reg)
    addPrivate o stmtId fieldKey row reg ps (i + 1)

/-- component-level linkage expression contributed by column `col` for chosen alternative `v`
    (`generateLogicalLinksExpressionForGivenComponentValue`, static mode, collapsing on) -/
def compLinks (stmtId : Str) (col : Column) (v : LeafV) (refs : List (List Bool × List Refs.Ref)) : List Str :=
  -- key order: first leaf array of the root of the tree the column belongs to
  let keys : List LeafV := match leafArrays true {} [] col.root with | a :: _ => a | [] => []
  if isComplexField col.field then [] else
  if !(refs.any (fun r => r.1 = v.path)) then [] else
  keys.filterMap fun other =>
    if other.path = v.path then none else
    match refs.find? (fun r => r.1 = other.path) with
    | none => none
    | some r =>
      if r.2.isEmpty then none else
      let res := Link.find col.root (Link.toNPath v.path) (Link.toNPath other.path)
      if !res.1 then none else
      let ops := Link.collapse res.2
      some (sprintOps ops ++ '.' :: v.comp ++ '.' :: '[' ::
        joinWith [','] (r.2.map (fun x => stmtId ++ '.' :: x.str)) ++ [']'])

/-- rows (by index) in which each alternative of column `ci` occurs, range-compressed -/
def columnRefs (rows : List (List LeafV)) (ci : Nat) (col : Column) : List (List Bool × List Refs.Ref) :=
  col.alts.map fun a =>
    (a.path, Refs.build ((List.range rows.length).filter fun ri =>
      match rows[ri]? with
      | some row => (match row[ci]? with | some v => v.path = a.path | none => false)
      | none => false))

structure Result where
  rows : List Row
  deriving Inhabited

/-- statement-level linkage among the registered nested statements of one statement
    (`generateLogicalLinksExpressionForStatements`) -/
def nestedLinks (fs : PStmt) (reg : List Nested) (src : Nested) : Str :=
  let parts := reg.filterMap fun tgt =>
    if tgt.key = src.key then none else
    if tgt.field ≠ src.field || src.field = 1000 then none else
    match fs.find? (fun p => p.1 = src.field) with
    | none => none
    | some p =>
      let res := Link.find p.2 src.path tgt.path
      if !res.1 then none else
      some (sprintOps (Link.collapse res.2) ++ '[' :: tgt.id ++ [']'])
  joinWith [','] parts

def lastIndexOf (pat s : Str) : Option Nat :=
  ((List.range (s.length + 1)).reverse.find? fun i => isPrefix pat (s.drop i))

/-- one value (leaf) of the chosen alternative written into the row: text with shared text,
    private nodes, annotation -/
def leafCell (o : Opts) (stmtId : Str) (col : Column) (ci : Nat) (v : LeafV) (t : Str) (priv : List PNode)
    (row : Row) (reg : List Nested) : Row × List Nested :=
  let left := stringify v.esl
  let right := let r := stringify v.esr; if r.isEmpty then [] else ' ' :: r
  let cur := row.get v.comp
  let (val, skip) :=
    if !left.isEmpty then
      if !cur.isEmpty && isSuffix left cur then (' ' :: t ++ right, true)
      else (left ++ ' ' :: t ++ right, false)
    else (t ++ right, false)
  let valS := adjust o.gs val
  let row := row.set v.comp (if cur.isEmpty then valS else cur ++ (if skip then [] else [',']) ++ valS)
  let pr := addPrivate o stmtId [col.field, ci] row reg priv 0
  let row := pr.1
  let row :=
    if o.ann && annNonEmpty v.eann then
      let k := v.comp ++ annSuffix
      row.set k (appendCell (row.get k) [','] (adjust o.gs (v.eann.getD [])))
    else row
  (row, pr.2)

/-- one nested statement of a complex field: its id (IG Extended, registering it) or its flat
    text (IG Core) appended to the reference cell -/
def nestedEntry (o : Opts) (stmtId : Str) (col : Column) (key : Str)
    (entries : List (PNode × Link.NPath × Option Str)) (st : Row × List Nested) (ei : Nat) : Row × List Nested :=
  let (row, reg) := st
  let (en, ep, epar) := entries.getD ei (PNode.empty, [], none)
  let last : Bool := ei + 1 == entries.length
  let cur := row.get key
  let cur := if !cur.isEmpty && !isSuffix (str "] ") cur then cur ++ [','] else cur
  if o.ext then
    let (reg', id) := register reg stmtId (col.field :: ep) en col.field ep
    (row.set key (cur ++ id), reg')
  else
    let cell := cur ++ adjust false (flatNode 64 en)
    let cell := match last, epar with
      | false, some op => cell ++ ' ' :: '[' :: op ++ ']' :: [' ']
      | _, _ => cell
    (row.set key cell, reg)

/-- the nested statement(s) of a complex field: one entry per statement leaf of the field's tree -/
def nestedCell (o : Opts) (stmtId : Str) (col : Column) (v : LeafV) (n : PNode) (row : Row) (reg : List Nested) :
    Row × List Nested :=
  let entries := stmtLeaves n [] none
  let key := v.comp ++ refSuffix
  (List.range entries.length).foldl (nestedEntry o stmtId col key entries) (row, reg)

/-- one component column of one row -/
def cellStep (o : Opts) (stmtId : Str) (cols : List Column) (perm : List LeafV)
    (refs : List (List (List Bool × List Refs.Ref))) (st : Row × List Nested × List Str) (ci : Nat) :
    Row × List Nested × List Str :=
  let col := cols.getD ci default
  let v := perm.getD ci default
  let rr : Row × List Nested :=
    match v.node with
    | .leaf t _ _ _ priv => leafCell o stmtId col ci v t priv st.1 st.2.1
    | .empty => (st.1, st.2.1)
    | n => nestedCell o stmtId col v n st.1 st.2.1
  (rr.1, rr.2, st.2.2 ++ compLinks stmtId col v (refs.getD ci []))

/-- id of the `ri`-th atomic statement -/
def subId (stmtId : Str) (many : Bool) (ri : Nat) : Str :=
  if many then stmtId ++ '.' :: natStr (ri + 1) else stmtId

/-- one atomic statement (row) -/
def rowStep (o : Opts) (stmtId : Str) (stmtAnn : Option Str) (stmtLinks : Str) (cols : List Column)
    (perms : List (List LeafV)) (refs : List (List (List Bool × List Refs.Ref)))
    (acc : List Row × List Nested) (ri : Nat) : List Row × List Nested :=
  let perm := perms.getD ri []
  let row0 : Row := [(kID, subId stmtId (perms.length > 1) ri)]
  let row0 := match o.ann, stmtAnn with
    | true, some a => row0.set kStmtAnn (adjust o.gs a)
    | _, _ => row0
  let st := (List.range cols.length).foldl (cellStep o stmtId cols perm refs) (row0, acc.2, [])
  let row := if st.2.2.isEmpty then st.1 else st.1.set kLinkComps (joinWith [';'] st.2.2)
  let row := if stmtLinks.isEmpty then row else row.set kLinkStmts stmtLinks
  (acc.1 ++ [row], st.2.1)

/-- the alternatives of the statement's components, one list per component column -/
def permsOf (cols : List Column) : List (List LeafV) := (Odo.generate (cols.map (·.alts))).getD []

/-- the statement's own rows and the registry of the nested statements they refer to -/
def ownRows (o : Opts) (fs : PStmt) (stmtId : Str) (stmtAnn : Option Str) (stmtLinks : Str) : List Row × List Nested :=
  let cols := columnsOf fs
  let perms := permsOf cols
  let refs := (List.range cols.length).map fun ci => columnRefs perms ci (cols.getD ci default)
  (List.range perms.length).foldl (rowStep o stmtId stmtAnn stmtLinks cols perms refs) ([], [])

/-- `GenerateTabularOutputFromParsedStatement` for one statement (fields `fs`), including the
    row groups of its nested statements (IG Extended), which are exported after the statement's
    own rows, in registration order -/
def stmtRows (o : Opts) : Nat → PStmt → Str → Option Str → Str → List Row
  | 0, _, _, _, _ => []
  | fuel + 1, fs, stmtId, stmtAnn, stmtLinks =>
    let (rows, reg) := ownRows o fs stmtId stmtAnn stmtLinks
    let nestedRows := reg.flatMap fun ns =>
      let (nfs, nann) : PStmt × Option Str := match ns.node with
        | .stmt m f => (f, m.ann)
        | .pairs m (.stmt _ f :: _) => (f, m.ann)
        | _ => ([], none)
      let sub := stmtRows o fuel nfs ns.id nann []
      let lk := nestedLinks fs reg ns
      if lk.isEmpty then sub else
      let prefix? := (lastIndexOf (str "}.") ns.id).map (fun i => ns.id.take i)
      sub.map fun r =>
        match prefix? with
        | some pre =>
          if !pre.isEmpty && isPrefix pre (r.get kID) then
            let cur := r.get kLinkStmts
            r.set kLinkStmts (if cur.isEmpty then lk else cur ++ ',' :: lk)
          else r
        | none => r.set kLinkStmts lk
    rows ++ nestedRows

/-- top-level statements of a parse result (`GetTopLevelStatementNodes`) with their paths -/
def topStmts : PNode → Link.NPath → List (PStmt × Link.NPath)
  | .stmt _ fs, p => [(fs, p)]
  | .pairs _ ns, p => (ns.zipIdx.flatMap fun (n, i) => match n with | .stmt _ fs => [(fs, p ++ [i + 2])] | _ => [])
  | .comb _ _ _ _ _ l r, p => topStmts l (p ++ [0]) ++ topStmts r (p ++ [1])
  | _, _ => []

/-- `GenerateTabularOutputFromParsedStatements` on one parse result: one row list per
    top-level (expanded) statement -/
def exportAll (o : Opts) (root : PNode) (stmtId : Str) : List (List Row) :=
  let tops := topStmts root []
  let multi := tops.length > 1
  (List.range tops.length).map fun j =>
    let (fs, p) := tops.getD j ([], [])
    let id := if multi then stmtId ++ '.' :: natStr (j + 1) else stmtId
    let links : List Str :=
      if !multi then [] else
      (List.range tops.length).filterMap fun k =>
        if k = j then none else
        let (_, q) := tops.getD k ([], [])
        let res := Link.find root p q
        if !res.1 then none else
        some (sprintOps (Link.collapse res.2) ++ '.' :: '[' :: (stmtId ++ '.' :: natStr (k + 1)) ++ [']'])
    stmtRows o 16 fs id (some []) (joinWith [';'] links)

end IGVerif.Tab
