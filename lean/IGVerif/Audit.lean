import Lean
/-! `#audit_ns NS`: for every theorem whose name starts with `NS`, print the axioms it depends
    on (one `AUDIT name :: ax,ax` line each). Used by bin/check on every run. -/
open Lean Elab Command

elab "#audit_ns " ns:ident : command => do
  let env ← getEnv
  let nsName := ns.getId
  let names := env.constants.fold (init := #[]) fun acc n ci =>
    match ci with
    | .thmInfo _ => if nsName.isPrefixOf n && !n.isInternalDetail then acc.push n else acc
    | _ => acc
  let names := names.qsort (fun a b => a.toString < b.toString)
  for n in names do
    let axs ← liftCoreM (collectAxioms n)
    let axs := axs.qsort (fun a b => a.toString < b.toString)
    logInfo m!"AUDIT {n} :: {",".intercalate (axs.toList.map toString)}"

/-- `#audit_names n₁ n₂ …`: axioms of the named theorems -/
elab "#audit_names " ns:ident* : command => do
  for n in ns do
    let name := n.getId
    let env ← getEnv
    if env.contains name then
      let axs ← liftCoreM (collectAxioms name)
      let axs := axs.qsort (fun a b => a.toString < b.toString)
      logInfo m!"AUDIT {name} :: {",".intercalate (axs.toList.map toString)}"
    else
      logError m!"AUDIT-MISSING {name}"
