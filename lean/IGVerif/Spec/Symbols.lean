import IGVerif.Spec.Grammar
/-! Component symbols and the statement fields they fill (hand-written; `Props/Facts*.lean`
    checks this table against what `factgen` extracts from the parser source). -/
namespace IGVerif

def mkSym (n : String) (s c : Option Nat) : Sym := { name := n.toList, simple := s, complex := c }

def Sym.A    := mkSym "A" (some 0) none
def Sym.Ap   := mkSym "A,p" (some 1) (some 2)
def Sym.D    := mkSym "D" (some 3) none
def Sym.I    := mkSym "I" (some 4) none
def Sym.Bdir := mkSym "Bdir" (some 5) (some 6)
def Sym.Bdirp := mkSym "Bdir,p" (some 7) (some 8)
def Sym.Bind := mkSym "Bind" (some 9) (some 10)
def Sym.Bindp := mkSym "Bind,p" (some 11) (some 12)
def Sym.E    := mkSym "E" (some 13) none
def Sym.Ep   := mkSym "E,p" (some 14) (some 15)
def Sym.M    := mkSym "M" (some 16) none
def Sym.F    := mkSym "F" (some 17) none
def Sym.P    := mkSym "P" (some 18) (some 19)
def Sym.Pp   := mkSym "P,p" (some 20) (some 21)
def Sym.Cac  := mkSym "Cac" (some 22) (some 23)
def Sym.Cex  := mkSym "Cex" (some 24) (some 25)
def Sym.O    := mkSym "O" none (some 26)

def Sym.all : List Sym :=
  [Sym.A, Sym.Ap, Sym.D, Sym.I, Sym.Bdir, Sym.Bdirp, Sym.Bind, Sym.Bindp, Sym.Cac, Sym.Cex,
   Sym.E, Sym.Ep, Sym.M, Sym.F, Sym.P, Sym.Pp, Sym.O]

def Sym.simples : List Sym := Sym.all.filter (fun s => s.simple.isSome)
def Sym.nestables : List Sym := Sym.all.filter (fun s => s.complex.isSome)

def Sym.isProperty (s : Sym) : Bool := isSuffix (str ",p") s.name

end IGVerif
