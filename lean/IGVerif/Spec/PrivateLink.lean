import IGVerif.Spec.Grammar
/-! Private properties (C16): a property whose suffix equals the suffix of a component
    annotation is attached to every value of that annotation and withdrawn from the shared
    property tree (`ProcessPrivateComponentLinkages` + `RemoveNodeFromTree`, on pure trees:
    removal = promotion of the sibling). -/
namespace IGVerif

/-- (component field, simple property field, complex property field) -/
def privatePairs : List (Nat × Nat × Nat) :=
  [(0, 1, 2), (4, 24, 25), (5, 7, 8), (9, 11, 12), (13, 14, 15), (18, 20, 21)]

/-- first element of a suffix (before the delimiter `,`) -/
def suffixHead (s : Str) : Str := s.takeWhile (· ≠ ',')

/-- the node a removed property leaves behind as private node: component type made explicit -/
def asPrivate (v : LeafV) : PNode := v.node.withMeta (fun m => { m with ct := v.comp })

/-- remove the leaves at the given paths from a tree; `none` = nothing left -/
def removeLeaves (paths : List (List Bool)) : PNode → List Bool → Option PNode
  | .comb op sl sr m p l r, rp =>
    match removeLeaves paths l (false :: rp), removeLeaves paths r (true :: rp) with
    | some l', some r' => some (.comb op sl sr m p l' r')
    | some l', none => some l'
    | none, some r' => some r'
    | none, none => none
  | n, rp => if paths.contains rp.reverse then none else some n

/-- attach private nodes to the leaves of a component tree, by path -/
def attachPrivate (links : List (List Bool × List PNode)) : PNode → List Bool → PNode
  | .comb op sl sr m p l r, rp => .comb op sl sr m p (attachPrivate links l (false :: rp)) (attachPrivate links r (true :: rp))
  | .leaf t sl sr m p, rp =>
    match links.find? (fun k => k.1 = rp.reverse) with
    | some k => .leaf t sl sr m (p ++ k.2)
    | none => .leaf t sl sr m p
  | n, _ => n

def fieldOf (fs : PStmt) (i : Nat) : Option PNode := (fs.find? (fun p => p.1 = i)).map (·.2)

def setField (fs : PStmt) (i : Nat) (n : Option PNode) : PStmt :=
  match n with
  | some x => if fs.any (fun p => p.1 = i) then fs.map (fun p => if p.1 = i then (i, x) else p) else fs ++ [(i, x)]
  | none => fs.filter (fun p => p.1 ≠ i)

/-- one (component, property) pair of one statement -/
def linkPair (fs : PStmt) (compF propF : Nat) : PStmt :=
  match fieldOf fs compF, fieldOf fs propF with
  | some c, some p =>
    let srcs := (leavesOf c).filter (fun v => v.esfx.isSome && v.esfx ≠ some [])
    let tgts := (leavesOf p).filter (fun v => v.esfx.isSome && v.esfx ≠ some [])
    let links := srcs.map fun s =>
      (s.path, (tgts.filter (fun t => (t.esfx.map suffixHead) = (s.esfx.map suffixHead))).map asPrivate)
    let matched := (tgts.filter fun t => srcs.any (fun s => (t.esfx.map suffixHead) = (s.esfx.map suffixHead))).map (·.path)
    if matched.isEmpty then fs else
    let fs := setField fs compF (some (attachPrivate links c []))
    setField fs propF (removeLeaves matched p [])
  | _, _ => fs

/-- `ProcessPrivateComponentLinkages(s, false)` then `(s, true)` -/
def linkStmt (fs : PStmt) : PStmt :=
  let fs := privatePairs.foldl (fun acc t => linkPair acc t.1 t.2.1) fs
  privatePairs.foldl (fun acc t => linkPair acc t.1 t.2.2) fs

mutual
/-- linking applied to a statement and, recursively, to every nested statement -/
def linkNode (fuel : Nat) : PNode → PNode
  | .comb op sl sr m p l r => match fuel with
    | 0 => .comb op sl sr m p l r
    | fuel + 1 => .comb op sl sr m p (linkNode fuel l) (linkNode fuel r)
  | .stmt m fs => match fuel with
    | 0 => .stmt m fs
    | fuel + 1 => .stmt m (sortFields (linkStmt (linkFields fuel fs)))
  | .pairs m ns => match fuel with
    | 0 => .pairs m ns
    | fuel + 1 => .pairs m (linkList fuel ns)
  | n => n
def linkFields (fuel : Nat) : PStmt → PStmt
  | [] => []
  | (i, n) :: rest => match fuel with
    | 0 => (i, n) :: rest
    | fuel + 1 => (i, linkNode fuel n) :: linkFields fuel rest
def linkList (fuel : Nat) : List PNode → List PNode
  | [] => []
  | n :: rest => match fuel with
    | 0 => n :: rest
    | fuel + 1 => linkNode fuel n :: linkList fuel rest
end

/-- meaning of a statement with private properties -/
def denoteLinked (s : Stmt) : PNode := linkNode 64 (denoteTop s)

end IGVerif
