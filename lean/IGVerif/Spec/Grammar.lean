import IGVerif.Model.PTree
/-! The documented IG Script notation as an AST, its concrete syntax (`render`) and its
    documented meaning (`denote`): what a faithful parser must return for it. -/
namespace IGVerif

inductive Op3 | AND | OR | XOR
  deriving Repr, DecidableEq, Inhabited

def Op3.str : Op3 → Str
  | .AND => opAND | .OR => opOR | .XOR => opXOR

/-- ` [OP] ` without the surrounding blanks -/
def Op3.br (o : Op3) : Str := '[' :: o.str ++ [']']

/-- Content of one component annotation. -/
inductive Expr
  | leaf (t : Str)
  | comb (o : Op3) (l r : Expr)                         -- ( l [o] r )
  | chain (o : Op3) (e₁ e₂ : Expr) (es : List Expr)     -- ( e₁ [o] e₂ [o] … ), es ≠ [] ⇒ ≥ 3 operands
  | shared (l : Option Str) (e : Expr) (r : Option Str) -- ( l e r ) with e a combination
  /-- two combinations inside one component with text around and between them:
      `( l (e₁) m (e₂) r )` — linked by the within-component conjunction wAND -/
  | multi2 (l : Option Str) (e₁ : Expr) (m : Option Str) (e₂ : Expr) (r : Option Str)
  /-- three combinations: `( l (e₁) m₁ (e₂) m₂ (e₃) r )` -/
  | multi3 (l : Option Str) (e₁ : Expr) (m₁ : Option Str) (e₂ : Expr) (m₂ : Option Str) (e₃ : Expr) (r : Option Str)
  deriving Repr, Inhabited

/-- One of the component symbols, by index into `Sym.all`. -/
structure Sym where
  name : Str            -- e.g. "Bdir,p"
  simple : Option Nat   -- statement field filled by `Sym(...)`
  complex : Option Nat  -- statement field filled by `Sym{...}`
  deriving Repr, BEq, Inhabited, DecidableEq

structure Hdr where
  sym : Sym
  sfx : Option Str := none
  anno : Option Str := none     -- without the brackets
  deriving Repr, Inhabited

mutual
inductive Stmt
  | mk (parts : List Part)
inductive Part
  | ann (h : Hdr) (outerParens : Bool) (e : Expr)   -- Sym sfx [anno] ( e )
  | filler (w : Str)
  | nested (h : Hdr) (s : Stmt)                     -- Sym sfx [anno] { s }
  | ncomb (h : Hdr) (t : NTree)                     -- Sym { Sym{…} [o] Sym{…} }
  | pairs (t : GTree)                               -- { group [o] group }
inductive NTree
  | one (h : Hdr) (s : Stmt)
  | op (o : Op3) (l r : NTree)
inductive GTree
  | grp (s : Stmt)
  | op (o : Op3) (l r : GTree)
end

instance : Inhabited Stmt := ⟨.mk []⟩
instance : Inhabited Part := ⟨.filler []⟩
instance : Inhabited NTree := ⟨.one default default⟩
instance : Inhabited GTree := ⟨.grp default⟩

def Stmt.parts : Stmt → List Part
  | .mk ps => ps

/-! ### concrete syntax -/

def optPre (x : Option Str) : Str := match x with | some t => t ++ [' '] | none => []
def optPost (x : Option Str) : Str := match x with | some t => ' ' :: t | none => []

mutual
/-- `top = true`: directly inside the component's parentheses, where the outer pair of
    parentheses of a combination may be omitted. -/
def renderE : Expr → Str
  | .leaf t => t
  | .comb o l r => '(' :: renderE l ++ ' ' :: o.br ++ ' ' :: renderE r ++ [')']
  | .chain o e₁ e₂ es =>
      '(' :: renderE e₁ ++ ' ' :: o.br ++ ' ' :: renderE e₂ ++ renderChain o es ++ [')']
  | .shared l e r => '(' :: optPre l ++ renderE e ++ optPost r ++ [')']
  | .multi2 l e₁ m e₂ r => '(' :: optPre l ++ renderE e₁ ++ ' ' :: optPre m ++ renderE e₂ ++ optPost r ++ [')']
  | .multi3 l e₁ m₁ e₂ m₂ e₃ r =>
      '(' :: optPre l ++ renderE e₁ ++ ' ' :: optPre m₁ ++ renderE e₂ ++ ' ' :: optPre m₂ ++ renderE e₃ ++ optPost r ++ [')']
def renderChain (o : Op3) : List Expr → Str
  | [] => []
  | e :: es => ' ' :: o.br ++ ' ' :: renderE e ++ renderChain o es
end

/-- drop one outer pair of parentheses -/
def stripOuter (s : Str) : Str :=
  match s with
  | '(' :: rest => rest.dropLast
  | _ => s

def renderBody (outer : Bool) (e : Expr) : Str :=
  match e with
  | .leaf t => t
  | _ => if outer then renderE e else stripOuter (renderE e)

/-- symbol with its suffix: `Bdir1`, and `Bdir1,p` for a property symbol -/
def symWithSuffix (name : Str) (sfx : Str) : Str :=
  if isSuffix (str ",p") name then name.take (name.length - 2) ++ sfx ++ str ",p" else name ++ sfx

def renderHdr (h : Hdr) : Str :=
  symWithSuffix h.sym.name (h.sfx.getD []) ++ (match h.anno with | some a => '[' :: a ++ [']'] | none => [])

mutual
def renderS : Stmt → Str
  | .mk ps => renderPs ps
def renderPs : List Part → Str
  | [] => []
  | [p] => renderP p
  | p :: ps => renderP p ++ ' ' :: renderPs ps
def renderP : Part → Str
  | .ann h outer e => renderHdr h ++ '(' :: renderBody outer e ++ [')']
  | .filler w => w
  | .nested h s => renderHdr h ++ '{' :: renderS s ++ ['}']
  | .ncomb h t => renderHdr h ++ '{' :: renderNTop t ++ ['}']
  | .pairs t => '{' :: renderGTop t ++ ['}']
def renderN : NTree → Str
  | .one h s => renderHdr h ++ '{' :: renderS s ++ ['}']
  | .op o l r => '{' :: renderN l ++ ' ' :: o.br ++ ' ' :: renderN r ++ ['}']
def renderNTop : NTree → Str
  | .one h s => renderHdr h ++ '{' :: renderS s ++ ['}']
  | .op o l r => renderN l ++ ' ' :: o.br ++ ' ' :: renderN r
def renderG : GTree → Str
  | .grp s => renderS s
  | .op o l r => '{' :: renderG l ++ ' ' :: o.br ++ ' ' :: renderG r ++ ['}']
def renderGTop : GTree → Str
  | .grp s => renderS s
  | .op o l r => renderG l ++ ' ' :: o.br ++ ' ' :: renderG r
end

/-! ### documented meaning -/

def optList (x : Option Str) : List Str := match x with | some t => [t] | none => []

mutual
/-- tree of one annotation; `sl`/`sr` is text written around it inside its parentheses -/
def denoteE (sl sr : List Str) : Expr → PNode
  | .leaf t => .leaf t [] [] {} []
  | .comb o l r => .comb o.str sl sr {} [] (denoteE [] [] l) (denoteE [] [] r)
  | .chain o e₁ e₂ es =>
      denoteChain o sl sr (.comb o.str (if es.isEmpty then sl else []) (if es.isEmpty then sr else []) {} []
        (denoteE [] [] e₁) (denoteE [] [] e₂)) es
  | .shared l e r => denoteE (optList l) (optList r) e
  -- text between two combinations is shared right text of the first and shared left text of the second
  | .multi2 l e₁ m e₂ r =>
      .comb opWAND [] [] {} [] (denoteE (optList l) (optList m) e₁) (denoteE (optList m) (optList r) e₂)
  | .multi3 l e₁ m₁ e₂ m₂ e₃ r =>
      .comb opWAND [] [] {} []
        (.comb opWAND [] [] {} [] (denoteE (optList l) (optList m₁) e₁) (denoteE (optList m₁) (optList m₂) e₂))
        (denoteE (optList m₂) (optList r) e₃)
/-- a same-operator chain associates to the left; shared text sits on the outermost node -/
def denoteChain (o : Op3) (sl sr : List Str) (acc : PNode) : List Expr → PNode
  | [] => acc
  | [e] => .comb o.str sl sr {} [] acc (denoteE [] [] e)
  | e :: es => denoteChain o sl sr (.comb o.str [] [] {} [] acc (denoteE [] [] e)) es
end

def hdrMeta (h : Hdr) (m : Meta) : Meta :=
  { m with ct := h.sym.name, sfx := h.sfx, ann := h.anno.map (fun a => '[' :: a ++ [']']) }

/-- insert `n` under field `f`, joining with `op` when the field is already populated -/
def addField (op : Str) (f : Nat) (n : PNode) : PStmt → PStmt
  | [] => [(f, n)]
  | (g, m) :: rest => if g = f then (g, combineN op m n) :: rest else (g, m) :: addField op f n rest

/-- fields in declaration order of `tree.Statement` -/
def sortFields (s : PStmt) : PStmt :=
  (List.range 27).filterMap (fun i => (s.find? (fun p => p.1 = i)))

def Part.fillerText : Part → Str
  | .filler w => w
  | _ => []

def countNested : List Part → Nat
  | [] => 0
  | .nested .. :: ps => 1 + countNested ps
  | _ :: ps => countNested ps

/-- operator joining several single nested statements of one statement: the one written in
    the text between them (`… } [XOR] Cac{ …`), conjunction when none is written -/
def nestedOp (ps : List Part) : Str :=
  if countNested ps < 2 then opAND else
  let fill := (ps.map Part.fillerText)
  if fill.any (fun w => contains (str "[XOR]") w) then opXOR
  else if fill.any (fun w => contains (str "[OR]") w) then opOR
  else opAND

/-- merge of a group's statement with the components written outside the braces
    (`CopyComponentsFromStatement`: group value first, bAND) -/
def mergeStmt (g outside : PStmt) : PStmt :=
  sortFields (outside.foldl (fun acc p => addField opBAND p.1 p.2 acc) g)

mutual
def denoteS : Stmt → PStmt
  | .mk ps =>
    -- simple components first (bAND between annotations of one symbol, source order), then
    -- nested-statement combinations, then single nested statements (AND between them)
    let s₁ := denoteSimple ps []
    let s₂ := denoteCombos ps s₁
    let s₃ := denoteNested (nestedOp ps) ps s₂
    sortFields s₃
def denoteSimple : List Part → PStmt → PStmt
  | [], acc => acc
  | .ann h _ e :: ps, acc =>
    let n := (denoteE [] [] e).withMeta (hdrMeta h)
    denoteSimple ps (match h.sym.simple with | some f => addField opBAND f n acc | none => acc)
  | _ :: ps, acc => denoteSimple ps acc
def denoteCombos : List Part → PStmt → PStmt
  | [], acc => acc
  | .ncomb h t :: ps, acc =>
    -- the combination's root carries the symbol as component type and the written header
    -- (symbol, suffix, annotation) as left shared text;
    -- the statements below it carry only their own suffix / annotation
    let n := match denoteN t with
      | .comb op _ sr m p l r => PNode.comb op [renderHdr h] sr { m with ct := h.sym.name } p l r
      | x => x
    denoteCombos ps (match h.sym.complex with | some f => addField opAND f n acc | none => acc)
  | _ :: ps, acc => denoteCombos ps acc
def denoteNested (op : Str) : List Part → PStmt → PStmt
  | [], acc => acc
  | .nested h s :: ps, acc =>
    let n := nestedNode h s
    denoteNested op ps (match h.sym.complex with | some f => addField op f n acc | none => acc)
  | _ :: ps, acc => denoteNested op ps acc
def denoteN : NTree → PNode
  | .one h s => .stmt { (hdrMeta h {}) with ct := [] } (denoteS s)
  | .op o l r => .comb o.str [] [] {} [] (denoteN l) (denoteN r)
/-- the value of a nested component: the inner statement — or, when the inner statement contains
    a component-pair combination, the tree of the statements it expands into, whose root
    carries the component's header -/
def nestedNode (h : Hdr) : Stmt → PNode
  | .mk ips =>
    let fs := sortFields (denoteNested (nestedOp ips) ips (denoteCombos ips (denoteSimple ips [])))
    match pairsIn fs ips with
    | none => .stmt (hdrMeta h {}) fs
    | some pn => pn.withMeta (hdrMeta h)
/-- the first component-pair combination among the parts, expanded over `outside` -/
def pairsIn (outside : PStmt) : List Part → Option PNode
  | [] => none
  | .pairs t :: _ => some (groupsG outside t)
  | _ :: ps => pairsIn outside ps
/-- one complete statement per group (group merged with everything outside), linked by the
    written operator tree -/
def groupsG (outside : PStmt) : GTree → PNode
  | .grp (.mk gps) =>
    .pairs {} [.stmt {} (mergeStmt (sortFields (denoteNested (nestedOp gps) gps (denoteCombos gps (denoteSimple gps [])))) outside)]
  | .op o l r => .comb o.str [] [] {} [] (groupsG outside l) (groupsG outside r)
end

def Part.isPairs : Part → Bool
  | .pairs _ => true
  | _ => false

def stmtWithoutPairs : Stmt → Stmt
  | .mk ps => .mk (ps.filter (fun p => !p.isPairs))

def firstPairs : List Part → Option GTree
  | [] => none
  | .pairs t :: _ => some t
  | _ :: ps => firstPairs ps

def denoteG (outside : PStmt) (t : GTree) : PNode := groupsG outside t

/-- result of `parser.ParseStatement`: one root node -/
def denoteTop (s : Stmt) : PNode :=
  match firstPairs s.parts with
  | none => .stmt {} (denoteS s)
  | some t => denoteG (denoteS (stmtWithoutPairs s)) t

end IGVerif
