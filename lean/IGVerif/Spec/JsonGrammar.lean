import IGVerif.Basic
/-! RFC 8259 JSON texts as an inductive grammar over characters (objects, arrays, strings and
    non-negative integers — all the visual export emits), with optional whitespace around
    every value and structural character. -/
namespace IGVerif.JG
open IGVerif

def wsChar (c : Char) : Bool := c = ' ' || c = '\n' || c = '\t' || c = '\r'

/-- a run of JSON whitespace -/
def WS (s : Str) : Prop := ∀ c ∈ s, wsChar c = true

def hexChar (c : Char) : Bool := c.isDigit || ('a' ≤ c && c ≤ 'f') || ('A' ≤ c && c ≤ 'F')

/-- may appear unescaped inside a string -/
def plainChar (c : Char) : Bool := c ≠ '"' && c ≠ '\\' && decide (32 ≤ c.toNat)

def escLetter (c : Char) : Bool :=
  c = '"' || c = '\\' || c = '/' || c = 'b' || c = 'f' || c = 'n' || c = 'r' || c = 't'

/-- characters between the quotes of a JSON string -/
inductive StrBody : Str → Prop
  | nil : StrBody []
  | plain (c : Char) (rest : Str) : plainChar c = true → StrBody rest → StrBody (c :: rest)
  | esc (c : Char) (rest : Str) : escLetter c = true → StrBody rest → StrBody ('\\' :: c :: rest)
  | escU (a b c d : Char) (rest : Str) : hexChar a = true → hexChar b = true → hexChar c = true →
      hexChar d = true → StrBody rest → StrBody ('\\' :: 'u' :: a :: b :: c :: d :: rest)

def digits (s : Str) : Prop := s ≠ [] ∧ (∀ c ∈ s, c.isDigit = true) ∧ (s.length > 1 → s.head? ≠ some '0')

mutual
/-- a JSON value without surrounding whitespace -/
inductive Value : Str → Prop
  | str (s : Str) : StrBody s → Value ('"' :: s ++ ['"'])
  | num (s : Str) : digits s → Value s
  | objEmpty (w : Str) : WS w → Value ('{' :: w ++ ['}'])
  | obj (ms : Str) : Members ms → Value ('{' :: ms ++ ['}'])
  | arrEmpty (w : Str) : WS w → Value ('[' :: w ++ [']'])
  | arr (es : Str) : Elements es → Value ('[' :: es ++ [']'])
/-- value with optional whitespace on both sides -/
inductive Padded : Str → Prop
  | mk (w₁ v w₂ : Str) : WS w₁ → Value v → WS w₂ → Padded (w₁ ++ v ++ w₂)
/-- `ws string ws : element`, comma separated, at least one -/
inductive Members : Str → Prop
  | one (w₁ k w₂ pv : Str) : WS w₁ → StrBody k → WS w₂ → Padded pv →
      Members (w₁ ++ '"' :: k ++ '"' :: w₂ ++ ':' :: pv)
  | cons (w₁ k w₂ pv rest : Str) : WS w₁ → StrBody k → WS w₂ → Padded pv → Members rest →
      Members (w₁ ++ '"' :: k ++ '"' :: w₂ ++ ':' :: pv ++ ',' :: rest)
/-- comma separated padded values, at least one -/
inductive Elements : Str → Prop
  | one (pv : Str) : Padded pv → Elements pv
  | cons (pv rest : Str) : Padded pv → Elements rest → Elements (pv ++ ',' :: rest)
end

/-- a JSON text -/
def ValidJSON (s : Str) : Prop := Padded s

end IGVerif.JG
