import IGVerif.Spec.Symbols
/-! `Supported`: the decidable class of statements on which the parser's hand-unrolled
    classification patterns (IGParserStructs.go, BRACED_nTH_ORDER…) recognise braced fragments
    as the notation defines them. The complement is the known-finding class `C02-regex-shape`
    (DESIGN.md L8/L9). -/
namespace IGVerif

def Expr.hasOp : Expr → Bool
  | .leaf _ => false
  | _ => true

def Part.isAnn : Part → Bool
  | .ann .. => true
  | _ => false
def Part.isFiller : Part → Bool
  | .filler _ => true
  | _ => false
def Part.isNested : Part → Bool
  | .nested .. => true
  | _ => false
def Part.isNcomb : Part → Bool
  | .ncomb .. => true
  | _ => false

def Part.nestedSym : Part → Option Sym
  | .nested h _ => some h.sym
  | _ => none

/-- only parenthesised components and filler -/
def flatParts (ps : List Part) : Bool := ps.all (fun p => p.isAnn || p.isFiller)

def nonFiller (ps : List Part) : List Part := ps.filter (fun p => !p.isFiller)

/-- does any annotation in these parts contain a logical operator? -/
def partsHaveOp (ps : List Part) : Bool :=
  ps.any fun p => match p with
    | .ann _ _ e => e.hasOp
    | _ => false

def dupNestedSyms (ps : List Part) : Bool :=
  let syms := ps.filterMap Part.nestedSym
  syms.any (fun s => (syms.filter (· == s)).length > 1)

def flatGroupsOnly : GTree → Bool
  | .grp s => flatParts s.parts
  | .op _ l r => flatGroupsOnly l && flatGroupsOnly r

def pairCount : List Part → Nat
  | [] => 0
  | .pairs _ :: ps => 1 + pairCount ps
  | _ :: ps => pairCount ps

mutual
/-- inside a nested statement: components, filler, further nested statements and at most one
    component-pair combination with flat groups; no nested-statement combination; two nested
    statements of one symbol only when operator-free -/
def supNestedParts : List Part → Bool
  | [] => true
  | .ann .. :: ps => supNestedParts ps
  | .filler _ :: ps => supNestedParts ps
  | .nested _ s :: ps => supNestedS s && supNestedParts ps
  | .pairs t :: ps => flatGroupsOnly t && supNestedParts ps
  | _ :: _ => false
def supNestedS : Stmt → Bool
  | .mk ps =>
    -- with a pair combination inside the nested statement, the components written outside the
    -- pair braces must be single values (a component combination before the braces makes the
    -- nested parse fail with INVALID_COMBINATION_IN_INPUT)
    supNestedParts ps && pairCount ps ≤ 1 && (pairCount ps = 0 || !(partsHaveOp ps))
end

def supNestedStmt (s : Stmt) : Bool :=
  supNestedS s && !(dupNestedSyms s.parts)

/-- operand of a nested-statement combination: flat, or flat plus one flat nested component
    as the last non-filler part -/
def supOperand (s : Stmt) : Bool :=
  let ps := nonFiller s.parts
  match ps.reverse with
  | .nested _ inner :: rest => flatParts inner.parts && rest.all Part.isAnn
  | _ => ps.all Part.isAnn

def supNTree : NTree → Bool
  | .one _ s => supOperand s
  | .op _ l r => supNTree l && supNTree r

def supGTree : GTree → Bool
  -- a group: components, optionally followed by one nested component with a flat statement
  | .grp s => supOperand s
  | .op _ l r => supGTree l && supGTree r

/-- `supported` without its last conjunct (two same-symbol single nested statements that contain
    logical operators): on this class the only known failure is a reordering of those statements -/
def supportedUpToDup (s : Stmt) : Bool :=
  let ps := s.parts
  ps.all (fun p => match p with
    | .ann .. => true
    | .filler _ => true
    | .nested _ inner => supNestedS inner
    | .ncomb _ t => supNTree t
    | .pairs t => supGTree t)
  && (ps.filter Part.isPairs).length ≤ 1

/-- top level -/
def supported (s : Stmt) : Bool :=
  let ps := s.parts
  ps.all (fun p => match p with
    | .ann .. => true
    | .filler _ => true
    | .nested _ inner => supNestedStmt inner
    | .ncomb _ t => supNTree t
    | .pairs t => supGTree t)
  && (ps.filter Part.isPairs).length ≤ 1
  -- two single nested statements of one symbol: only when nothing in them can be mistaken
  -- for a combination (no logical operator inside)
  && (!(dupNestedSyms ps) || ps.all (fun p => match p with
        | .nested _ inner => flatParts inner.parts && !(partsHaveOp inner.parts)
        | _ => true))

mutual
def Expr.parenText : Expr → Bool
  | .leaf t => t.contains '('
  | .comb _ l r => l.parenText || r.parenText
  | .chain _ a b es => a.parenText || b.parenText || parenTextList es
  | .shared l e r => (l.getD []).contains '(' || (r.getD []).contains '(' || e.parenText
  | .multi2 l e₁ m e₂ r => (l.getD []).contains '(' || (m.getD []).contains '(' || (r.getD []).contains '(' || e₁.parenText || e₂.parenText
  | .multi3 l e₁ m₁ e₂ m₂ e₃ r =>
    (l.getD []).contains '(' || (m₁.getD []).contains '(' || (m₂.getD []).contains '(' || (r.getD []).contains '(' ||
    e₁.parenText || e₂.parenText || e₃.parenText
def parenTextList : List Expr → Bool
  | [] => false
  | e :: es => e.parenText || parenTextList es
end

/-- a parenthesised phrase inside a combination (in a value or in shared text): the
    boundary-based extraction of `ParseIntoNodeTree` treats it as a further parenthesis level
    (known-finding class `C01-parenthesised-phrase-inside-combination`) -/
def parenInCombo (s : Stmt) : Bool :=
  s.parts.any fun p => match p with
    | .ann _ _ e => e.hasOp && e.parenText
    | _ => false

mutual
def Expr.hasMulti : Expr → Bool
  | .leaf _ => false
  | .comb _ l r => l.hasMulti || r.hasMulti
  | .chain _ a b es => a.hasMulti || b.hasMulti || hasMultiList es
  | .shared _ e _ => e.hasMulti
  | .multi2 .. => true
  | .multi3 .. => true
def hasMultiList : List Expr → Bool
  | [] => false
  | e :: es => e.hasMulti || hasMultiList es
end

/-- several combinations in one component (wAND) written as operand of another combination -/
def Expr.nestedMulti : Expr → Bool
  | .multi2 _ a _ b _ => a.hasMulti || b.hasMulti
  | .multi3 _ a _ b _ c _ => a.hasMulti || b.hasMulti || c.hasMulti
  | e => e.hasMulti

def hasNestedMulti (s : Stmt) : Bool :=
  s.parts.any fun p => match p with
    | .ann _ _ e => e.nestedMulti
    | _ => false

def Expr.isMulti : Expr → Bool
  | .multi2 .. => true
  | .multi3 .. => true
  | _ => false

/-- a component annotation with several combinations that shares its component type with a
    further annotation: the two are joined by the implicit conjunction, so the wAND node is
    not the root of the component's tree -/
def multiWithSibling (s : Stmt) : Bool :=
  let anns := s.parts.filterMap fun p => match p with | .ann h _ e => some (h.sym.simple, e.isMulti) | _ => none
  anns.any fun a => a.2 && (anns.filter (fun b => b.1 = a.1)).length > 1

/-- the wAND node of a component is not the root of the component's tree (known-finding class
    of C04 / C12) — top level of the statement only -/
def wandBelowRootTop (s : Stmt) : Bool := hasNestedMulti s || multiWithSibling s

mutual
/-- `wandBelowRootTop` for the statement and every statement nested in it -/
def wandBelowRoot : Stmt → Bool
  | .mk ps => wandBelowRootTop (.mk ps) || wbrParts ps
def wbrParts : List Part → Bool
  | [] => false
  | .nested _ s :: ps => wandBelowRoot s || wbrParts ps
  | .ncomb _ t :: ps => wbrN t || wbrParts ps
  | .pairs t :: ps => wbrG t || wbrParts ps
  | _ :: ps => wbrParts ps
def wbrN : NTree → Bool
  | .one _ s => wandBelowRoot s
  | .op _ l r => wbrN l || wbrN r
def wbrG : GTree → Bool
  | .grp s => wandBelowRoot s
  | .op _ l r => wbrG l || wbrG r
end

end IGVerif
