/-! Shared basics: strings are `List Char` (`Str`) in every model so that character-level
    theorems need no `String` internals; conversion happens only at the driver boundary. -/
namespace IGVerif

abbrev Str := List Char

def str (x : String) : Str := x.toList
def Str.toString (x : Str) : String := String.ofList x

instance : Coe String Str := ⟨String.toList⟩

/-- join with a separator -/
def joinWith (sep : Str) : List Str → Str
  | [] => []
  | [x] => x
  | x :: xs => x ++ sep ++ joinWith sep xs

/-- `shared.StringifySlices`: whitespace-joined -/
def stringify (xs : List Str) : Str := joinWith [' '] xs

/-- decimal rendering of a natural number (Go `strconv.Itoa` on non-negative ints) -/
def natStr (n : Nat) : Str := (Nat.repr n).toList

/-- does `p` occur as a prefix of `l` -/
def isPrefix : Str → Str → Bool
  | [], _ => true
  | _ :: _, [] => false
  | a :: as, b :: bs => a == b && isPrefix as bs

def isSuffix (p l : Str) : Bool := isPrefix p.reverse l.reverse

/-- replace all (non-overlapping, left to right) occurrences of `pat` (non-empty) by `rep` -/
def replaceAll (pat rep : Str) : Str → Str
  | [] => []
  | c :: cs =>
    if pat ≠ [] ∧ isPrefix pat (c :: cs) then
      rep ++ replaceAll pat rep ((c :: cs).drop pat.length)
    else c :: replaceAll pat rep cs
termination_by l => l.length
decreasing_by
  all_goals simp_wf
  · rename_i h
    have : pat.length > 0 := by
      cases pat with
      | nil => simp at h
      | cons _ _ => simp
    omega

def contains (pat l : Str) : Bool :=
  match l with
  | [] => pat.isEmpty
  | c :: cs => isPrefix pat (c :: cs) || contains pat cs

end IGVerif
