import IGVerif.Gen.Facts
import IGVerif.Spec.Symbols
import IGVerif.Spec.Shape
import IGVerif.Model.Tab
import IGVerif.Model.Link
import IGVerif.Model.Vis
import IGVerif.Model.Dov
/-! Obligations that tie hand-written model tables to facts regenerated from /repo (shared by
    several properties). Each is re-proved by `lake build` on every run. -/
namespace IGVerif.Ties
open IGVerif

def fieldIdx (name : String) : Nat := (Gen.statementFields.idxOf? name).getD 99

/-- statement field names of the model, by index -/
theorem fields_27 : Gen.statementFields.length = 27 := by decide

/-- `generateLeafArrays` visits the fields in the order the tabular model uses, and treats
    exactly the model's complex fields as single-element arrays -/
theorem leaf_order :
    Gen.leafArrayOrder.map (fun p => fieldIdx p.1) = Tab.leafOrder ∧
    (Gen.leafArrayOrder.filter (fun p => p.2.2)).map (fun p => fieldIdx p.1) =
      Tab.leafOrder.filter Tab.isComplexField := by decide

/-- `Statement.StringFlat` / `StringFlatStatement` print the fields in the model's order with
    the model's symbols -/
theorem flat_order :
    Gen.order_StringFlat.map (fun p => fieldIdx p.1) = Tab.flatOrder ∧
    Gen.order_StringFlatStatement.map (fun p => (fieldIdx p.1, p.2)) =
      Tab.flatOrder.map (fun i => (i, String.ofList (Vis.fieldSymbol i))) := by decide

/-- `PrintTree` appends the components in the model's order, for both positions of the
    activation conditions -/
def printOrder (ac : Bool) : List Nat :=
  (Gen.printTreeOrder.filter (fun g => g.1 = "always" || (g.1 = "acFirst" && ac) || (g.1 = "notAcFirst" && !ac))).flatMap
    (fun g => g.2.map fieldIdx)

theorem print_order : printOrder true = Vis.printedFields true ∧ printOrder false = Vis.printedFields false := by
  decide

/-- `GetPropertyComponent`: component → its simple and complex property fields -/
theorem property_table :
    Gen.propertyComponentTable.map (fun p => (p.1, p.2.map fieldIdx)) =
    ["A", "Bdir", "Bind", "E", "P"].map (fun c => (c, Vis.propFields c.toList)) := by decide

/-- every statement field is printed by `PrintTree` or reached as the property of a printed one -/
theorem every_field_printed :
    (List.range 27).all (fun i => (Vis.printedFields false).contains i ||
      (["A", "Bdir", "Bind", "E", "P"].any fun c => (Vis.propFields c.toList).contains i)) = true := by decide

/-- `CopyComponentsFromStatement` copies every field into the same field, combining with bAND,
    target first -/
theorem copy_wiring :
    Gen.copyWiring = Gen.statementFields.map (fun f => ("stmtToCopyTo." ++ f, "stmtToCopyTo." ++ f, "stmtToCopyFrom." ++ f)) ∧
    Gen.copyCombine = ["targetComponent", "sourceComponent", "bAND"] := by decide

/-- nested statements: symbol → complex field, as in the specification's symbol table -/
theorem nested_wiring :
    let code := Gen.nestedWiring.map (fun p => (p.1, fieldIdx p.2.1, fieldIdx p.2.2))
    let spec := Sym.nestables.map (fun s => (String.ofList s.name, s.complex.getD 99, s.complex.getD 99))
    code.all (spec.contains ·) = true ∧ spec.all (code.contains ·) = true ∧ code.length = spec.length := by decide

/-- private-property pairing of `ProcessPrivateComponentLinkages` -/
theorem private_link_table :
    Gen.privateLinkTable.map (fun p => (p.1, fieldIdx p.2.1, fieldIdx p.2.2)) =
    [("A", 1, 2), ("I", 24, 25), ("Bdir", 7, 8), ("Bind", 11, 12), ("E", 14, 15), ("P", 20, 21)] := by decide

/-- DoV: which local each field is bound to, which locals are summed, how the total is formed -/
theorem dov_wiring :
    (Gen.dovLeading.map (fun v => ((Gen.dovBindings.find? (fun b => b.1 = v)).map (fun b => fieldIdx b.2)).getD 99)) =
      Dov.leadingFields ∧
    Gen.dovAggregate = "statesOnGivenLevel := leadingStmtStates,1,1" ∧
    Gen.dovCondition = "conditionsComplexity := []int{activationConditionSimpleComplexity + activationConditionComplexComplexity},1" ∧
    Gen.dovTotal = "statesOnGivenLevel * conditionsComplexity" ∧
    Gen.dovBindings.length = 27 ∧
    (Gen.dovBindings.map (fun b => fieldIdx b.2)) = List.range 27 := by decide

theorem dov_node_cases :
    Gen.dovNodeCases = [(["AND", "bAND", "wAND"], "leftComplexity + rightComplexity - 1"),
      (["XOR"], "leftComplexity + rightComplexity"), (["OR"], "leftComplexity + rightComplexity + 1")] := by decide

theorem dov_helpers :
    Gen.helper_AggregateIfGreaterThan = ["sum := 0", "for i < len(arr)", "i := 0", "if arr[i] > threshold",
      "sum += arr[i]", "if sum > defaultValue", "return sum", "return defaultValue"] ∧
    Gen.helper_FindMaxValue = ["max := 0", "for i < len(arr)", "i := 0", "if arr[i] > max", "max += arr[i]",
      "if max > defaultValue", "return max", "return defaultValue"] := by decide

def const (name : String) : String := ((Gen.treeConsts.find? (fun p => p.1 = name)).map (·.2)).getD "?"

/-- the literal strings the models use are the constants of the code -/
theorem model_constants :
    String.ofList opAND = const "AND" ∧ String.ofList opOR = const "OR" ∧ String.ofList opXOR = const "XOR" ∧
    String.ofList opBAND = const "SAND_BETWEEN_COMPONENTS" ∧ String.ofList opWAND = const "SAND_WITHIN_COMPONENTS" ∧
    String.ofList Tab.refSuffix = const "REF_SUFFIX" ∧ String.ofList Tab.annSuffix = const "ANNOTATION" ∧
    String.ofList Tab.kStmtAnn = const "STATEMENT_ANNOTATION" := by decide

/-- adjacent operators are merged for exactly the conjunction class {AND, bAND, wAND} at every
    site that builds a linkage cell (component level and both statement levels) -/
theorem collapse_sites :
    Gen.collapseCallSites.map (·.2) =
      List.replicate 3 "[]string{tree.AND, tree.SAND_BETWEEN_COMPONENTS, tree.SAND_WITHIN_COMPONENTS}" ∧
    Gen.collapseCallSites.map (·.1) =
      ["generateLogicalLinksExpressionForStatements", "generateLogicalLinkageForExtrapolatedStatements",
       "generateLogicalLinksExpressionForGivenComponentValue"] ∧
    (Link.collapsible opAND && Link.collapsible opBAND && Link.collapsible opWAND && !Link.collapsible opOR && !Link.collapsible opXOR) = true := by
  decide

end IGVerif.Ties
