import IGVerif.Spec.Grammar
import IGVerif.Proofs.Reorder
import IGVerif.Spec.Symbols
/-! C18 — order of different components and unannotated text do not matter. -/
namespace IGVerif.C18
open IGVerif

/-- the meaning of a statement reads unannotated text only to find an operator between two
    single nested statements; every other word or punctuation is skipped -/
theorem simple_skips_filler (w : Str) (ps : List Part) (acc : PStmt) :
    denoteSimple (.filler w :: ps) acc = denoteSimple ps acc := by simp [denoteSimple]

theorem combos_skip_filler (w : Str) (ps : List Part) (acc : PStmt) :
    denoteCombos (.filler w :: ps) acc = denoteCombos ps acc := by simp [denoteCombos]

theorem nested_skip_filler (op : Str) (w : Str) (ps : List Part) (acc : PStmt) :
    denoteNested op (.filler w :: ps) acc = denoteNested op ps acc := by simp [denoteNested]

theorem count_skips_filler (w : Str) (ps : List Part) : countNested (.filler w :: ps) = countNested ps := by
  simp [countNested]

/-- general position: a filler part anywhere in the part list is skipped by the three passes -/
theorem simple_insert (w : Str) (pre post : List Part) (acc : PStmt) :
    denoteSimple (pre ++ .filler w :: post) acc = denoteSimple (pre ++ post) acc := by
  induction pre generalizing acc with
  | nil => simp [denoteSimple]
  | cons p pre ih => cases p <;> simp [denoteSimple, ih]

theorem combos_insert (w : Str) (pre post : List Part) (acc : PStmt) :
    denoteCombos (pre ++ .filler w :: post) acc = denoteCombos (pre ++ post) acc := by
  induction pre generalizing acc with
  | nil => simp [denoteCombos]
  | cons p pre ih => cases p <;> simp [denoteCombos, ih]

theorem nested_insert (op : Str) (w : Str) (pre post : List Part) (acc : PStmt) :
    denoteNested op (pre ++ .filler w :: post) acc = denoteNested op (pre ++ post) acc := by
  induction pre generalizing acc with
  | nil => simp [denoteNested]
  | cons p pre ih => cases p <;> simp [denoteNested, ih]

theorem count_insert (w : Str) (pre post : List Part) :
    countNested (pre ++ .filler w :: post) = countNested (pre ++ post) := by
  induction pre with
  | nil => simp [countNested]
  | cons p pre ih => cases p <;> simp [countNested, ih]

/-- inserting unannotated text that spells no bracketed operator leaves the joining operator
    of single nested statements unchanged -/
theorem nestedOp_insert (w : Str) (pre post : List Part)
    (hx : contains (str "[XOR]") w = false) (ho : contains (str "[OR]") w = false) :
    nestedOp (pre ++ .filler w :: post) = nestedOp (pre ++ post) := by
  simp only [nestedOp, count_insert]
  simp [List.any_append, Part.fillerText, hx, ho]

/-- inserting a word or punctuation between annotations never changes the parsed statement -/
theorem denote_insert_filler (w : Str) (pre post : List Part)
    (hx : contains (str "[XOR]") w = false) (ho : contains (str "[OR]") w = false) :
    denoteS (.mk (pre ++ .filler w :: post)) = denoteS (.mk (pre ++ post)) := by
  simp only [denoteS, simple_insert, combos_insert, nested_insert, nestedOp_insert w pre post hx ho]

/-- … nor does changing it -/
theorem denote_change_filler (w w' : Str) (pre post : List Part)
    (hx : contains (str "[XOR]") w = false) (ho : contains (str "[OR]") w = false)
    (hx' : contains (str "[XOR]") w' = false) (ho' : contains (str "[OR]") w' = false) :
    denoteS (.mk (pre ++ .filler w :: post)) = denoteS (.mk (pre ++ .filler w' :: post)) := by
  rw [denote_insert_filler w pre post hx ho, denote_insert_filler w' pre post hx' ho']

example : contains (str "[XOR]") (str "shall, in time") = false ∧ contains (str "[OR]") (str "shall, in time") = false := by decide

/-- **Order of different components does not matter**: swapping two adjacent parts (annotations,
    nested statements, nested combinations, words) that do not fill the same statement field
    leaves the meaning of the statement unchanged, at any position. Every reordering that keeps
    the relative order of the annotations of each component type is a sequence of such swaps. -/
theorem reorder_adjacent (pre : List Part) (p q : Part) (post : List Part) (h : Part.independent p q) :
    denoteS (.mk (pre ++ p :: q :: post)) = denoteS (.mk (pre ++ q :: p :: post)) :=
  denoteS_swap pre p q post h

/-- annotations of two different component types are independent -/
theorem annotations_of_different_fields_independent (h₁ h₂ : Hdr) (o₁ o₂ : Bool) (e₁ e₂ : Expr)
    (hd : ∀ f, h₁.sym.simple = some f → h₂.sym.simple ≠ some f) :
    Part.independent (.ann h₁ o₁ e₁) (.ann h₂ o₂ e₂) := by
  refine ⟨?_, ?_, ?_⟩
  · intro f hf; exact hd f hf
  · intro f hf; simp [Part.comboTarget] at hf
  · intro f hf; simp [Part.nestedTarget] at hf

/-- unannotated text is independent of everything -/
theorem filler_independent (w : Str) (q : Part) : Part.independent (.filler w) q := by
  refine ⟨?_, ?_, ?_⟩ <;> intro f hf <;> simp [Part.simpleTarget, Part.comboTarget, Part.nestedTarget] at hf

/-- non-vacuity: `A(x) I(y)` and `I(y) A(x)` -/
example : Part.independent (.ann { sym := Sym.A } true (.leaf (str "x"))) (.ann { sym := Sym.I } true (.leaf (str "y"))) := by
  refine ⟨?_, ?_, ?_⟩ <;> intro f hf <;> simp_all [Part.simpleTarget, Part.comboTarget, Part.nestedTarget, Sym.A, Sym.I, mkSym] <;> omega

end IGVerif.C18
