import IGVerif.Props.Ties
/-! C12 — conversion is deterministic.
    The model is a function, so equal inputs give equal outputs by `rfl`; the only source of
    run-to-run variation in the Go code is iteration over maps (and the shared nodes repaired
    in the C12 fix). The obligation below pins the complete list of map-range sites in the
    three core packages; each listed site was reviewed as order-insensitive (see DESIGN.md);
    a new or changed site breaks the obligation. -/
namespace IGVerif.C12
open IGVerif

theorem map_range_sites_accounted :
    Gen.mapRangeSites =
      [("parser.CombineMaps", "map2", "k", "v"),
       ("parser.ParseIntoNodeTree", "orderMap", "_", "v"),
       ("parser.ProcessPrivateComponentLinkages", "linkedLeaves", "srcComp", "tgtCompArr"),
       ("parser.detectCombinations", "foundOperators", "k", "_"),
       ("parser.detectCombinations", "foundOperators", "op", ""),
       ("parser.detectCombinations", "foundOperators[k]", "k2", "v2"),
       ("parser.extractSharedComponents", "boundaries[level - 1]", "i", "v"),
       ("parser.extractSharedComponents", "boundaries[level - 1]", "i", "v"),
       ("tabular.generateLogicalLinksExpressionForGivenComponentValue", "linksForElement", "nd", ""),
       ("tabular.generateStatementMatrix", "componentFrequency", "k", "v")] := by decide

/-- the conversion packages start no goroutine, use no `select`, no random numbers, no clock and
    no synchronisation primitives: apart from map iteration (above) the code is sequential and
    closed -/
theorem no_other_sources_of_variation : Gen.nondeterminismSources = [] := by decide

/-- the model's conversion is a function of statement, id and options -/
theorem model_deterministic (o : Tab.Opts) (root : PNode) (id : Str) :
    ∀ n : Nat, (List.replicate n (Tab.exportAll o root id)).all (· = Tab.exportAll o root id) = true := by
  intro n; simp

end IGVerif.C12
