import IGVerif.Gen.Facts
import IGVerif.Spec.Symbols
import IGVerif.Proofs.DenoteLeaves
import IGVerif.Proofs.ComboMulti
import IGVerif.Proofs.ComboNorm
import IGVerif.Proofs.ComboContent
import IGVerif.Proofs.ComboSharedChains
import IGVerif.Proofs.ComboMultiChains
import IGVerif.Proofs.ComboBridge
/-! C01 — components and combinations are parsed exactly as written. -/
namespace IGVerif.C01
open IGVerif

def fieldName (i : Option Nat) : String :=
  match i with
  | some k => Gen.statementFields.getD k "?"
  | none => "-"

/-- T: `parseBasicStatement` assigns each parenthesised symbol to the statement field the
    specification's symbol table names, in the same order, with the same property flag. -/
theorem simple_wiring :
    Gen.simpleWiring = Sym.simples.map (fun s => (String.ofList s.name, s.isProperty, fieldName s.simple)) := by
  decide

/-- T: the statement has the 27 fields the models index. -/
theorem field_count : Gen.statementFields.length = 27 := by decide

/-- **Nothing annotated is lost, nothing un-annotated appears**: the leaves of the tree a
    component's content denotes are exactly the texts written in it, in source order — for
    every content: parenthesised combinations, same-operator chains, shared text, several
    combinations in one component -/
theorem leaves_are_the_annotated_texts (e : Expr) (sl sr : List Str) : leafTextsP (denoteE sl sr e) = e.texts :=
  leaves_denoteE e sl sr

/-- a chain of one operator associates to the left -/
theorem same_operator_chain_associates_left (o : Op3) (a b c : Expr) (sl sr : List Str) :
    denoteE sl sr (.chain o a b [c]) =
      .comb o.str sl sr {} [] (.comb o.str [] [] {} [] (denoteE [] [] a) (denoteE [] [] b)) (denoteE [] [] c) :=
  chain_left_assoc o a b c sl sr

/-- parentheses bind as written -/
theorem parentheses_bind (o₁ o₂ : Op3) (a b c : Expr) :
    denoteE [] [] (.comb o₁ a (.comb o₂ b c)) =
      .comb o₁.str [] [] {} [] (denoteE [] [] a) (.comb o₂.str [] [] {} [] (denoteE [] [] b) (denoteE [] [] c)) :=
  parentheses_bind_as_written o₁ o₂ a b c

/-- text written outside an inner combination sits on that combination (shared by its values) -/
theorem shared_text_belongs_to_the_combination (l r : Str) (o : Op3) (a b : Expr) :
    denoteE [] [] (.shared (some l) (.comb o a b) (some r)) =
      .comb o.str [l] [r] {} [] (denoteE [] [] a) (denoteE [] [] b) :=
  shared_text_on_combination l r o a b

/-- separate annotations of one component type are joined by the implicit conjunction, in
    source order -/
theorem separate_annotations_implicit_conjunction (h₁ h₂ : Hdr) (o₁ o₂ : Bool) (e₁ e₂ : Expr) (f : Nat)
    (hf₁ : h₁.sym.simple = some f) (hf₂ : h₂.sym.simple = some f) :
    denoteS (.mk [.ann h₁ o₁ e₁, .ann h₂ o₂ e₂]) =
      sortFields [(f, combineN opBAND ((denoteE [] [] e₁).withMeta (hdrMeta h₁)) ((denoteE [] [] e₂).withMeta (hdrMeta h₂)))] := by
  simp [denoteS, denoteSimple, denoteCombos, denoteNested, hf₁, hf₂, addField]

/-! ### The combination parser (model of `ParseIntoNodeTree`, tied to the code by the `combo`
    correspondence stream): round trip from the notation to the tree -/

/-- **Round trip, binary combinations of any depth.** For every fully parenthesised expression
    over the three documented operators whose values are non-empty, trimmed and free of
    parentheses and brackets, the combination parser returns — for the rendered text, as a
    top-level or nested call, with any fuel not below the nesting depth — exactly the tree the
    notation denotes, the unchanged text, and no error. -/
theorem combination_parser_round_trip (o : Op3) (l r : Expr) (h : Combo.BinW (.comb o l r)) (nested : Bool)
    (fuel : Nat) (hf : Combo.depth (.comb o l r) ≤ fuel) :
    ∃ n, Combo.parse false fuel (renderE (.comb o l r)) nested
          = .res ⟨n, renderE (.comb o l r), Combo.cNoError⟩
       ∧ Combo.toP n = denoteE [] [] (.comb o l r) :=
  ⟨_, Combo.parse_render o l r h nested fuel hf, Combo.toP_treeOf _ h⟩

/-- **Round trip, chains.** `(e₁ [o] e₂ [o] … [o] eₙ)` is parsed into the left-nested tree the
    notation denotes; the returned text is the chain with the parentheses the parser introduces. -/
theorem combination_parser_chain (o : Op3) (e₁ e₂ : Expr) (es : List Expr) (h₁ : Combo.BinW e₁) (h₂ : Combo.BinW e₂)
    (hes : ∀ x ∈ es, Combo.BinW x) (nested : Bool) (fuel : Nat)
    (hf : Combo.depth (Combo.assocL o e₁ (e₂ :: es)) ≤ fuel) :
    ∃ n, Combo.parse false fuel (renderE (.chain o e₁ e₂ es)) nested
          = .res ⟨n, renderE (Combo.assocL o e₁ (e₂ :: es)), Combo.cNoError⟩
       ∧ Combo.toP n = denoteE [] [] (.chain o e₁ e₂ es) :=
  ⟨_, Combo.parse_chain o e₁ e₂ es h₁ h₂ hes nested fuel hf, Combo.toP_chain o e₁ e₂ es h₁ h₂ hes⟩

/-- **Round trip, shared text.** `(l (a [o] b) r)` — text inside the component's parentheses
    but outside the inner combination — is parsed into the combination of `a` and `b` carrying
    `l` / `r` (trimmed, either may be absent) as its shared left / right text, which is what the
    notation denotes. -/
theorem combination_parser_shared_text (sl sr : Option Str) (o : Op3) (a b : Expr) (ha : Combo.BinW a)
    (hb : Combo.BinW b) (hsl : ∀ t, sl = some t → Combo.SWord t) (hsr : ∀ t, sr = some t → Combo.SWord t)
    (nested : Bool) (fuel : Nat) (hf : Combo.depth (.comb o a b) ≤ fuel) :
    ∃ n, Combo.parse false fuel (renderE (.shared sl (.comb o a b) sr)) nested
          = .res ⟨n, renderE (.shared sl (.comb o a b) sr), Combo.cNoError⟩
       ∧ Combo.toP n = denoteE [] [] (.shared sl (.comb o a b) sr) :=
  ⟨_, Combo.parse_shared sl sr o a b ha hb hsl hsr nested fuel hf, Combo.toP_shared sl sr o a b ha hb⟩

/-- **Round trip, several combinations in one component.** `(l (a₁ [o₁] b₁) m (a₂ [o₂] b₂) r)`:
    both combinations are parsed as written, the first carries `l` / `m`, the second `m` / `r`
    as shared text, and they are joined by the within-component conjunction in source order —
    the documented meaning. -/
theorem combination_parser_two_combinations (l m r : Option Str) (o₁ o₂ : Op3) (a₁ b₁ a₂ b₂ : Expr)
    (ha₁ : Combo.BinW a₁) (hb₁ : Combo.BinW b₁) (ha₂ : Combo.BinW a₂) (hb₂ : Combo.BinW b₂)
    (hl : ∀ t, l = some t → Combo.SWord t) (hm : ∀ t, m = some t → Combo.SWord t) (hr : ∀ t, r = some t → Combo.SWord t)
    (nested : Bool) (fuel : Nat) (hf₁ : Combo.depth (.comb o₁ a₁ b₁) ≤ fuel) (hf₂ : Combo.depth (.comb o₂ a₂ b₂) ≤ fuel) :
    ∃ n, Combo.parse false fuel (renderE (.multi2 l (.comb o₁ a₁ b₁) m (.comb o₂ a₂ b₂) r)) nested
          = .res ⟨n, renderE (.multi2 l (.comb o₁ a₁ b₁) m (.comb o₂ a₂ b₂) r), Combo.cNoError⟩
       ∧ Combo.toP n = denoteE [] [] (.multi2 l (.comb o₁ a₁ b₁) m (.comb o₂ a₂ b₂) r) :=
  ⟨_, Combo.parse_multi2 l m r o₁ o₂ a₁ b₁ a₂ b₂ ha₁ hb₁ ha₂ hb₂ hl hm hr nested fuel hf₁ hf₂,
    Combo.toP_multi2 l m r o₁ o₂ a₁ b₁ a₂ b₂ ha₁ hb₁ ha₂ hb₂⟩

/-- **Round trip, chains anywhere.** `Combo.T` is the notation in which any parenthesised group,
    at any depth, may be a chain of one operator (`Combo.rT` is its text; a node written without
    its own parentheses may only be the left part of a group with the same operator, `Combo.wf`).
    `detectCombinations` rewrites once per additional operand, always at the first repeated
    operator in reading order (`Combo.rewrite_is_step`, `Combo.scan_wf`), until the text is fully
    parenthesised; the parser then returns the tree in which every chain is nested to the left
    and everything else is as written (`Combo.toE`), which is the documented meaning. -/
theorem combination_parser_chains_anywhere (o : Op3) (l r : Combo.T) (hw : Combo.wf (.bin o true l r) none)
    (nested : Bool) (fuel : Nat) (hf : Combo.depth (Combo.toE (.bin o true l r)) ≤ fuel) :
    ∃ n, Combo.parse false fuel (Combo.rT (.bin o true l r)) nested
          = .res ⟨n, renderE (Combo.toE (.bin o true l r)), Combo.cNoError⟩
       ∧ Combo.toP n = denoteE [] [] (Combo.toE (.bin o true l r)) :=
  ⟨_, Combo.parse_chains o l r hw nested fuel hf, Combo.toP_treeOf _ (Combo.wf_binw _ _ hw)⟩

/-- **The content of a component as `parseComponent` hands it over, outer parentheses missing**
    (`Bdir(a [AND] b [AND] c)`): the first attempt ends with "operator outside combination" —
    after whatever rewritings the leading operand needs —, the second attempt in parentheses
    returns the written tree (`Combo.parseContent` models the two attempts). -/
theorem component_content_without_outer_parentheses (o : Op3) (l r : Combo.T) (hw : Combo.wf (.bin o true l r) none)
    (fuel : Nat) (hf : Combo.depth (Combo.toE (.bin o true l r)) ≤ fuel) :
    ∃ n, Combo.parseContent fuel (Combo.rT (.bin o false l r))
          = .res ⟨n, renderE (Combo.toE (.bin o true l r)), Combo.cNoError⟩
       ∧ Combo.toP n = denoteE [] [] (Combo.toE (.bin o true l r)) :=
  ⟨_, Combo.parseContent_stripped o l r hw fuel hf, Combo.toP_treeOf _ (Combo.wf_binw _ _ hw)⟩

/-- **Shared text written directly inside the component's parentheses**
    (`Cex(shared (a [AND] b) text)`): parsed at once into the combination carrying the text on
    both sides as shared text. -/
theorem shared_text_directly_inside_component (sl sr : Option Str) (o : Op3) (a b : Expr) (ha : Combo.BinW a)
    (hb : Combo.BinW b) (hsl : ∀ t, sl = some t → Combo.SWord t) (hsr : ∀ t, sr = some t → Combo.SWord t)
    (nested : Bool) (fuel : Nat) (hf : Combo.depth (.comb o a b) ≤ fuel) :
    ∃ n, Combo.parse false fuel (optPre sl ++ renderE (.comb o a b) ++ optPost sr) nested
          = .res ⟨n, optPre sl ++ renderE (.comb o a b) ++ optPost sr, Combo.cNoError⟩
       ∧ Combo.toP n = denoteE [] [] (.shared sl (.comb o a b) sr) :=
  ⟨_, Combo.parse_shared_stripped sl sr o a b ha hb hsl hsr nested fuel hf, Combo.toP_shared sl sr o a b ha hb⟩

/-- **Shared text around a group that holds chains**, with the component's outer parentheses
    (`((l (a [o] b [o] c) r))`) and written directly inside them (`Cex(l (a [o] b [o] c) r)`): the
    rewritings happen inside the group, the text around it stays, and the result is the
    combination with every chain nested to the left carrying `l` / `r` as shared text. -/
theorem shared_text_around_chains (sl sr : Option Str) (o : Op3) (l r : Combo.T) (hw : Combo.wf (.bin o true l r) none)
    (hsl : ∀ t, sl = some t → Combo.SWord t) (hsr : ∀ t, sr = some t → Combo.SWord t) (nested : Bool) (fuel : Nat)
    (hf : Combo.depth (Combo.toE (.bin o true l r)) ≤ fuel) :
    (∃ n out, Combo.parse false fuel ('(' :: optPre sl ++ Combo.rT (.bin o true l r) ++ (optPost sr ++ [')'])) nested
          = .res ⟨n, out, Combo.cNoError⟩
       ∧ Combo.toP n = denoteE [] [] (.shared sl (Combo.toE (.bin o true l r)) sr))
    ∧ (∃ n out, Combo.parse false fuel (optPre sl ++ Combo.rT (.bin o true l r) ++ optPost sr) nested
          = .res ⟨n, out, Combo.cNoError⟩
       ∧ Combo.toP n = denoteE [] [] (.shared sl (Combo.toE (.bin o true l r)) sr)) := by
  have hb := Combo.wf_binw _ _ hw
  cases hb with
  | comb _ _ _ ha hb' =>
    exact ⟨⟨_, _, Combo.parse_shared_chains sl sr o l r hw hsl hsr nested fuel hf, Combo.toP_shared sl sr o _ _ ha hb'⟩,
           ⟨_, _, Combo.parse_shared_stripped_chains sl sr o l r hw hsl hsr nested fuel hf, Combo.toP_shared sl sr o _ _ ha hb'⟩⟩

/-- **Two groups in one component, each of which may hold chains**
    (`(l (a [o₁] b [o₁] c) m (d [o₂] e) r)`): the first group is re-bracketed with the second still
    as written, then the second; both nodes get the text around and between them as shared text
    and are joined by wAND. -/
theorem two_groups_with_chains (l m r : Option Str) (o₁ o₂ : Op3) (l₁ r₁ l₂ r₂ : Combo.T)
    (hw₁ : Combo.wf (.bin o₁ true l₁ r₁) none) (hw₂ : Combo.wf (.bin o₂ true l₂ r₂) none)
    (hl : ∀ t, l = some t → Combo.SWord t) (hm : ∀ t, m = some t → Combo.SWord t) (hr : ∀ t, r = some t → Combo.SWord t)
    (nested : Bool) (fuel : Nat) (hf₁ : Combo.depth (Combo.toE (.bin o₁ true l₁ r₁)) ≤ fuel)
    (hf₂ : Combo.depth (Combo.toE (.bin o₂ true l₂ r₂)) ≤ fuel) :
    ∃ n out, Combo.parse false fuel
          ('(' :: optPre l ++ Combo.rT (.bin o₁ true l₁ r₁) ++ ((' ' :: optPre m) ++ Combo.rT (.bin o₂ true l₂ r₂) ++ (optPost r ++ [')']))) nested
          = .res ⟨n, out, Combo.cNoError⟩
       ∧ Combo.toP n = denoteE [] [] (.multi2 l (Combo.toE (.bin o₁ true l₁ r₁)) m (Combo.toE (.bin o₂ true l₂ r₂)) r) := by
  have hb₁ := Combo.wf_binw _ _ hw₁
  have hb₂ := Combo.wf_binw _ _ hw₂
  cases hb₁ with
  | comb _ _ _ ha₁ hb₁' =>
    cases hb₂ with
    | comb _ _ _ ha₂ hb₂' =>
      exact ⟨_, _, Combo.parse_multi2_chains l m r o₁ o₂ l₁ r₁ l₂ r₂ hw₁ hw₂ hl hm hr nested fuel hf₁ hf₂,
        Combo.toP_multi2 l m r o₁ o₂ _ _ _ _ ha₁ hb₁' ha₂ hb₂'⟩

/-- **Round trip for the grammar AST: `parse (render e) = denote e`** at the level of the
    combination parser, for every expression of the specification built from values, explicitly
    parenthesised binary combinations and same-operator chains, nested in any way and to any depth
    (`Combo.Chainy`): the tree returned for the rendered text is the tree the notation denotes.
    (`Combo.ofE` maps the expression into the chain notation of `combination_parser_chains_anywhere`,
    with the same text — `rT_ofE` — and the same meaning — `meaning_ofE`.) -/
theorem combination_parser_round_trip_expr (e : Expr) (h : Combo.Chainy e) (hnl : ∀ t, e ≠ .leaf t) (nested : Bool)
    (fuel : Nat) (hf : Combo.depth (Combo.toE (Combo.ofE e)) ≤ fuel) :
    ∃ n out, Combo.parse false fuel (renderE e) nested = .res ⟨n, out, Combo.cNoError⟩
       ∧ Combo.toP n = denoteE [] [] e :=
  Combo.parse_renderE_chains e h hnl nested fuel hf

/-- a value without parentheses and brackets is one leaf -/
theorem combination_parser_plain_value (t : Str) (h : Combo.Plain t) (nested : Bool) (fuel : Nat) :
    Combo.parse false (fuel+1) t nested = .res ⟨.leaf (Combo.trimSp t), t, Combo.cNoCombinations⟩ :=
  Combo.parse_plain t h nested fuel

/-- the scan records, for every rendered expression at every position and nesting level, one
    complete boundary with the written operator at the written position, and leaves the lower
    levels alone -/
theorem scan_records_the_written_combination (e : Expr) (hb : Combo.Bin e) (cs : Str) (i : Nat) (st : Combo.St)
    (h : st.modes.length ≤ st.lm.length) :
    ∃ lm', Combo.scan '(' ')' (renderE e ++ cs) i st
            = Combo.scan '(' ')' cs (i + (renderE e).length) { st with lm := lm' }
      ∧ Combo.Ext st.modes.length st.lm lm' (Combo.ents e i) :=
  Combo.scan_render e hb cs i st h

/-- the hypotheses are satisfiable: `(a [AND] (b c [OR] d))` -/
example : Combo.BinW (.comb .AND (.leaf ['a']) (.comb .OR (.leaf ['b', ' ', 'c']) (.leaf ['d']))) := by
  refine .comb _ _ _ (.leaf _ ?_ ⟨?_, ?_, ?_⟩) (.comb _ _ _ (.leaf _ ?_ ⟨?_, ?_, ?_⟩) (.leaf _ ?_ ⟨?_, ?_, ?_⟩)) <;>
    simp [Combo.Plain]

/-- shared text such as `the x` satisfies the side condition -/
example : Combo.SWord ['t', 'h', 'e', ' ', 'x'] := by
  refine ⟨?_, ?_, ?_, ?_⟩ <;> simp [Combo.Plain, Combo.isWs, Combo.isIgnoredShared]

/-- `(a [AND] (b [OR] c [OR] d) [AND] e)` as an expression of the specification -/
example : Combo.Chainy (.chain .AND (.leaf ['a']) (.chain .OR (.leaf ['b']) (.leaf ['c']) [.leaf ['d']]) [.leaf ['e']]) := by
  simp only [Combo.Chainy, Combo.ChainyL, and_true]
  refine ⟨⟨?_, ?_, ?_, ?_⟩, ⟨⟨?_, ?_, ?_, ?_⟩, ⟨?_, ?_, ?_, ?_⟩, ⟨?_, ?_, ?_, ?_⟩⟩, ⟨?_, ?_, ?_, ?_⟩⟩ <;> simp [Combo.Plain]

end IGVerif.C01
