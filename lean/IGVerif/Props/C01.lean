import IGVerif.Gen.Facts
import IGVerif.Spec.Symbols
import IGVerif.Proofs.DenoteLeaves
/-! C01 — components and combinations are parsed exactly as written. -/
namespace IGVerif.C01
open IGVerif

def fieldName (i : Option Nat) : String :=
  match i with
  | some k => Gen.statementFields.getD k "?"
  | none => "-"

/-- T: `parseBasicStatement` assigns each parenthesised symbol to the statement field the
    specification's symbol table names, in the same order, with the same property flag. -/
theorem simple_wiring :
    Gen.simpleWiring = Sym.simples.map (fun s => (String.ofList s.name, s.isProperty, fieldName s.simple)) := by
  decide

/-- T: the statement has the 27 fields the models index. -/
theorem field_count : Gen.statementFields.length = 27 := by decide

/-- **Nothing annotated is lost, nothing un-annotated appears**: the leaves of the tree a
    component's content denotes are exactly the texts written in it, in source order — for
    every content: parenthesised combinations, same-operator chains, shared text, several
    combinations in one component -/
theorem leaves_are_the_annotated_texts (e : Expr) (sl sr : List Str) : leafTextsP (denoteE sl sr e) = e.texts :=
  leaves_denoteE e sl sr

/-- a chain of one operator associates to the left -/
theorem same_operator_chain_associates_left (o : Op3) (a b c : Expr) (sl sr : List Str) :
    denoteE sl sr (.chain o a b [c]) =
      .comb o.str sl sr {} [] (.comb o.str [] [] {} [] (denoteE [] [] a) (denoteE [] [] b)) (denoteE [] [] c) :=
  chain_left_assoc o a b c sl sr

/-- parentheses bind as written -/
theorem parentheses_bind (o₁ o₂ : Op3) (a b c : Expr) :
    denoteE [] [] (.comb o₁ a (.comb o₂ b c)) =
      .comb o₁.str [] [] {} [] (denoteE [] [] a) (.comb o₂.str [] [] {} [] (denoteE [] [] b) (denoteE [] [] c)) :=
  parentheses_bind_as_written o₁ o₂ a b c

/-- text written outside an inner combination sits on that combination (shared by its values) -/
theorem shared_text_belongs_to_the_combination (l r : Str) (o : Op3) (a b : Expr) :
    denoteE [] [] (.shared (some l) (.comb o a b) (some r)) =
      .comb o.str [l] [r] {} [] (denoteE [] [] a) (denoteE [] [] b) :=
  shared_text_on_combination l r o a b

/-- separate annotations of one component type are joined by the implicit conjunction, in
    source order -/
theorem separate_annotations_implicit_conjunction (h₁ h₂ : Hdr) (o₁ o₂ : Bool) (e₁ e₂ : Expr) (f : Nat)
    (hf₁ : h₁.sym.simple = some f) (hf₂ : h₂.sym.simple = some f) :
    denoteS (.mk [.ann h₁ o₁ e₁, .ann h₂ o₂ e₂]) =
      sortFields [(f, combineN opBAND ((denoteE [] [] e₁).withMeta (hdrMeta h₁)) ((denoteE [] [] e₂).withMeta (hdrMeta h₂)))] := by
  simp [denoteS, denoteSimple, denoteCombos, denoteNested, hf₁, hf₂, addField]

end IGVerif.C01
