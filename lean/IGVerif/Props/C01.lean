import IGVerif.Gen.Facts
import IGVerif.Spec.Symbols
/-! C01 — components and combinations are parsed exactly as written. -/
namespace IGVerif.C01
open IGVerif

def fieldName (i : Option Nat) : String :=
  match i with
  | some k => Gen.statementFields.getD k "?"
  | none => "-"

/-- T: `parseBasicStatement` assigns each parenthesised symbol to the statement field the
    specification's symbol table names, in the same order, with the same property flag. -/
theorem simple_wiring :
    Gen.simpleWiring = Sym.simples.map (fun s => (String.ofList s.name, s.isProperty, fieldName s.simple)) := by
  decide

/-- T: the statement has the 27 fields the models index. -/
theorem field_count : Gen.statementFields.length = 27 := by decide

end IGVerif.C01
