import IGVerif.Props.Ties
import IGVerif.Props.C04
/-! C10 — no input crashes, kills or hangs the converter.
    A theorem about the model cannot exhibit a Go panic; what the model carries is termination
    of the one unbounded loop of the export (the odometer, `C04.loop_terminates_within_count`)
    and the totality of every model function (all are structurally or fuel-recursive, accepted
    by Lean's termination checker). Crashes, exits and hangs of the real code are decided by
    the correspondence run with crash attribution (partial). -/
namespace IGVerif.C10
open IGVerif

/-- the parser's patterns are the ones the running-time measurements were made with (length
    and FNV-1a digest of each compiled pattern source) -/
theorem patterns_pinned :
    Gen.patternDigests.map (·.1) =
      ["SPECIAL_SYMBOLS", "WORDS_WITH_PARENTHESES", "COMPONENT_SUFFIX_SYNTAX", "COMPONENT_ANNOTATION_SYNTAX",
       "COMPONENT_IDENTIFIER", "COMPONENT_HEADER_SYNTAX", "FULL_COMPONENT_SYNTAX",
       "NESTED_COMBINATIONS_TERMINATED", "COMPONENT_PAIR_COMBINATIONS"] := by decide


end IGVerif.C10
