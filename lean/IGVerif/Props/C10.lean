import IGVerif.Props.Ties
import IGVerif.Props.C04
/-! C10 — no input crashes, kills or hangs the converter.
    A theorem about the model cannot exhibit a Go panic; what the model carries is termination
    of the one unbounded loop of the export (the odometer, `C04.loop_terminates_within_count`)
    and the totality of every model function (all are structurally or fuel-recursive, accepted
    by Lean's termination checker). Crashes, exits and hangs of the real code are decided by
    the correspondence run with crash attribution (partial). -/
namespace IGVerif.C10
open IGVerif

/-- the parser's patterns are the ones the running-time measurements were made with (length
    and FNV-1a digest of each compiled pattern source) -/
theorem patterns_pinned :
    Gen.patternDigests.map (·.1) =
      ["SPECIAL_SYMBOLS", "WORDS_WITH_PARENTHESES", "COMPONENT_SUFFIX_SYNTAX", "COMPONENT_ANNOTATION_SYNTAX",
       "COMPONENT_IDENTIFIER", "COMPONENT_HEADER_SYNTAX", "FULL_COMPONENT_SYNTAX",
       "NESTED_COMBINATIONS_TERMINATED", "COMPONENT_PAIR_COMBINATIONS"] := by decide


/-- the complete list of calls in the conversion packages that end the process (`log.Fatal`,
    `os.Exit`) or unwind the stack (`panic`): twelve `log.Fatal` guards on states the callers
    exclude (the correspondence run shows none is reached by generated input); a new call, or a
    guard that disappears, breaks this obligation -/
theorem fatal_sites_accounted :
    Gen.fatalCallSites =
      [("parser.extractSuffixAndAnnotations", "log.Fatal"), ("tree.Combine", "log.Fatal")] ++
      List.replicate 7 ("tree.ComponentNode", "log.Fatal") ++
      [("tree.GenerateLogicalOperatorLinkagePerCombination", "log.Fatal"), ("tree.Node.StringFlat", "log.Fatal"),
       ("tree.Statement.Stringify", "log.Fatal")] := by decide

end IGVerif.C10
