import IGVerif.Props.Ties
import IGVerif.Proofs.VisValues
/-! C09 — the visual tree shows exactly the parsed statement.
    The printed structure is decided by the visual model (`Vis.visTop`, compared byte for byte
    with `PrintTree` by the correspondence check); the obligations here fix how the model is
    wired to the printer's source. -/
namespace IGVerif.C09
open IGVerif

/-- every recursive call of the printer passes the option arguments through unchanged, in
    parameter order; nested statements are printed one level deeper -/
theorem options_passed_through :
    Gen.printerCallSites.all (fun c =>
      let ps := ((Gen.printerParams.find? (fun p => p.1 = c.2.1)).map (·.2)).getD []
      let opts := ["printFlat", "printBinary", "includeAnnotations", "includeDegreeOfVariability", "moveActivationConditionsToFront"]
      (c.2.2.2.filter (opts.contains ·)) = opts && (ps.filter (opts.contains ·)) = opts &&
      (c.2.2.2.getLast? = some "nestingLevel" || (c.2.1 = "PrintTree" && c.2.2.2.getLast? = some "nestingLevel + 1"))) = true := by
  decide

/-- nested statements (single and expanded pair statements) recurse into `PrintTree` with level+1 -/
theorem nested_one_level_deeper :
    (Gen.printerCallSites.filter (fun c => c.1 = "PrintNodeTree" && c.2.1 = "PrintTree")).map (fun c => (c.2.2.1, c.2.2.2.getLast?)) =
      [("n.Entry.(*Statement)", some "nestingLevel + 1"),
       ("n.Entry.([]*Node)[0].Entry.(*Statement)", some "nestingLevel + 1")] := by decide


/-- **Every value once, under its component label, with its shared text**: for a component
    tree of any shape the printer emits exactly one value object per leaf, in the written
    order, named by the leaf's text framed by the shared text it inherits, labelled with the
    leaf's (effective) component and the nesting level; operators only group these objects,
    nested statements are documents of their own (one level deeper, see `nested_one_level_deeper`) -/
theorem values_shown_are_the_tree_values (o : Vis.VOpts) (fs : PStmt) (level : Nat) (fuel : Nat) (n : PNode) (c : Ctx)
    (pop : Option Str) (pcomp : Str) (h : Vis.height n ≤ fuel) :
    Vis.valuesL (Vis.nodeJ o fuel fs level c pop pcomp n) = Vis.pvalues level c n :=
  Vis.values_nodeJ o fs level fuel n c pop pcomp h

end IGVerif.C09
