import IGVerif.Props.Ties
/-! C09 — the visual tree shows exactly the parsed statement.
    The printed structure is decided by the visual model (`Vis.visTop`, compared byte for byte
    with `PrintTree` by the correspondence check); the obligations here fix how the model is
    wired to the printer's source. -/
namespace IGVerif.C09
open IGVerif

/-- every recursive call of the printer passes the option arguments through unchanged, in
    parameter order; nested statements are printed one level deeper -/
theorem options_passed_through :
    Gen.printerCallSites.all (fun c =>
      let ps := ((Gen.printerParams.find? (fun p => p.1 = c.2.1)).map (·.2)).getD []
      let opts := ["printFlat", "printBinary", "includeAnnotations", "includeDegreeOfVariability", "moveActivationConditionsToFront"]
      (c.2.2.2.filter (opts.contains ·)) = opts && (ps.filter (opts.contains ·)) = opts &&
      (c.2.2.2.getLast? = some "nestingLevel" || (c.2.1 = "PrintTree" && c.2.2.2.getLast? = some "nestingLevel + 1"))) = true := by
  decide

/-- nested statements (single and expanded pair statements) recurse into `PrintTree` with level+1 -/
theorem nested_one_level_deeper :
    (Gen.printerCallSites.filter (fun c => c.1 = "PrintNodeTree" && c.2.1 = "PrintTree")).map (fun c => (c.2.2.1, c.2.2.2.getLast?)) =
      [("n.Entry.(*Statement)", some "nestingLevel + 1"),
       ("n.Entry.([]*Node)[0].Entry.(*Statement)", some "nestingLevel + 1")] := by decide


end IGVerif.C09
