import IGVerif.Props.Ties
import IGVerif.Proofs.ComboBraceParse
import IGVerif.Proofs.ComboBraceNorm
import IGVerif.Proofs.HeaderMain
/-! C02 — nested statements and their combinations attach where and how they are written.

The statement-level parser is modelled by its specification (`denote`, Spec/Grammar.lean) and
tied by differential execution on the decidable class `supported` (Spec/Shape.lean); outside
that class the classification patterns fail (known finding `C02-regex-shape`). -/
namespace IGVerif.C02
open IGVerif

/-- a nested statement is a complete statement of its own: the field of its symbol holds the
    meaning of the inner statement, whatever that is (any depth) -/
theorem nested_is_full_statement (h : Hdr) (inner : Stmt) (f : Nat) (hf : h.sym.complex = some f) :
    denoteS (.mk [.nested h inner]) = sortFields [(f, nestedNode h inner)] := by
  simp [denoteS, denoteSimple, denoteCombos, denoteNested, hf, addField]

/-- … and that value is the inner statement parsed by the same function as a top-level one
    (when the inner statement has no component-pair combination; with one, see C03) -/
theorem nested_value_is_inner_statement (h : Hdr) (ips : List Part) (hp : pairsIn (denoteS (.mk ips)) ips = none) :
    nestedNode h (.mk ips) = .stmt (hdrMeta h {}) (denoteS (.mk ips)) := by
  simp only [denoteS] at hp
  simp [nestedNode, hp, denoteS]

/-- several nested statements of one symbol are conjoined in source order -/
theorem two_nested_conjoined (h₁ h₂ : Hdr) (s₁ s₂ : Stmt) (f : Nat)
    (hf₁ : h₁.sym.complex = some f) (hf₂ : h₂.sym.complex = some f) :
    denoteS (.mk [.nested h₁ s₁, .nested h₂ s₂]) =
      sortFields [(f, combineN opAND (nestedNode h₁ s₁) (nestedNode h₂ s₂))] := by
  have e1 : (str "[XOR]" = ([] : Str)) = False := by decide
  have e2 : (str "[OR]" = ([] : Str)) = False := by decide
  simp [denoteS, denoteSimple, denoteCombos, denoteNested, hf₁, hf₂, addField, nestedOp, countNested, Part.fillerText,
    contains, e1, e2]

/-- … or joined by the single operator written between them -/
theorem two_nested_written_operator (h₁ h₂ : Hdr) (s₁ s₂ : Stmt) (f : Nat)
    (hf₁ : h₁.sym.complex = some f) (hf₂ : h₂.sym.complex = some f) :
    denoteS (.mk [.nested h₁ s₁, .filler (str "[XOR]"), .nested h₂ s₂]) =
      sortFields [(f, combineN opXOR (nestedNode h₁ s₁) (nestedNode h₂ s₂))] := by
  have : contains (str "[XOR]") (str "[XOR]") = true := by decide
  simp [denoteS, denoteSimple, denoteCombos, denoteNested, hf₁, hf₂, addField, nestedOp, countNested, Part.fillerText, this]

/-- a braced combination yields exactly the written operator tree over its statements -/
theorem combination_tree_as_written (o : Op3) (l r : NTree) :
    denoteN (.op o l r) = .comb o.str [] [] {} [] (denoteN l) (denoteN r) := by
  simp [denoteN]

/-- `supported` is inhabited on both sides -/
example : supported (.mk [.ann { sym := Sym.A } true (.leaf (str "x")),
    .nested { sym := Sym.Cac } (.mk [.ann { sym := Sym.I } true (.leaf (str "y")),
      .nested { sym := Sym.Bdir } (.mk [.ann { sym := Sym.A } true (.leaf (str "z"))])])]) = true := by decide

example : supported (.mk [.nested { sym := Sym.Bdir } (.mk [.ncomb { sym := Sym.Cac }
    (.op .XOR (.one { sym := Sym.Cac } (.mk [])) (.one { sym := Sym.Cac } (.mk [])))])]) = false := by decide

/-! ### The combination parser in brace mode (model of `ParseIntoNodeTree(…, "{", "}")` as
    called by `parseNestedStatementCombination`, tied to the code by the `combo` correspondence
    stream of C01's check, which covers both bracket kinds) -/

/-- the tree of nested statements as a tree of leaf texts -/
def toBT : NTree → Combo.BT
  | .one h s => .one (renderHdr h) (renderS s)
  | .op o l r => .op o (toBT l) (toBT r)

/-- the concrete syntax of a combination of nested statements is the text the parser model scans -/
theorem renderN_eq : (t : NTree) → renderN t = Combo.renderB (toBT t)
  | .one h s => by simp [renderN, toBT, Combo.renderB]
  | .op o l r => by simp [renderN, toBT, Combo.renderB, renderN_eq l, renderN_eq r]

/-- **A braced combination of nested statements yields exactly the written operator tree over
    those statements**: for every tree of any depth over [AND]/[OR]/[XOR] whose nested statements
    are written `Sym{…}` with balanced parentheses and brackets only inside parentheses (so
    operators inside a component are not taken for statement-level operators), the parser
    returns the written tree with one leaf per nested statement, holding its complete text, the
    unchanged input and no error. -/
theorem nested_combination_parser_round_trip (o : Op3) (l r : NTree) (h : Combo.BOk (toBT (.op o l r)))
    (nested : Bool) (fuel : Nat) (hf : Combo.depthB (toBT (.op o l r)) ≤ fuel) :
    Combo.parse true fuel (renderN (.op o l r)) nested
      = .res ⟨Combo.treeOfB (toBT (.op o l r)), renderN (.op o l r), Combo.cNoError⟩ := by
  rw [renderN_eq]
  exact Combo.parseB_render o (toBT l) (toBT r) h nested fuel hf

/-- the same with the component symbol in front, which is the text `parseNestedStatementCombination`
    hands over (`Cac{Cac{…} [AND] Cac{…}}`): same tree; the symbol becomes shared left text of
    the root -/
theorem nested_combination_parser_with_symbol (sym : Str) (o : Op3) (l r : NTree) (h : Combo.BOk (toBT (.op o l r)))
    (hs : Combo.SWord sym) (hb : Combo.BPlain sym) (nested : Bool) (fuel : Nat)
    (hf : Combo.depthB (toBT (.op o l r)) ≤ fuel) :
    Combo.parse true fuel (sym ++ renderN (.op o l r)) nested
      = .res ⟨.comb o.str [sym] [] (Combo.treeOfB (toBT l)) (Combo.treeOfB (toBT r)), sym ++ renderN (.op o l r), Combo.cNoError⟩ := by
  rw [renderN_eq]
  exact Combo.parseB_with_symbol sym o (toBT l) (toBT r) h hs hb nested fuel hf

/-- **Chains of nested statements** (`Cac{Cac{…} [AND] Cac{…} [AND] Cac{…}}`, at any depth, mixed
    with brace-indicated precedence): `Combo.BN.T` is the notation (a group written without its
    own braces may only be the left part of a group with the same operator); the parser
    re-brackets once per additional operand, in reading order, and returns the tree with every
    chain nested to the left, one leaf per nested statement. -/
theorem nested_combination_chains (o : Op3) (l r : Combo.BN.T) (hw : Combo.BN.wf (.bin o true l r) none)
    (nested : Bool) (fuel : Nat) (hf : Combo.depthB (Combo.BN.toBT (.bin o true l r)) ≤ fuel) :
    Combo.parse true fuel (Combo.BN.rT (.bin o true l r)) nested
      = .res ⟨Combo.treeOfB (Combo.BN.toBT (.bin o true l r)), Combo.renderB (Combo.BN.toBT (.bin o true l r)), Combo.cNoError⟩ :=
  Combo.BN.parseB_chains o l r hw nested fuel hf

/-- the same behind the component symbol, which is the text `parseNestedStatementCombination`
    hands over for `Cac{Cac{…} [AND] Cac{…} [AND] Cac{…}}` -/
theorem nested_combination_chains_with_symbol (sym : Str) (o : Op3) (l r : Combo.BN.T)
    (hw : Combo.BN.wf (.bin o true l r) none) (hs : Combo.SWord sym) (hb : Combo.BPlain sym) (nested : Bool) (fuel : Nat)
    (hf : Combo.depthB (Combo.BN.toBT (.bin o true l r)) ≤ fuel) :
    Combo.parse true fuel (sym ++ Combo.BN.rT (.bin o true l r)) nested
      = .res ⟨.comb o.str [sym] [] (Combo.treeOfB (Combo.BN.toBT l)) (Combo.treeOfB (Combo.BN.toBT r)),
              sym ++ Combo.renderB (Combo.BN.toBT (.bin o true l r)), Combo.cNoError⟩ :=
  Combo.BN.parseB_with_symbol_chains sym o l r hw hs hb nested fuel hf

/-- every level of the scan: one complete boundary with the written operator for a combination,
    one incomplete boundary for a nested statement, lower levels untouched -/
theorem brace_scan_records_the_written_tree (t : Combo.BT) (hb : Combo.BOk t) (cs : Str) (i : Nat) (st : Combo.St)
    (h : st.modes.length ≤ st.lm.length) (hg : st.gpar = 0) :
    ∃ lm', Combo.scan '{' '}' (Combo.renderB t ++ cs) i st
            = Combo.scan '{' '}' cs (i + (Combo.renderB t).length) { st with lm := lm' }
      ∧ Combo.Ext st.modes.length st.lm lm' (Combo.entsB t i) :=
  Combo.scan_renderB t hb cs i st h hg

/-- the side conditions hold for `{Cac{A(a) I((b [AND] c))} [OR] Cac{A(d) I(e)}}` -/
example : Combo.BOk (.op .OR (.one (str "Cac") (str "A(a) I((b [AND] c))")) (.one (str "Cac") (str "A(d) I(e)"))) := by
  refine .op _ _ _ (.one _ _ ?_ ?_ ?_ ?_ ?_) (.one _ _ ?_ ?_ ?_ ?_ ?_) <;> simp [Combo.BPlain, str] <;> decide

/-! ### Under which component type a nested statement is attached

`parseNestedStatementCombination` hands the text in front of the opening brace — of the combination
and of each of its operands — to `extractComponentType` (modelled in `Model/Header.lean`, tied by the `ctype` stream through
the hook `VerifExtractComponentType`). -/

/-- (T) the table the model walks is `tree.IGComponentSymbols` as it stands in the source now -/
theorem component_symbol_table : Gen.componentSymbols.map String.toList = Header.table := by decide

/-- the nesting-capable symbols of the specification are headers the two theorems below speak about:
    a root of the table, followed by the property marker for the property variants -/
theorem nestable_symbols_covered :
    Sym.nestables.all (fun s => Header.roots.contains s.name ||
      Header.propRoots.any (fun r => s.name == r ++ Header.marker)) = true := by decide

/-- **an operand (or the header) of a combination of nested statements that is written as a component
    symbol with any suffix and any annotation (`Cac{`, `Bdir1{`, `Cex12[ctx=time]{`) is attached under
    exactly that component type, and is not taken for a property** — for every symbol of the table, every digit string, every annotation -/
theorem nested_header_type (r : Str) (hr : r ∈ Header.roots) (d anno : Str) (hd : ∀ c ∈ d, c.isDigit = true)
    (ha : anno = [] ∨ ∃ t, anno = '[' :: t) :
    Header.extractType (Gen.componentSymbols.map String.toList) (r ++ d ++ anno) = .ok r false := by
  rw [component_symbol_table]; exact Header.header_type_plain r hr d anno hd ha

/-- **an operand or header written as a property (`A,p{`, `Bdir1,p{`, `Bdir1,p2[k=v]{`, `P,p3{`) is
    attached as the property variant of its component**, whatever the primary and secondary suffixes and the annotation are;
    the annotation may itself contain symbols or the property marker (it is cut before the search) -/
theorem nested_property_header_type (r : Str) (hr : r ∈ Header.propRoots) (d1 d2 anno : Str)
    (hd1 : ∀ c ∈ d1, c.isDigit = true) (hd2 : ∀ c ∈ d2, c.isDigit = true) (ha : anno = [] ∨ ∃ t, anno = '[' :: t) :
    Header.extractType (Gen.componentSymbols.map String.toList) (r ++ d1 ++ Header.marker ++ d2 ++ anno)
      = .ok (r ++ Header.marker) true := by
  rw [component_symbol_table]; exact Header.header_type_property r hr d1 d2 anno hd1 hd2 ha

/-- **the annotation of a nested component never changes its type**: for every table and every header
    without `[`, whatever is written in the annotation (symbols, `,p`, further brackets) — the general
    form of the defect repaired in 76fa5ac (`Bdir[ref=1,part=2]{…}` taken for a property) -/
theorem annotation_does_not_change_the_type (tbl : List Str) (h t : Str) (hh : ∀ x ∈ h, x ≠ '[') :
    Header.extractType tbl (h ++ '[' :: t) = Header.extractType tbl h :=
  Header.annotation_has_no_influence tbl h t hh

/-- **blanks in front of the header (as the separation of the operands leaves them) never change the
    type**, for every input — so the two theorems above also hold for ` Bdir1,p2[k=v]` -/
theorem leading_blanks_do_not_change_the_type (ws i : Str) (hws : ∀ x ∈ ws, x = ' ') :
    Header.extractType (Gen.componentSymbols.map String.toList) (ws ++ i)
      = Header.extractType (Gen.componentSymbols.map String.toList) i := by
  rw [component_symbol_table]
  exact Header.leading_blanks_have_no_influence Header.table Header.table_no_blank_head ws i hws

/-- the hypotheses are met by `Bdir12,p3[ref=1,part=2]`, and the answer is computed as stated -/
example : Header.extractType Header.table (str "Bdir12,p3[ref=1,part=2]") = .ok (str "Bdir,p") true := by decide
example : (str "Bdir") ∈ Header.propRoots ∧ (∀ c ∈ str "12", c.isDigit = true) := by decide

/-- two different components in one header are refused (`MULTIPLE_COMPONENTS_FOUND`), a header
    without any symbol too (`COMPONENT_NOT_FOUND`) — concrete instances, tests of the model only -/
example : Header.extractType Header.table (str "CacBdir") = .multiple (str "Bdir") false := by decide
example : Header.extractType Header.table (str "xyz1") = .notFound false := by decide

end IGVerif.C02
