import IGVerif.Props.Ties
/-! C02 — nested statements and their combinations attach where and how they are written.

The statement-level parser is modelled by its specification (`denote`, Spec/Grammar.lean) and
tied by differential execution on the decidable class `supported` (Spec/Shape.lean); outside
that class the classification patterns fail (known finding `C02-regex-shape`). -/
namespace IGVerif.C02
open IGVerif

/-- a nested statement is a complete statement of its own: the field of its symbol holds the
    meaning of the inner statement, whatever that is (any depth) -/
theorem nested_is_full_statement (h : Hdr) (inner : Stmt) (f : Nat) (hf : h.sym.complex = some f) :
    denoteS (.mk [.nested h inner]) = sortFields [(f, nestedNode h inner)] := by
  simp [denoteS, denoteSimple, denoteCombos, denoteNested, hf, addField]

/-- … and that value is the inner statement parsed by the same function as a top-level one
    (when the inner statement has no component-pair combination; with one, see C03) -/
theorem nested_value_is_inner_statement (h : Hdr) (ips : List Part) (hp : pairsIn (denoteS (.mk ips)) ips = none) :
    nestedNode h (.mk ips) = .stmt (hdrMeta h {}) (denoteS (.mk ips)) := by
  simp only [denoteS] at hp
  simp [nestedNode, hp, denoteS]

/-- several nested statements of one symbol are conjoined in source order -/
theorem two_nested_conjoined (h₁ h₂ : Hdr) (s₁ s₂ : Stmt) (f : Nat)
    (hf₁ : h₁.sym.complex = some f) (hf₂ : h₂.sym.complex = some f) :
    denoteS (.mk [.nested h₁ s₁, .nested h₂ s₂]) =
      sortFields [(f, combineN opAND (nestedNode h₁ s₁) (nestedNode h₂ s₂))] := by
  have e1 : (str "[XOR]" = ([] : Str)) = False := by decide
  have e2 : (str "[OR]" = ([] : Str)) = False := by decide
  simp [denoteS, denoteSimple, denoteCombos, denoteNested, hf₁, hf₂, addField, nestedOp, countNested, Part.fillerText,
    contains, e1, e2]

/-- … or joined by the single operator written between them -/
theorem two_nested_written_operator (h₁ h₂ : Hdr) (s₁ s₂ : Stmt) (f : Nat)
    (hf₁ : h₁.sym.complex = some f) (hf₂ : h₂.sym.complex = some f) :
    denoteS (.mk [.nested h₁ s₁, .filler (str "[XOR]"), .nested h₂ s₂]) =
      sortFields [(f, combineN opXOR (nestedNode h₁ s₁) (nestedNode h₂ s₂))] := by
  have : contains (str "[XOR]") (str "[XOR]") = true := by decide
  simp [denoteS, denoteSimple, denoteCombos, denoteNested, hf₁, hf₂, addField, nestedOp, countNested, Part.fillerText, this]

/-- a braced combination yields exactly the written operator tree over its statements -/
theorem combination_tree_as_written (o : Op3) (l r : NTree) :
    denoteN (.op o l r) = .comb o.str [] [] {} [] (denoteN l) (denoteN r) := by
  simp [denoteN]

/-- `supported` is inhabited on both sides -/
example : supported (.mk [.ann { sym := Sym.A } true (.leaf (str "x")),
    .nested { sym := Sym.Cac } (.mk [.ann { sym := Sym.I } true (.leaf (str "y")),
      .nested { sym := Sym.Bdir } (.mk [.ann { sym := Sym.A } true (.leaf (str "z"))])])]) = true := by decide

example : supported (.mk [.nested { sym := Sym.Bdir } (.mk [.ncomb { sym := Sym.Cac }
    (.op .XOR (.one { sym := Sym.Cac } (.mk [])) (.one { sym := Sym.Cac } (.mk [])))])]) = false := by decide

end IGVerif.C02
