import IGVerif.Props.Ties
/-! C20 — Degree of Variability follows the documented recurrence. -/
namespace IGVerif.C20
open IGVerif IGVerif.Dov

/-- single value -/
theorem dov_leaf (fuel : Nat) (t : Str) (sl sr : List Str) (m : Meta) (p : List PNode) (h : t ≠ []) :
    node fuel (.leaf t sl sr m p) = some 1 := by simp [node, h]

/-- conjunctions (written or implicit): sum of both sides minus one -/
theorem dov_and (fuel : Nat) (op : Str) (sl sr : List Str) (m : Meta) (p : List PNode) (l r : PNode) (a b : Int)
    (hop : op = opAND ∨ op = opBAND ∨ op = opWAND) (hl : node fuel l = some a) (hr : node fuel r = some b) :
    node (fuel + 1) (.comb op sl sr m p l r) = some (a + b - 1) := by
  rcases hop with h | h | h <;> subst h <;> simp [node, hl, hr]

theorem ops_distinct : opXOR ≠ opAND ∧ opXOR ≠ opBAND ∧ opXOR ≠ opWAND ∧ opOR ≠ opAND ∧ opOR ≠ opBAND ∧ opOR ≠ opWAND ∧
    opOR ≠ opXOR := by decide

/-- exclusive or: the plain sum -/
theorem dov_xor (fuel : Nat) (sl sr : List Str) (m : Meta) (p : List PNode) (l r : PNode) (a b : Int)
    (hl : node fuel l = some a) (hr : node fuel r = some b) :
    node (fuel + 1) (.comb opXOR sl sr m p l r) = some (a + b) := by
  obtain ⟨h1, h2, h3, _⟩ := ops_distinct
  simp [node, hl, hr, h1, h2, h3]

/-- inclusive or: the sum plus one -/
theorem dov_or (fuel : Nat) (sl sr : List Str) (m : Meta) (p : List PNode) (l r : PNode) (a b : Int)
    (hl : node fuel l = some a) (hr : node fuel r = some b) :
    node (fuel + 1) (.comb opOR sl sr m p l r) = some (a + b + 1) := by
  obtain ⟨_, _, _, h4, h5, h6, h7⟩ := ops_distinct
  simp [node, hl, hr, h4, h5, h6, h7]

/-- a nested statement contributes its own total -/
theorem dov_nested (fuel : Nat) (m : Meta) (fs : PStmt) : node (fuel + 1) (.stmt m fs) = some (total fuel fs) := by
  simp [node]

/-- the statement total: (sum of the component values greater than one, at least 1) times
    (the combined activation-condition value, at least 1) -/
theorem dov_total (fuel : Nat) (fs : PStmt) :
    total fuel fs =
      aggregateIfGreater (fieldVals fuel fs leadingFields) 1 1 *
      findMaxValue [fieldVal fuel fs 22 + fieldVal fuel fs 23] 1 := by
  simp [total, condFields, fieldVals, sumVals]

theorem aggregate_at_least_one (arr : List Int) : 1 ≤ aggregateIfGreater arr 1 1 := by
  unfold aggregateIfGreater; simp only; split <;> omega

theorem findMax_at_least_one (arr : List Int) : 1 ≤ findMaxValue arr 1 := by
  unfold findMaxValue; simp only; split <;> omega

/-- a statement's total is at least 1 -/
theorem total_pos (fuel : Nat) (fs : PStmt) : 1 ≤ total fuel fs := by
  rw [dov_total]
  have h1 := aggregate_at_least_one (fieldVals fuel fs leadingFields)
  have h2 := findMax_at_least_one [fieldVal fuel fs 22 + fieldVal fuel fs 23]
  have hp : 0 < aggregateIfGreater (fieldVals fuel fs leadingFields) 1 1 *
      findMaxValue [fieldVal fuel fs 22 + fieldVal fuel fs 23] 1 := Int.mul_pos (by omega) (by omega)
  omega

/-- every counted component is counted once: the 24 leading fields are distinct and, together
    with the two activation-condition fields and Or-else, cover all 27 statement fields -/
theorem every_counted_field_once :
    leadingFields.Nodup ∧ (leadingFields ++ condFields ++ [26]).length = 27 ∧
    (List.range 27).all (fun i => (leadingFields ++ condFields ++ [26]).contains i) = true := by decide

/-- non-vacuity: the premises of the recurrence theorems are met by concrete trees -/
example : node 1 (.comb opOR [] [] {} [] (.leaf (str "a") [] [] {} []) (.leaf (str "b") [] [] {} [])) = some 3 :=
  dov_or 0 [] [] {} [] _ _ 1 1 (dov_leaf 0 _ [] [] {} [] (by decide)) (dov_leaf 0 _ [] [] {} [] (by decide))

end IGVerif.C20
