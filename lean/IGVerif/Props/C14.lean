import IGVerif.Proofs.Serial
import IGVerif.Props.C13
/-! C14 — concurrent requests do not influence each other's responses.

Atoms of the model are the handler's yield points (before the lock, options assigned,
converted). Data races *inside* a conversion, the stdout/log redirection and the Go memory
model are not exhibited by this model (see DESIGN.md §5); within it the statement is proved for
every number of requests and every valid interleaving. -/
namespace IGVerif.C14
open IGVerif IGVerif.Sched

/-- T: `converterHandler` takes `conversionLock` and releases it by `defer` in the next statement -/
theorem lock_present :
    Gen.converterLockCalls.contains ("converterHandler", "conversionLock", "Lock") = true ∧
    Gen.converterLockCalls.contains ("converterHandler", "conversionLock", "Unlock") = true ∧
    Gen.converterHandlerLockShape.1 ≥ 0 ∧
    Gen.converterHandlerLockShape.2 = Gen.converterHandlerLockShape.1 + 1 := by decide

/-- T: every statement of `converterHandler` that assigns a global or delegates to an
    output-specific handler comes after the lock has been taken -/
theorem lock_brackets_all_global_access :
    Gen.converterHandlerGlobalStmts.all (fun i => decide (i > Gen.converterHandlerLockShape.2)) = true := by decide

/-- **C14** for the handlers as wired in /repo (write lists and read sets from the generated
    facts, arbitrary conversion): under every valid interleaving of any number of requests,
    each produced response equals the response of the same request processed alone. -/
theorem concurrent_requests_isolated {Req Out : Type} (isTab : Req → Bool) (val : String → Req → String)
    (conv : Req → List String → Out) (rs : List Req) (g₀ : G) (σ : List Nat) (c : Conf Out)
    (h : exec (C13.sys isTab val conv) true rs (init g₀ rs.length) σ = some c)
    (i : Nat) (r : Req) (o : Out) (hr : rs[i]? = some r) (ho : c.outs[i]? = some (some o)) :
    o = alone (C13.sys isTab val conv) g₀ r := by
  apply serialised (C13.sys isTab val conv) rs g₀ (C13.sys_covered isTab val conv) ?_ σ c h i r o hr ho
  intro q v hv
  rw [C13.sys_never] at hv
  cases hq : isTab q
  · rw [C13.sys_handler_vis isTab val conv q hq]
    simp only []
    rw [C13.any_map_fst]
    have := C13.never_not_written_vis
    simp only [List.all_eq_true] at this
    simpa using this v hv
  · rw [C13.sys_handler_tab isTab val conv q hq]
    simp only []
    rw [C13.any_map_fst]
    have := C13.never_not_written_tab
    simp only [List.all_eq_true] at this
    simpa using this v hv

/-! Without the lock the statement is false: two requests with different options. -/

def demoSys : System Bool String :=
  { handler := fun _ => { writes := [("ext", fun r => if r then "1" else "0")], reads := ["ext"] }
    conv := fun _ vs => String.join vs
    neverWritten := [] }

def outsOf (c : Option (Conf String)) : Option (List (Option String)) := c.map (·.outs)

/-- interleaving `0 sets, 1 sets, 0 converts`: request 0 is answered with request 1's option -/
theorem unlocked_interleaving_leaks :
    outsOf (exec demoSys false [true, false] (init (fun _ => "") 2) [0, 0, 1, 1, 0, 1]) = some [some "0", some "0"] ∧
    alone demoSys (fun _ => "") true = "1" := by
  constructor <;> rfl

/-- non-vacuity of the locked statement: a complete schedule exists and yields both responses -/
example : outsOf (exec demoSys true [true, false] (init (fun _ => "") 2) [0, 1, 0, 0, 1, 1, 1]) = none ∧
          outsOf (exec demoSys true [true, false] (init (fun _ => "") 2) [0, 0, 0, 1, 1, 1]) = some [some "1", some "0"] := by
  constructor <;> rfl

end IGVerif.C14
