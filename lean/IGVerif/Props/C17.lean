import IGVerif.Props.Ties
/-! C17 — visual display options change presentation only. -/
namespace IGVerif.C17
open IGVerif IGVerif.Vis

/-- moving activation conditions first only reorders the top-level children -/
theorem ac_first_is_reordering : (printedFields true).Perm (printedFields false) := by decide

/-- … and touches nothing but the two activation-condition fields -/
theorem ac_first_keeps_other_order :
    (printedFields true).filter (fun i => i ≠ 22 ∧ i ≠ 23) = (printedFields false).filter (fun i => i ≠ 22 ∧ i ≠ 23) := by
  decide

/-- annotations appear exactly when selected -/
theorem annotations_iff_selected (o : VOpts) (a : Option Str) :
    (optAnn o a).isSome = (o.ann && a.isSome) := by
  unfold optAnn; cases o.ann <;> cases a <;> simp

end IGVerif.C17
