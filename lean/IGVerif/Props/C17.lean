import IGVerif.Props.Ties
import IGVerif.Proofs.VisValues
/-! C17 — visual display options change presentation only. -/
namespace IGVerif.C17
open IGVerif IGVerif.Vis

/-- moving activation conditions first only reorders the top-level children -/
theorem ac_first_is_reordering : (printedFields true).Perm (printedFields false) := by decide

/-- … and touches nothing but the two activation-condition fields -/
theorem ac_first_keeps_other_order :
    (printedFields true).filter (fun i => i ≠ 22 ∧ i ≠ 23) = (printedFields false).filter (fun i => i ≠ 22 ∧ i ≠ 23) := by
  decide

/-- annotations appear exactly when selected -/
theorem annotations_iff_selected (o : VOpts) (a : Option Str) :
    (optAnn o a).isSome = (o.ann && a.isSome) := by
  unfold optAnn; cases o.ann <;> cases a <;> simp

/-- **The (component, value text, level) entries of a component are the same under every
    combination of display options** — flat or tree properties, binary or collapsed operators,
    activation conditions first, annotations, Degree of Variability: only the packaging of the
    value objects changes -/
theorem entries_do_not_depend_on_options (o₁ o₂ : VOpts) (fs₁ fs₂ : PStmt) (level : Nat) (fuel₁ fuel₂ : Nat) (n : PNode) (c : Ctx)
    (p₁ p₂ : Option Str) (q₁ q₂ : Str) (h₁ : height n ≤ fuel₁) (h₂ : height n ≤ fuel₂) :
    valuesL (nodeJ o₁ fuel₁ fs₁ level c p₁ q₁ n) = valuesL (nodeJ o₂ fuel₂ fs₂ level c p₂ q₂ n) :=
  values_option_independent o₁ o₂ fs₁ fs₂ level fuel₁ fuel₂ n c p₁ p₂ q₁ q₂ h₁ h₂

/-- **Binary mode yields operator nodes with (at most) two children**: every operator becomes an
    object of its own whose children are its printed operands, nothing is spliced into a parent -/
theorem binary_mode_two_children (o : VOpts) (hb : o.bin = true) (fs : PStmt) (level : Nat) (f : Nat)
    (op : Str) (sl sr : List Str) (m : Meta) (priv : List PNode) (l r : PNode) (c : Ctx) (pop : Option Str) (pcomp : Str) :
    (jlistOfFragments (str ",\n")
      [nodeJ o f fs level (childCtx c op sl sr m) (some op) (effComp c m) l,
       nodeJ o f fs level (childCtx c op sl sr m) (some op) (effComp c m) r]).toList.length ≤ 2 :=
  (bin_operator_children o hb fs level f op sl sr m priv l r c pop pcomp).2.2

/-- in binary mode no node is spliced: each node is printed as at most one object -/
theorem binary_mode_no_splicing (o : VOpts) (hb : o.bin = true) (fs : PStmt) (level : Nat) (fuel : Nat) (n : PNode) (c : Ctx)
    (pop : Option Str) (pcomp : Str) : (nodeJ o fuel fs level c pop pcomp n).toList.length ≤ 1 :=
  bin_fragment_single o hb fs level fuel n c pop pcomp

end IGVerif.C17
