import IGVerif.Model.Web
import IGVerif.Gen.Facts
/-! C15 — the web pages return exactly what the core conversion produces.

`Web.decode` is the code-shaped model of `converterHandler`'s option decoding; the
correspondence run compares the page with an independent core call made with `decode`'s
options. Here: the positional wiring through the three call levels (regenerated facts) and the
decode table stated outright. `html/template` and `net/http` are assumed (trusted base). -/
namespace IGVerif.C15
open IGVerif IGVerif.Web

def lookupL (l : List (String × List String)) (k : String) : List String :=
  match l.find? (fun p => p.1 = k) with
  | some p => p.2
  | none => []

/-- T: positional hand-over `converterHandler → handleTabularOutput`: each argument expression
    is the variable holding the option the parameter names -/
theorem handoff_tabular :
    (lookupL Gen.handlerHandoff "handleTabularOutput").zip (lookupL Gen.handlerParams "handleTabularOutput") =
    [("w", "w"), ("retStruct.RawStmt", "originalStatement"), ("retStruct.CodedStmt", "codedStmt"),
     ("retStruct.StmtId", "stmtId"), ("retStruct", "retStruct"), ("dynamicOutput", "dynamicOutput"),
     ("produceIGExtendedOutput", "produceIGExtendedOutput"), ("includeAnnotations", "includeAnnotations"),
     ("retStruct.OutputType", "outputType"), ("printHeaders", "printHeaders"),
     ("formValuePrintOriginalStatement", "printOriginalStatement"), ("formValuePrintIgScript", "printIgScriptInput")] := by
  decide

theorem handoff_visual :
    (lookupL Gen.handlerHandoff "handleVisualOutput").zip (lookupL Gen.handlerParams "handleVisualOutput") =
    [("w", "w"), ("retStruct.CodedStmt", "codedStmt"), ("retStruct.StmtId", "stmtId"), ("retStruct", "retStruct"),
     ("printFlatProperties", "flatOutput"), ("printBinaryTree", "binaryOutput"),
     ("printActivationConditionsOnTop", "moveActivationConditionsToTop"), ("dynamicOutput", "dynamicOutput"),
     ("produceIGExtendedOutput", "produceIGExtendedOutput"), ("includeAnnotations", "includeAnnotations"),
     ("includeDoV", "includeDoV")] := by decide

/-- T: each handler parameter reaches the setter of the switch it names, and the endpoint
    receives the statement, id and inclusion options in the documented positions -/
theorem setters_tabular :
    (Gen.handlerSetters.filter (fun p => p.1 = "handleTabularOutput")).map (·.2) =
    [("shared.SetDefaultConfig", []), ("tabular.SetDynamicOutput", ["dynamicOutput"]),
     ("tabular.SetProduceIGExtendedOutput", ["produceIGExtendedOutput"]),
     ("tabular.SetIncludeAnnotations", ["includeAnnotations"]), ("tabular.SetIncludeHeaders", ["printHeaders"])] := by
  decide

theorem setters_visual :
    (Gen.handlerSetters.filter (fun p => p.1 = "handleVisualOutput")).map (·.2) =
    [("shared.SetDefaultConfig", []), ("tabular.SetDynamicOutput", ["dynamicOutput"]),
     ("tabular.SetProduceIGExtendedOutput", ["produceIGExtendedOutput"]),
     ("tabular.SetIncludeAnnotations", ["includeAnnotations"]),
     ("tabular.SetIncludeDegreeOfVariability", ["includeDoV"]), ("tree.SetFlatPrinting", ["flatOutput"]),
     ("tree.SetBinaryPrinting", ["binaryOutput"]),
     ("tree.SetMoveActivationConditionsToFront", ["moveActivationConditionsToTop"])] := by decide

theorem endpoint_args :
    Gen.handlerEndpointArgs =
    [("handleTabularOutput", "endpoints.ConvertIGScriptToTabularOutput",
        ["originalStatement", "codedStmt", "stmtId", "outputType", "\"\"", "true", "tabular.IncludeHeader()",
         "printOriginalStatement", "printIgScriptInput"]),
     ("handleVisualOutput", "endpoints.ConvertIGScriptToVisualTree", ["codedStmt", "stmtId", "\"\""])] := by decide

/-- T: the visual endpoint reads the five display switches in the printer's parameter order -/
theorem visual_endpoint_flags :
    Gen.visualEndpointArgs = ["nil", "tree.FlatPrinting()", "tree.BinaryPrinting()", "tabular.IncludeAnnotations()",
      "tabular.IncludeDegreeOfVariability()", "tree.MoveActivationConditionsToFront()", "0"] ∧
    (lookupL Gen.printerParams "PrintNodeTree") = ["stmt", "printFlat", "printBinary", "includeAnnotations",
      "includeDegreeOfVariability", "moveActivationConditionsToFront", "nestingLevel"] := by decide

/-- T: form field names read by the handler = names used by the model -/
theorem form_field_names :
    Gen.formBindings.map (·.2) =
    ["rawStmt", "codedStmt", "stmtId", "dynamicSchema", "annotations", "dov", "igExtended", "includeHeaders",
     "printOriginalStatement", "printIgScript", "outputType", "propertyTree", "binaryTree", "actCondTop",
     "canvasHeight", "canvasWidth"] := by decide

/-! ### the decode table, stated outright (POST) -/

def post (page : Page) (f : Form) : Req := { page := page, method := .POST, form := f }

/-- each checkbox controls exactly the option it names -/
theorem post_tab_decode (f : Form) (h : f.get "codedStmt" ≠ "")
    (hw : canvasBad (f.get "canvasWidth") = false) (hh : canvasBad (f.get "canvasHeight") = false) :
    decode (post .tab f) = .tab
      { orig := f.get "rawStmt", coded := f.get "codedStmt", id := f.get "stmtId",
        dyn := f.get "dynamicSchema" = "on", ext := f.get "igExtended" = "on", ann := f.get "annotations" = "on",
        outputType := f.get "outputType", headers := f.get "includeHeaders" = "on",
        po := f.get "printOriginalStatement", ps := f.get "printIgScript" } := by
  simp [decode, post, hw, hh, h]
  exact ⟨rfl, rfl, rfl⟩

theorem post_vis_decode (f : Form) (h : f.get "codedStmt" ≠ "")
    (hw : canvasBad (f.get "canvasWidth") = false) (hh : canvasBad (f.get "canvasHeight") = false) :
    decode (post .vis f) = .vis
      { coded := f.get "codedStmt", id := f.get "stmtId", flat := !(f.get "propertyTree" = "on"),
        bin := f.get "binaryTree" = "on", ac := f.get "actCondTop" = "on", dyn := f.get "dynamicSchema" = "on",
        ext := f.get "igExtended" = "on", ann := f.get "annotations" = "on", dov := f.get "dov" = "on" } := by
  simp [decode, post, hw, hh, h]
  exact ⟨rfl, rfl, rfl, rfl, rfl, rfl, rfl⟩

/-- an invalid canvas size never leads to a conversion, whatever else is submitted -/
theorem canvas_invalid_no_conversion (r : Req) (h : canvasBad (r.form.get "canvasWidth") = true) :
    decode r = .canvasError "width" := by
  simp [decode, h]

/-- an empty encoded statement is never converted (POST) -/
theorem empty_statement_not_converted (page : Page) (f : Form) (h : f.get "codedStmt" = "")
    (hw : canvasBad (f.get "canvasWidth") = false) (hh : canvasBad (f.get "canvasHeight") = false) :
    decode (post page f) = .noStatement := by
  simp [decode, post, hw, hh, h]

/-- a GET request without the execute flag shows the form only -/
theorem get_without_execute_shows_form (page : Page) (f : Form) (h : f.get "execute" = "")
    (hw : canvasBad (f.get "canvasWidth") = false) (hh : canvasBad (f.get "canvasHeight") = false) :
    decode { page := page, method := .GET, form := f } = .formOnly := by
  simp [decode, hw, hh, h]

example : canvasBad "99" = true ∧ canvasBad "100" = false ∧ canvasBad "abc" = true ∧ canvasBad "" = false := by decide

end IGVerif.C15
