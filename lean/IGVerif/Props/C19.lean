import IGVerif.Props.Ties
import IGVerif.Proofs.TabRows
/-! C19 — IG Core and IG Extended differ only in how nested statements are shown. -/
namespace IGVerif.C19
open IGVerif

/-- the places where the export reads the IG Extended switch: all inside
    `generateStatementMatrix` (the model's `o.ext` branches) -/
theorem extended_switch_sites :
    Gen.tabularSwitchReads.filter (fun r => r.2.1 = "ProduceIGExtendedOutput") =
      [("generateStatementMatrix", "ProduceIGExtendedOutput", 4)] := by decide

/-- **IG Core adds no rows**: with the IG Extended switch off, the table of a statement is
    exactly its own atomic statements, whatever it nests and to whatever depth -/
theorem core_adds_no_rows (o : Tab.Opts) (h : o.ext = false) (fuel : Nat) (fs : PStmt) (stmtId : Str)
    (stmtAnn : Option Str) (stmtLinks : Str) :
    Tab.stmtRows o (fuel + 1) fs stmtId stmtAnn stmtLinks = (Tab.ownRows o fs stmtId stmtAnn stmtLinks).1 :=
  Tab.stmtRows_core o h fuel fs stmtId stmtAnn stmtLinks

/-- in both modes the table begins with the statement's own atomic statements; IG Extended
    appends the row groups of the nested statements after them -/
theorem both_modes_begin_with_own_rows (o : Tab.Opts) (fuel : Nat) (fs : PStmt) (stmtId : Str) (stmtAnn : Option Str)
    (stmtLinks : Str) :
    ∃ rest, Tab.stmtRows o (fuel + 1) fs stmtId stmtAnn stmtLinks = (Tab.ownRows o fs stmtId stmtAnn stmtLinks).1 ++ rest :=
  Tab.stmtRows_own_prefix o fuel fs stmtId stmtAnn stmtLinks

/-- the number of top-level atomic statements does not depend on the mode (nor on any option) -/
theorem own_rows_equally_many (o o' : Tab.Opts) (fs : PStmt) (stmtId : Str) (stmtAnn : Option Str) (stmtLinks : Str) :
    (Tab.ownRows o fs stmtId stmtAnn stmtLinks).1.length = (Tab.ownRows o' fs stmtId stmtAnn stmtLinks).1.length := by
  rw [Tab.ownRows_length, Tab.ownRows_length]

/-- IG Core never hands out a nested-statement id -/
theorem core_registers_nothing (o : Tab.Opts) (h : o.ext = false) (fs : PStmt) (stmtId : Str) (stmtAnn : Option Str)
    (stmtLinks : Str) : (Tab.ownRows o fs stmtId stmtAnn stmtLinks).2 = [] :=
  Tab.ownRows_core_registry o h fs stmtId stmtAnn stmtLinks

end IGVerif.C19
