import IGVerif.Props.Ties
/-! C19 — IG Core and IG Extended differ only in how nested statements are shown. -/
namespace IGVerif.C19
open IGVerif

/-- the places where the export reads the IG Extended switch: all inside
    `generateStatementMatrix` (the model's `o.ext` branches) -/
theorem extended_switch_sites :
    Gen.tabularSwitchReads.filter (fun r => r.2.1 = "ProduceIGExtendedOutput") =
      [("generateStatementMatrix", "ProduceIGExtendedOutput", 4)] := by decide

end IGVerif.C19
