import IGVerif.Props.Ties
import IGVerif.Spec.PrivateLink
import IGVerif.Proofs.PrivateLink
import IGVerif.Proofs.Annotations
/-! C16 — private properties and annotations attach exactly to the values coded for. -/
namespace IGVerif.C16
open IGVerif

/-- the specification pairs the same (component, property) fields as the code -/
theorem pairs_match_code :
    Gen.privateLinkTable.map (fun p => (Ties.fieldIdx p.2.1, Ties.fieldIdx p.2.2)) = privatePairs.map (fun t => (t.2.1, t.2.2)) := by
  decide

/-- nothing to withdraw: the property tree is unchanged -/
theorem removeLeaves_none : (n : PNode) → (rp : List Bool) → removeLeaves [] n rp = some n
  | .comb op sl sr m p l r, rp => by simp [removeLeaves, removeLeaves_none l, removeLeaves_none r]
  | .leaf .., _ => by simp [removeLeaves]
  | .stmt .., _ => by simp [removeLeaves]
  | .pairs .., _ => by simp [removeLeaves]
  | .empty, _ => by simp [removeLeaves]

/-- nothing to attach: the component tree is unchanged -/
theorem attachPrivate_none : (n : PNode) → (rp : List Bool) → attachPrivate [] n rp = n
  | .comb op sl sr m p l r, rp => by simp [attachPrivate, attachPrivate_none l, attachPrivate_none r]
  | .leaf .., _ => by simp [attachPrivate]
  | .stmt .., _ => by simp [attachPrivate]
  | .pairs .., _ => by simp [attachPrivate]
  | .empty, _ => by simp [attachPrivate]

/-- properties without a suffix stay shared: when no property value carries a suffix the
    statement is returned as it is -/
theorem unsuffixed_properties_stay_shared (fs : PStmt) (cf pf : Nat)
    (h : ∀ p, fieldOf fs pf = some p → (leavesOf p).filter (fun v => v.esfx.isSome && v.esfx ≠ some []) = []) :
    linkPair fs cf pf = fs := by
  unfold linkPair
  split
  · rename_i c p hc hp
    simp only [h p hp, List.filter_nil, List.map_nil, List.isEmpty_nil, if_true]
  · rfl

/-- … and likewise when no component value carries a suffix -/
theorem unsuffixed_components_take_nothing (fs : PStmt) (cf pf : Nat)
    (h : ∀ c, fieldOf fs cf = some c → (leavesOf c).filter (fun v => v.esfx.isSome && v.esfx ≠ some []) = []) :
    linkPair fs cf pf = fs := by
  unfold linkPair
  split
  · rename_i c p hc hp
    simp only [h c hc, List.any_nil]
    simp
  · rfl

/-- the attached private value keeps the property's component type -/
theorem private_keeps_component_type (v : LeafV) (t : Str) (sl sr : List Str) (m : Meta) (p : List PNode)
    (h : v.node = .leaf t sl sr m p) : asPrivate v = .leaf t sl sr { m with ct := v.comp } p := by
  simp [asPrivate, h, PNode.withMeta]

/-- **Withdrawn from the shared properties**: after the private values have been taken out, the
    shared property tree holds exactly the values at the paths that were not matched, in their
    written order — no private value stays shared, no shared value is lost -/
theorem shared_tree_keeps_exactly_the_unmatched (paths : List (List Bool)) (p : PNode) :
    leafNodesOpt (removeLeaves paths p []) =
      ((leavesWithPath p []).filter (fun x => !paths.contains x.1)).map (·.2) :=
  removeLeaves_leaves paths p []

/-- attaching private nodes changes no value, operator or shared text of the component -/
theorem attaching_changes_only_private_lists (links : List (List Bool × List PNode)) (c : PNode) :
    eraseAttached (attachPrivate links c []) = eraseAttached c :=
  attachPrivate_shape links c []

/-- a value receives exactly the private nodes listed for its own path: what `linkPair` lists
    there are the property values whose suffix equals the suffix of this value's annotation -/
theorem value_receives_its_own_private_nodes (links : List (List Bool × List PNode)) (t : Str) (sl sr : List Str) (m : Meta)
    (p : List PNode) (rp : List Bool) :
    attachPrivate links (.leaf t sl sr m p) rp =
      .leaf t sl sr m (p ++ ((links.find? (fun k => k.1 = rp.reverse)).map (·.2)).getD []) :=
  attachPrivate_leaf links t sl sr m p rp

/-- **A semantic annotation written on a component applies to every value of that component**:
    whatever combinations, chains and shared text the component contains, every one of its
    values has the header's annotation as its effective annotation (and a component without
    annotation gives none to its values). Values of another annotation belong to another tree
    with its own header, joined by the implicit conjunction, which passes no annotation on. -/
theorem annotation_on_every_value_of_its_component (h : Hdr) (e : Expr) (v : LeafV)
    (hv : v ∈ leavesOf ((denoteE [] [] e).withMeta (hdrMeta h))) :
    v.eann = h.anno.map (fun a => '[' :: a ++ [']']) :=
  annotation_applies_to_every_value h e v hv

end IGVerif.C16
