import IGVerif.Proofs.VisValid
import IGVerif.Gen.Facts
/-! C08 — the visual output is always one valid JSON document.

`Vis.visTop` is the code-shaped model of `ConvertIGScriptToVisualTree` after parsing
(`PrintTree` / `PrintNodeTree` / `appendPropertyNodes` / `appendAnnotations` /
`appendDegreeOfVariability`), `Json.ser` writes the separators exactly as the Go code places
them; the correspondence run compares model and implementation byte for byte. `JG.ValidJSON`
is the RFC 8259 grammar. -/
namespace IGVerif.C08
open IGVerif IGVerif.Vis IGVerif.Json IGVerif.JG

/-- roots `parser.ParseStatement` can return: a statement, a tree of expanded pair
    statements, (or a bare value) -/
def printableRoot : PNode → Bool
  | .leaf .. => true
  | .comb .. => true
  | .stmt .. => true
  | .pairs _ (.stmt .. :: _) => true
  | _ => false

/-- at the root the printer yields exactly one object -/
theorem root_single (o : VOpts) (fuel : Nat) (root : PNode) (hn : NamesOK root) (hp : printableRoot root = true) :
    ∃ x, nodeJ o (fuel + 1) [] 0 {} none [] root = .cons x [] .nil ∧ WFNode x := by
  have hw := (wf_all o (fuel + 1)).1 [] 0 {} none [] root trivial StrBody.nil hn
  cases root with
  | empty => simp [printableRoot] at hp
  | leaf t sl sr m p =>
    simp only [nodeJ, JList.single] at hw ⊢
    simp only [WFList] at hw
    exact ⟨_, rfl, hw.1⟩
  | comb op sl sr m p l r =>
    simp only [nodeJ] at hw ⊢
    simp only [show ({} : Ctx).hasParent = false from rfl, Bool.false_eq_true, Bool.and_false, Bool.false_and,
      Bool.and_eq_true, false_and, and_false, if_false, JList.single] at hw ⊢
    simp only [WFList] at hw
    exact ⟨_, rfl, hw.1⟩
  | stmt m fs =>
    simp only [nodeJ, JList.single] at hw ⊢
    simp only [WFList] at hw
    exact ⟨_, rfl, hw.1⟩
  | pairs m ns =>
    cases ns with
    | nil => simp [printableRoot] at hp
    | cons x rest =>
      cases x with
      | stmt m2 inner =>
        simp only [nodeJ, JList.single] at hw ⊢
        simp only [WFList] at hw
        exact ⟨_, rfl, hw.1⟩
      | leaf _ _ _ _ _ => simp [printableRoot] at hp
      | comb _ _ _ _ _ _ _ => simp [printableRoot] at hp
      | pairs _ _ => simp [printableRoot] at hp
      | empty => simp [printableRoot] at hp

/-- **C08**: for every parsed statement — any components, any nesting depth, any text in
    values, annotations and shared text — and every combination of the five display options,
    the document written is valid JSON. (`NamesOK`: component symbols and logical operators,
    which the parser takes from its own constant tables, contain no quote, backslash or control
    character.) -/
theorem visual_output_is_valid_json (o : VOpts) (root : PNode) (hn : NamesOK root) (hp : printableRoot root = true) :
    ValidJSON (visTop o root) := by
  obtain ⟨x, hx, hwf⟩ := root_single o 199 root hn hp
  unfold visTop ValidJSON
  rw [show (200 : Nat) = 199 + 1 from rfl, hx]
  exact padded_of_value _ (value_ser x hwf)

/-- the serialiser alone: every well-formed document tree is written as valid JSON -/
theorem ser_valid (j : JNode) (h : WFNode j) : ValidJSON (ser j) :=
  padded_of_value _ (value_ser j h)

/-- whatever characters a text contains, its escaped form is a legal JSON string body -/
theorem escape_is_string_body (s : Str) : StrBody (escape s) := body_escape s

example : NamesOK (.stmt {} [(0, .leaf (str "x") [] [] { ct := str "A" } [])]) := by
  simp only [NamesOK, NamesOKF, NamesOKL]
  exact ⟨StrBody.nil, ⟨body_lit "A" (by decide), trivial⟩, trivial⟩

/-- strings written by the printers that are not text from the statement: recursive output,
    fixed names and numerals -/
def structuralWrites : List String :=
  ["rootName", "prepend", "componentString", "outTmpL", "outTmpR", "n.LogicalOperator", "n.GetComponentName()",
   "outTmp", "outTmp.String()", "stringToPrepend", "stringTmp", "strconv.Itoa(nestingLevel)",
   "parent.appendAnnotations(\"\", false, true)", "parent.appendDegreeOfVariability(\"\", false, true)"]

def hasPrefix (p s : String) : Bool := s.toList.take p.length == p.toList

/-- T: every non-constant string a printer function writes is either structural or has gone
    through `escapeForTreeOutput` (a new unescaped text site breaks this obligation) -/
theorem every_text_site_is_escaped :
    Gen.printerDynamicWrites.all (fun w => structuralWrites.contains w.2 || hasPrefix "escapeForTreeOutput(" w.2) = true := by
  decide

end IGVerif.C08
