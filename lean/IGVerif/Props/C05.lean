import IGVerif.Model.Link
import IGVerif.Model.Refs
import IGVerif.Proofs.LinkSpec
import IGVerif.Proofs.RefsDecode
import IGVerif.Model.Tab
/-! C05 — logical linkage cells name the right rows and the right operators. -/
namespace IGVerif.C05
open IGVerif IGVerif.Link IGVerif.Refs

/-- collapsing never invents or reorders operators: the result is a sublist of the input -/
theorem collapse_sublist (ops : List Str) : (collapse ops).Sublist ops := by
  induction ops using collapse.induct with
  | case1 => simp [collapse]
  | case2 x => simp [collapse]
  | case3 x y rest h ih =>
    simp only [collapse, h, if_true]
    exact ih.trans (List.Sublist.cons₂ x (List.sublist_cons_self y rest))
  | case4 x y rest h ih =>
    simp only [collapse, h]
    exact List.Sublist.cons₂ x ih

/-- operators outside the conjunction class are never dropped -/
theorem collapse_keeps_non_conjunctions (ops : List Str) :
    (collapse ops).filter (fun o => !collapsible o) = ops.filter (fun o => !collapsible o) := by
  induction ops using collapse.induct with
  | case1 => simp [collapse]
  | case2 x => simp [collapse]
  | case3 x y rest h ih =>
    simp only [collapse, h, if_true]
    simp only [Bool.and_eq_true] at h
    rw [ih]
    simp [h.1, h.2]
  | case4 x y rest h ih =>
    simp only [collapse, h]
    simp only [Bool.false_eq_true, if_false]
    rw [List.filter_cons (x := x), List.filter_cons (x := x), ih]

/-- the first operator is kept -/
theorem collapse_head (n : Nat) (x : Str) (rest : List Str) (hn : rest.length ≤ n) :
    (collapse (x :: rest)).head? = some x := by
  induction n generalizing rest with
  | zero => cases rest with
    | nil => simp [collapse]
    | cons _ _ => simp at hn
  | succ n ih =>
    cases rest with
    | nil => simp [collapse]
    | cons y r =>
      simp only [collapse]
      split
      · exact ih r (by simp at hn; omega)
      · simp

/-- **The linkage search returns the operators on the tree path between the two alternatives**
    (searchDownward / searchUpward with all their probes, for every tree shape and depth):
    bottom-up from the source to below the lowest common ancestor, the common ancestor's own
    operator, then top-down to the target. `pre` is the path of the common ancestor, `a ≠ b`
    the two different steps below it. -/
theorem linkage_is_the_tree_path (t lca : PNode) (pre : NPath) (a b : Nat) (p q : NPath) (hab : a ≠ b)
    (hl : sub t pre = some lca) (hs : ∃ m, sub t (pre ++ a :: p) = some m) (ht : ∃ m, sub lca (b :: q) = some m)
    (hf : (b :: q).length < 2 * size t + 8) :
    find t (pre ++ a :: p) (pre ++ b :: q) =
      (true, ancOps t (pre ++ [a]) p.reverse ++ opsAlong lca (b :: q)) :=
  find_spec t lca pre a b p q hab hl hs ht hf

/-- **All linkage is mutual**: if the search from one alternative finds the other, the search
    back succeeds too and lists the same operators in reverse order. -/
theorem linkage_is_mutual (t lca ca cb : PNode) (pre : NPath) (a b : Nat) (p q : NPath) (hab : a ≠ b)
    (hl : sub t pre = some lca) (hca : child lca a = some ca) (hcb : child lca b = some cb)
    (hp : ∃ m, sub ca p = some m) (hq : ∃ m, sub cb q = some m)
    (hf1 : (b :: q).length < 2 * size t + 8) (hf2 : (a :: p).length < 2 * size t + 8) :
    (find t (pre ++ b :: q) (pre ++ a :: p)).1 = true ∧ (find t (pre ++ a :: p) (pre ++ b :: q)).1 = true ∧
    (find t (pre ++ b :: q) (pre ++ a :: p)).2 = (find t (pre ++ a :: p) (pre ++ b :: q)).2.reverse :=
  find_mutual t lca ca cb pre a b p q hab hl hca hcb hp hq hf1 hf2

/-- the rows named for an alternative in a linkage cell are exactly the rows it was built from
    (range compression is lossless) -/
theorem linkage_rows_lossless (ids : List Nat) (hs : ids.Pairwise (· < ·)) :
    Refs.decode (Refs.build ids) = ids.map (· + 1) := Refs.decode_build ids hs

/-- **A linkage cell names exactly the rows carrying the alternative**: the compressed row list
    written for an alternative of a component (`Tab.columnRefs`) denotes precisely the rows of
    the table in which that alternative was chosen (1-based), for any number of rows -/
theorem linkage_names_exactly_the_rows_of_the_alternative (rows : List (List LeafV)) (ci : Nat) (path : List Bool) :
    Refs.decode (Refs.build ((List.range rows.length).filter fun ri =>
      match rows[ri]? with
      | some row => (match row[ci]? with | some v => v.path = path | none => false)
      | none => false)) =
    ((List.range rows.length).filter fun ri =>
      match rows[ri]? with
      | some row => (match row[ci]? with | some v => v.path = path | none => false)
      | none => false).map (· + 1) :=
  Refs.decode_build _ (List.Pairwise.filter _ List.pairwise_lt_range)

/-- non-vacuity: `((a [AND] b) [OR] c)`, from `a` (path 0,0) to `c` (path 1) -/
example :
    let t : PNode := .comb (str "OR") [] [] {} [] (.comb (str "AND") [] [] {} [] (.leaf (str "a") [] [] {} []) (.leaf (str "b") [] [] {} []))
      (.leaf (str "c") [] [] {} [])
    find t [0, 0] [1] = (true, [str "AND", str "OR"]) ∧ find t [1] [0, 0] = (true, [str "OR", str "AND"]) := by
  decide

end IGVerif.C05
