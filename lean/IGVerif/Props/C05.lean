import IGVerif.Model.Link
import IGVerif.Model.Refs
/-! C05 — logical linkage cells name the right rows and the right operators. -/
namespace IGVerif.C05
open IGVerif IGVerif.Link IGVerif.Refs

/-- collapsing never invents or reorders operators: the result is a sublist of the input -/
theorem collapse_sublist (ops : List Str) : (collapse ops).Sublist ops := by
  induction ops using collapse.induct with
  | case1 => simp [collapse]
  | case2 x => simp [collapse]
  | case3 x y rest h ih =>
    simp only [collapse, h, if_true]
    exact ih.trans (List.Sublist.cons₂ x (List.sublist_cons_self y rest))
  | case4 x y rest h ih =>
    simp only [collapse, h]
    exact List.Sublist.cons₂ x ih

/-- operators outside the conjunction class are never dropped -/
theorem collapse_keeps_non_conjunctions (ops : List Str) :
    (collapse ops).filter (fun o => !collapsible o) = ops.filter (fun o => !collapsible o) := by
  induction ops using collapse.induct with
  | case1 => simp [collapse]
  | case2 x => simp [collapse]
  | case3 x y rest h ih =>
    simp only [collapse, h, if_true]
    simp only [Bool.and_eq_true] at h
    rw [ih]
    simp [h.1, h.2]
  | case4 x y rest h ih =>
    simp only [collapse, h]
    simp only [Bool.false_eq_true, if_false]
    rw [List.filter_cons (x := x), List.filter_cons (x := x), ih]

/-- the first operator is kept -/
theorem collapse_head (n : Nat) (x : Str) (rest : List Str) (hn : rest.length ≤ n) :
    (collapse (x :: rest)).head? = some x := by
  induction n generalizing rest with
  | zero => cases rest with
    | nil => simp [collapse]
    | cons _ _ => simp at hn
  | succ n ih =>
    cases rest with
    | nil => simp [collapse]
    | cons y r =>
      simp only [collapse]
      split
      · exact ih r (by simp at hn; omega)
      · simp

end IGVerif.C05
