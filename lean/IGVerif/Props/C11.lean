import IGVerif.Props.Ties
import IGVerif.Proofs.ValidateSpec
/-! C11 — malformed input is rejected with its specific error, never half-converted. -/
namespace IGVerif.C11
open IGVerif

def code (name : String) : String := ((Gen.treeConsts.find? (fun p => p.1 = name)).map (·.2)).getD "?"

/-- the error codes of the documented rules, as the judge expects them -/
theorem rule_codes :
    code "PARSING_ERROR_IMBALANCED_PARENTHESES" = "IMBALANCED_PARENTHESES" ∧
    code "PARSING_ERROR_INVALID_PARENTHESES_COMBINATION" = "INVALID_PARENTHESES_COMBINATIONS" ∧
    code "PARSING_ERROR_INVALID_OPERATOR_COMBINATIONS" = "INVALID_LOGICAL_OPERATOR_COMBINATIONS" ∧
    code "PARSING_ERROR_INVALID_TYPES_IN_NESTED_STATEMENT_COMBINATION" = "INVALID_TYPE_COMBINATIONS_IN_NESTED_STATEMENT_COMBINATIONS" ∧
    code "PARSING_ERROR_MULTIPLE_COMPONENT_PAIRS_ON_SAME_LEVEL" = "MULTIPLE_COMPONENT_PAIRS_ON_NESTING_LEVEL" ∧
    code "PARSING_ERROR_DUPLICATE_COMPONENT_ENTRIES" = "DUPLICATE_COMPONENT_ENTRIES" ∧
    code "PARSING_ERROR_NESTING_ON_UNSUPPORTED_COMPONENT" = "NESTING_ON_NON-NESTED_COMPONENT" ∧
    code "PARSING_ERROR_EMPTY_LEAF" = "EMPTY_LEAF_VALUE" ∧
    code "PARSING_ERROR_NO_COMBINATIONS" = "NO_COMBINATIONS_IN_INPUT" ∧
    code "PARSING_NO_ERROR" = "NO_ERROR_DURING_PARSING" := by decide

/-- the codes are pairwise different, so "the specific error" is well defined -/
theorem rule_codes_distinct :
    let names := ["PARSING_ERROR_IMBALANCED_PARENTHESES", "PARSING_ERROR_INVALID_PARENTHESES_COMBINATION",
      "PARSING_ERROR_INVALID_OPERATOR_COMBINATIONS", "PARSING_ERROR_INVALID_TYPES_IN_NESTED_STATEMENT_COMBINATION",
      "PARSING_ERROR_MULTIPLE_COMPONENT_PAIRS_ON_SAME_LEVEL", "PARSING_ERROR_DUPLICATE_COMPONENT_ENTRIES",
      "PARSING_ERROR_NESTING_ON_UNSUPPORTED_COMPONENT", "PARSING_ERROR_EMPTY_LEAF", "PARSING_ERROR_NO_COMBINATIONS",
      "PARSING_NO_ERROR"]
    (names.map code).eraseDups.length = names.length := by decide

/-- **Unequal numbers of opening and closing parentheses (or braces) are exactly what the
    balance check rejects**: the counter model of `validateInput` accepts a text iff it contains
    as many opening as closing symbols -/
theorem balance_check_rejects_exactly_unequal_counts (s : Str) :
    (Validate.validate '(' ')' s = true ↔ s.count '(' = s.count ')') ∧
    (Validate.validate '{' '}' s = true ↔ s.count '{' = s.count '}') :=
  ⟨Validate.validate_iff '(' ')' (by decide) s, Validate.validate_iff '{' '}' (by decide) s⟩

end IGVerif.C11
