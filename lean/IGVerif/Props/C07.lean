import IGVerif.Model.TabPrint
import IGVerif.Proofs.Rect
import IGVerif.Gen.Facts
/-! C07 — tabular output is machine-parseable for every input and option. -/
namespace IGVerif.C07
open IGVerif IGVerif.Tab IGVerif.TabPrint

theorem cleanAux_clean (sep : Char) (hs : sep ≠ ' ') (s : Str) (b : Bool) :
    sep ∉ cleanAux sep b s ∧ '\n' ∉ cleanAux sep b s ∧ '\r' ∉ cleanAux sep b s := by
  induction s generalizing b with
  | nil => simp [cleanAux]
  | cons c rest ih =>
    simp only [cleanAux]
    split
    · have := ih true
      simp only [List.mem_cons, not_or]
      exact ⟨⟨hs, this.1⟩, ⟨by decide, this.2.1⟩, ⟨by decide, this.2.2⟩⟩
    · split
      · split
        · exact ih false
        · have := ih false
          simp only [List.mem_cons, not_or]
          exact ⟨⟨hs, this.1⟩, ⟨by decide, this.2.1⟩, ⟨by decide, this.2.2⟩⟩
      · split
        · exact ih false
        · rename_i h1 h2 h3
          have := ih false
          simp only [List.mem_cons, not_or]
          exact ⟨⟨fun e => h3 e.symm, this.1⟩, ⟨fun e => h2 e.symm, this.2.1⟩, ⟨fun e => h1 e.symm, this.2.2⟩⟩

/-- `CleanInput` leaves no separator and no line break, whatever the input -/
theorem cleanInput_clean (sep : Char) (hs : sep ≠ ' ') (s : Str) :
    sep ∉ cleanInput sep s ∧ '\n' ∉ cleanInput sep s ∧ '\r' ∉ cleanInput sep s :=
  cleanAux_clean sep hs s false

/-- no double quote survives the output adjustment (both formats) -/
theorem escape_no_quote (s : Str) : '"' ∉ escape s := by
  induction s with
  | nil => simp [escape]
  | cons c cs ih =>
    simp only [escape, List.map_cons, List.mem_cons, not_or] at ih ⊢
    refine ⟨?_, ih⟩
    split
    · decide
    · rename_i h; exact fun e => h e.symm

theorem adjust_no_quote (gs : Bool) (s : Str) : '"' ∉ adjust gs s := by
  unfold adjust
  have h := escape_no_quote s
  split
  · simp only [List.mem_cons, not_or]; exact ⟨by decide, h⟩
  · exact h

/-- T: the three sanitisers are applied where the model applies them -/
theorem sanitiser_sites :
    (Gen.sanitiserCalls.filter (fun c => c.1 = "GenerateTabularOutputFromParsedStatements" || c.1 = "ConvertIGScriptToTabularOutput"
        || c.1 = "generateCSVOutput" || c.1 = "generateGoogleSheetsOutput")) =
    [("generateCSVOutput", "performOutputSpecificAdjustments", ["originalStatement", "OUTPUT_TYPE_CSV"]),
     ("generateCSVOutput", "performOutputSpecificAdjustments", ["igScriptInput", "OUTPUT_TYPE_CSV"]),
     ("generateGoogleSheetsOutput", "performOutputSpecificAdjustments", ["originalStatement", "OUTPUT_TYPE_GOOGLE_SHEETS"]),
     ("generateGoogleSheetsOutput", "performOutputSpecificAdjustments", ["igScriptInput", "OUTPUT_TYPE_GOOGLE_SHEETS"]),
     ("GenerateTabularOutputFromParsedStatements", "CleanInput", ["originalStatement", "separator"]),
     ("GenerateTabularOutputFromParsedStatements", "CleanInput", ["igScriptInput", "separator"]),
     ("GenerateTabularOutputFromParsedStatements", "EscapeSymbolsForExport", ["CleanInput(stmtId, separator)"]),
     ("GenerateTabularOutputFromParsedStatements", "CleanInput", ["stmtId", "separator"]),
     ("ConvertIGScriptToTabularOutput", "CleanInput", ["statement", "separator"])] := by decide

/-- T: every value written into a row of the matrix is a sanitised value, an id built from the
    sanitised statement id, or a constant (a new raw write breaks this obligation) -/
def cleanWrites : List String :=
  ["subStmtId", "performOutputSpecificAdjustments(annotations.(string), outputType)", "b.String()", "entryValStr",
   "existing", "componentStmtRefSeparator", "idToReferenceInCell", "actualEntry", "logicalValue", "stmtLogicalLinks"]

theorem matrix_writes_are_sanitised :
    Gen.entryMapWrites.all (fun w => cleanWrites.contains w.2.2) = true := by decide

/-- the output adjustment adds nothing but apostrophes -/
theorem adjust_keeps_clean (gs : Bool) (c : Char) (s : Str) (hc : c ∉ s) (h1 : c ≠ '\'') : c ∉ adjust gs s := by
  have he : c ∉ escape s := by
    simp only [escape, List.mem_map, not_exists, not_and]
    intro x hx
    split
    · exact fun e => h1 e.symm
    · exact fun e => hc (e ▸ hx)
  unfold adjust
  split
  · simp only [List.mem_cons, not_or]; exact ⟨h1, he⟩
  · exact he

/-- **Rectangular table**: in the output of `printTabularOutput` (both formats, every
    combination of header / Original Statement / IG Script options, any rows) each data line
    carries exactly as many cell separators as the header line, for arbitrary user text in
    the two statement columns — they pass `CleanInput` and the output adjustment — provided
    the row cells are separator-free (next theorem: they are sanitised values). -/
theorem data_lines_match_header (hdr : List (Str × Str)) (o : POpts) (sep : Char) (orig script : Str) (r : Row) (i : Nat)
    (hnames : ∀ h ∈ hdr, sep ∉ h.2) (hvals : ∀ h ∈ hdr, sep ∉ r.get h.1)
    (hko : sep ∉ kOrig) (hks : sep ∉ kScript) (hsp : sep ≠ ' ') (hap : sep ≠ '\'') :
    (headLine hdr o sep).count sep =
      (rowLine hdr o sep (adjust o.gs (cleanInput sep orig)) (adjust o.gs (cleanInput sep script)) r i).count sep :=
  line_count hdr o sep _ _ r i hnames hvals
    (adjust_keeps_clean _ _ _ (cleanInput_clean sep hsp orig).1 hap)
    (adjust_keeps_clean _ _ _ (cleanInput_clean sep hsp script).1 hap) hko hks hsp

/-- no line break and no double quote inside a data line (so a Google Sheets line is one
    complete `=SPLIT("…"; "|")` formula and a CSV line is one record) -/
theorem data_lines_have_no_break_or_quote (hdr : List (Str × Str)) (o : POpts) (sep : Char) (orig script : Str) (r : Row) (i : Nat)
    (hv1 : ∀ h ∈ hdr, '\n' ∉ r.get h.1) (hv2 : ∀ h ∈ hdr, '"' ∉ r.get h.1)
    (hs1 : sep ≠ '\n') (hs2 : sep ≠ '"') (hsp : sep ≠ ' ') :
    '\n' ∉ rowLine hdr o sep (adjust o.gs (cleanInput sep orig)) (adjust o.gs (cleanInput sep script)) r i ∧
    '"' ∉ rowLine hdr o sep (adjust o.gs (cleanInput sep orig)) (adjust o.gs (cleanInput sep script)) r i := by
  constructor
  · exact rowLine_free '\n' hdr o sep _ _ r i hv1
      (adjust_keeps_clean _ _ _ (cleanInput_clean sep hsp orig).2.1 (by decide))
      (adjust_keeps_clean _ _ _ (cleanInput_clean sep hsp script).2.1 (by decide)) (fun e => hs1 e.symm) (by decide)
  · exact rowLine_free '"' hdr o sep _ _ r i hv2 (adjust_no_quote _ _) (adjust_no_quote _ _) (fun e => hs2 e.symm) (by decide)

/-- the printed table is exactly: optional header line, then one framed line per row -/
theorem output_is_header_then_rows (hdr : List (Str × Str)) (rows : List Row) (orig script : Str) (o : POpts) (sep : Char)
    (pre suf : Str) :
    printRows hdr rows orig script o sep pre suf =
      (if o.headers then pre ++ headLine hdr o sep ++ suf else []) ++
      (rows.zipIdx.flatMap fun (r, i) => pre ++ ['\''] ++ rowLine hdr o sep orig script r i ++ suf) :=
  printRows_lines hdr rows orig script o sep pre suf

example : '|' ∉ kOrig ∧ '|' ∉ kScript ∧ '|' ≠ ' ' ∧ '|' ≠ '\'' ∧ '|' ≠ '\n' ∧ '|' ≠ '"' := by decide

end IGVerif.C07
