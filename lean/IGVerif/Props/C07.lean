import IGVerif.Model.TabPrint
import IGVerif.Gen.Facts
/-! C07 — tabular output is machine-parseable for every input and option. -/
namespace IGVerif.C07
open IGVerif IGVerif.Tab IGVerif.TabPrint

theorem cleanAux_clean (sep : Char) (hs : sep ≠ ' ') (s : Str) (b : Bool) :
    sep ∉ cleanAux sep b s ∧ '\n' ∉ cleanAux sep b s ∧ '\r' ∉ cleanAux sep b s := by
  induction s generalizing b with
  | nil => simp [cleanAux]
  | cons c rest ih =>
    simp only [cleanAux]
    split
    · have := ih true
      simp only [List.mem_cons, not_or]
      exact ⟨⟨hs, this.1⟩, ⟨by decide, this.2.1⟩, ⟨by decide, this.2.2⟩⟩
    · split
      · split
        · exact ih false
        · have := ih false
          simp only [List.mem_cons, not_or]
          exact ⟨⟨hs, this.1⟩, ⟨by decide, this.2.1⟩, ⟨by decide, this.2.2⟩⟩
      · split
        · exact ih false
        · rename_i h1 h2 h3
          have := ih false
          simp only [List.mem_cons, not_or]
          exact ⟨⟨fun e => h3 e.symm, this.1⟩, ⟨fun e => h2 e.symm, this.2.1⟩, ⟨fun e => h1 e.symm, this.2.2⟩⟩

/-- `CleanInput` leaves no separator and no line break, whatever the input -/
theorem cleanInput_clean (sep : Char) (hs : sep ≠ ' ') (s : Str) :
    sep ∉ cleanInput sep s ∧ '\n' ∉ cleanInput sep s ∧ '\r' ∉ cleanInput sep s :=
  cleanAux_clean sep hs s false

/-- no double quote survives the output adjustment (both formats) -/
theorem escape_no_quote (s : Str) : '"' ∉ escape s := by
  induction s with
  | nil => simp [escape]
  | cons c cs ih =>
    simp only [escape, List.map_cons, List.mem_cons, not_or] at ih ⊢
    refine ⟨?_, ih⟩
    split
    · decide
    · rename_i h; exact fun e => h e.symm

theorem adjust_no_quote (gs : Bool) (s : Str) : '"' ∉ adjust gs s := by
  unfold adjust
  have h := escape_no_quote s
  split
  · simp only [List.mem_cons, not_or]; exact ⟨by decide, h⟩
  · exact h

/-- T: the three sanitisers are applied where the model applies them -/
theorem sanitiser_sites :
    (Gen.sanitiserCalls.filter (fun c => c.1 = "GenerateTabularOutputFromParsedStatements" || c.1 = "ConvertIGScriptToTabularOutput"
        || c.1 = "generateCSVOutput" || c.1 = "generateGoogleSheetsOutput")) =
    [("generateCSVOutput", "performOutputSpecificAdjustments", ["originalStatement", "OUTPUT_TYPE_CSV"]),
     ("generateCSVOutput", "performOutputSpecificAdjustments", ["igScriptInput", "OUTPUT_TYPE_CSV"]),
     ("generateGoogleSheetsOutput", "performOutputSpecificAdjustments", ["originalStatement", "OUTPUT_TYPE_GOOGLE_SHEETS"]),
     ("generateGoogleSheetsOutput", "performOutputSpecificAdjustments", ["igScriptInput", "OUTPUT_TYPE_GOOGLE_SHEETS"]),
     ("GenerateTabularOutputFromParsedStatements", "CleanInput", ["originalStatement", "separator"]),
     ("GenerateTabularOutputFromParsedStatements", "CleanInput", ["igScriptInput", "separator"]),
     ("GenerateTabularOutputFromParsedStatements", "EscapeSymbolsForExport", ["CleanInput(stmtId, separator)"]),
     ("GenerateTabularOutputFromParsedStatements", "CleanInput", ["stmtId", "separator"]),
     ("ConvertIGScriptToTabularOutput", "CleanInput", ["statement", "separator"])] := by decide

/-- T: every value written into a row of the matrix is a sanitised value, an id built from the
    sanitised statement id, or a constant (a new raw write breaks this obligation) -/
def cleanWrites : List String :=
  ["subStmtId", "performOutputSpecificAdjustments(annotations.(string), outputType)", "b.String()", "entryValStr",
   "existing", "componentStmtRefSeparator", "idToReferenceInCell", "actualEntry", "logicalValue", "stmtLogicalLinks"]

theorem matrix_writes_are_sanitised :
    Gen.entryMapWrites.all (fun w => cleanWrites.contains w.2.2) = true := by decide

end IGVerif.C07
