import IGVerif.Props.Ties
import IGVerif.Proofs.Merge
/-! C03 — component pair combinations expand into complete, correctly linked statements. -/
namespace IGVerif.C03
open IGVerif

/-- one complete statement per group: the group's own components merged with everything
    written outside the braces — and nothing from other groups (the statement of a group is a
    function of that group and the outside only) -/
theorem group_statement (outside : PStmt) (g : Stmt) :
    denoteG outside (.grp g) = .pairs {} [.stmt {} (mergeStmt (denoteS g) outside)] := by
  cases g with
  | mk ps => simp [denoteG, groupsG, denoteS]

/-- the expanded statements are linked by exactly the written operator tree -/
theorem linked_by_written_tree (outside : PStmt) (o : Op3) (l r : GTree) :
    denoteG outside (.op o l r) = .comb o.str [] [] {} [] (denoteG outside l) (denoteG outside r) := by
  simp [denoteG, groupsG]

/-- without a pair expression nothing is expanded -/
theorem no_pairs_single_statement (s : Stmt) (h : firstPairs s.parts = none) :
    denoteTop s = .stmt {} (denoteS s) := by
  simp [denoteTop, h]

/-- the same expansion inside a nested statement: the nested component's value is the tree of
    the expanded statements (each complete: group merged with everything written outside the
    braces of that nested statement), its root carrying the component's header -/
theorem expansion_inside_nested_statement (h : Hdr) (ips : List Part) (pn : PNode)
    (hp : pairsIn (denoteS (.mk ips)) ips = some pn) :
    nestedNode h (.mk ips) = pn.withMeta (hdrMeta h) := by
  simp only [denoteS] at hp
  simp [nestedNode, hp]

/-- a nested statement without a pair combination is a plain statement -/
theorem nested_without_pairs (h : Hdr) (ips : List Part) (hp : pairsIn (denoteS (.mk ips)) ips = none) :
    nestedNode h (.mk ips) = .stmt (hdrMeta h {}) (denoteS (.mk ips)) := by
  simp only [denoteS] at hp
  simp [nestedNode, hp, denoteS]

theorem pairsIn_first (outside : PStmt) (t : GTree) (ps : List Part) :
    pairsIn outside (.pairs t :: ps) = some (denoteG outside t) := by
  simp [pairsIn, denoteG]

/-- **Each expanded statement contains that group's components plus every component written
    outside the braces, and nothing else**: field by field the merged statement holds the
    group's value, the outside value, or both joined by the implicit conjunction (group
    first); a field present in neither is absent. The other groups do not occur in the
    statement at all (`group_statement`: it is a function of this group and the outside). -/
theorem expanded_statement_fields (g outside : PStmt) (hd : outside.Pairwise (fun a b => a.1 ≠ b.1)) (i : Nat) (hi : i < 27) :
    fieldAt (mergeStmt g outside) i =
      match fieldAt outside i with
      | some o => some (match fieldAt g i with | some q => combineN opBAND q o | none => o)
      | none => fieldAt g i :=
  fieldAt_mergeStmt g outside hd i hi

end IGVerif.C03
