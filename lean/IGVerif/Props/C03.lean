import IGVerif.Props.Ties
/-! C03 — component pair combinations expand into complete, correctly linked statements. -/
namespace IGVerif.C03
open IGVerif

/-- one complete statement per group: the group's own components merged with everything
    written outside the braces — and nothing from other groups (the statement of a group is a
    function of that group and the outside only) -/
theorem group_statement (outside : PStmt) (g : Stmt) :
    denoteG outside (.grp g) = .pairs {} [.stmt {} (mergeStmt (denoteS g) outside)] := by
  simp [denoteG]

/-- the expanded statements are linked by exactly the written operator tree -/
theorem linked_by_written_tree (outside : PStmt) (o : Op3) (l r : GTree) :
    denoteG outside (.op o l r) = .comb o.str [] [] {} [] (denoteG outside l) (denoteG outside r) := by
  simp [denoteG]

/-- without a pair expression nothing is expanded -/
theorem no_pairs_single_statement (s : Stmt) (h : firstPairs s.parts = none) :
    denoteTop s = .stmt {} (denoteS s) := by
  simp [denoteTop, h]

end IGVerif.C03
