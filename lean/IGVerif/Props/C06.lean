import IGVerif.Model.Tab
import IGVerif.Proofs.JsonValid
import IGVerif.Proofs.RefsDecode
import IGVerif.Proofs.TabIds
/-! C06 — statement IDs are unique and every reference resolves. -/
namespace IGVerif.C06
open IGVerif IGVerif.Tab

/-- decimal rendering is injective -/
theorem natStr_injective (a b : Nat) (h : natStr a = natStr b) : a = b := by
  have ha := Nat.ofDigitChars_ten_toDigits (n := a)
  have hb := Nat.ofDigitChars_ten_toDigits (n := b)
  rw [← Json.natStr_eq a, h, Json.natStr_eq b] at ha
  omega

/-- atomic statements of one statement: `id.1 … id.n` are pairwise different -/
theorem row_ids_distinct (id : Str) (i j : Nat) (h : id ++ '.' :: natStr i = id ++ '.' :: natStr j) : i = j := by
  have := List.append_cancel_left h
  simp only [List.cons.injEq, true_and] at this
  exact natStr_injective i j this

/-- nested statements of one statement: `{id}.1 … {id}.k` are pairwise different -/
theorem nested_ids_distinct (id : Str) (i j : Nat) (h : nestedId id i = nestedId id j) : i = j := by
  simp only [nestedId, List.cons.injEq, true_and] at h
  have := List.append_cancel_left h
  simp only [List.cons.injEq, true_and] at this
  exact natStr_injective i j this

/-- an atomic-row id never equals a nested-group id of the same statement: one starts with
    the user's id, the other with a brace — provided the user's id does not start with `{`
    (ids are letters, digits and dots) -/
theorem row_id_ne_nested_id (id : Str) (i k : Nat) (h : id.head? ≠ some '{') :
    id ++ '.' :: natStr i ≠ nestedId id k := by
  intro e
  cases id with
  | nil => simp [nestedId] at e
  | cons c cs =>
    simp only [nestedId, List.cons_append, List.cons.injEq] at e
    exact h (by simp [e.1])

/-- the registry hands out each id once: a new entry gets the next number, a known node keeps
    its id -/
theorem register_known (reg : List Nested) (stmtId : Str) (key : List Nat) (n : PNode) (f : Nat) (p : Link.NPath)
    (e : Nested) (h : reg.find? (fun x => x.key = key) = some e) :
    register reg stmtId key n f p = (reg, e.id) := by
  simp [register, h]

theorem register_new (reg : List Nested) (stmtId : Str) (key : List Nat) (n : PNode) (f : Nat) (p : Link.NPath)
    (h : reg.find? (fun x => x.key = key) = none) :
    (register reg stmtId key n f p).2 = nestedId stmtId (reg.length + 1) ∧
    (register reg stmtId key n f p).1.length = reg.length + 1 := by
  simp [register, h]

end IGVerif.C06

namespace IGVerif.C06
open IGVerif
/-- compressed ranges (`3-5`) in reference and linkage cells denote exactly the rows they were
    built from: nothing is lost, added or shifted by the range compressor -/
theorem compressed_references_denote_their_rows (ids : List Nat) (hs : ids.Pairwise (· < ·)) :
    Refs.decode (Refs.build ids) = ids.map (· + 1) := Refs.decode_build ids hs
end IGVerif.C06

namespace IGVerif.C06
open IGVerif IGVerif.Tab

/-- **The Statement ID column of a statement's atomic statements is `id.1 … id.n`** (plain `id`
    when there is a single one), in every mode and for every option; no component, property,
    annotation or reference cell overwrites it. Hypothesis: no component is called
    "Statement ID" (component names are the symbols of the notation). -/
theorem own_row_ids (o : Opts) (fs : PStmt) (stmtId : Str) (stmtAnn : Option Str) (stmtLinks : Str)
    (hv : ∀ ri ci, OKv (((permsOf (columnsOf fs)).getD ri []).getD ci default)) :
    (ownRows o fs stmtId stmtAnn stmtLinks).1.map (fun r => r.get kID) =
      (List.range (permsOf (columnsOf fs)).length).map (subId stmtId ((permsOf (columnsOf fs)).length > 1)) :=
  ownRows_ids o fs stmtId stmtAnn stmtLinks hv

/-- … and these ids are pairwise different -/
theorem own_row_ids_distinct (stmtId : Str) (n i j : Nat) (hi : i < n) (hj : j < n)
    (h : subId stmtId (n > 1) i = subId stmtId (n > 1) j) : i = j := by
  unfold subId at h
  by_cases hn : n > 1
  · simp only [hn, decide_true, if_true] at h
    have := row_ids_distinct stmtId (i + 1) (j + 1) h
    omega
  · omega

end IGVerif.C06
