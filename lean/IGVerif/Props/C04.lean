import IGVerif.Proofs.OdoD
import IGVerif.Model.Tab
import IGVerif.Proofs.TabRows
import IGVerif.Gen.Facts
/-! C04 — the tabular export lists every atomic statement exactly once.

`Odo.generate` is the code-shaped model of `tree.GenerateNodeArrayPermutations` (position
vector, right-to-left carry loop with the literal special case for the first two arrays, a
result buffer of `count` rows); `Tab.stmtRows` feeds it the leaf arrays of the statement in
schema order. -/
namespace IGVerif.C04
open IGVerif IGVerif.Odo

/-- **One row per choice**: for every number of component arrays of every length, the rows are
    exactly the Cartesian product of the non-empty arrays — no combination twice, none
    missing — in lexicographic order with the first component slowest. -/
theorem odo_eq_product {α : Type} (arrays : List (List α)) (hne : arrays ≠ []) :
    generate arrays = some (product (arrays.filter (fun a => a ≠ []))) :=
  generate_eq_product arrays hne

/-- number of rows = product of the numbers of alternatives -/
theorem rows_card {α : Type} (arrays : List (List α)) (hne : arrays ≠ []) (rows : List (List α))
    (h : generate arrays = some rows) : rows.length = count arrays := by
  rw [generate_eq arrays hne] at h
  cases h
  rw [List.length_map, length_allR, count_eq_total]

/-- the loop stops by itself: more fuel than `count + 1` iterations changes nothing, i.e. the
    `break` is reached before the preallocated slice of `count` rows could be overrun -/
theorem loop_terminates_within_count {α : Type} (arrays : List (List α)) (hne : arrays ≠ []) (extra : Nat) :
    loop arrays (count arrays + 1 + extra) (arrays.map (fun _ => 0)) =
    loop arrays (count arrays + 1) (arrays.map (fun _ => 0)) := by
  rw [zeros_eq]
  have e1 : count arrays + 1 + extra = (count arrays + extra) + 1 := by omega
  rw [e1, loop_zeros arrays hne, loop_zeros arrays hne,
      emit_all _ _ (by rw [count_eq_total]; omega), emit_all _ _ (by rw [count_eq_total]; omega)]

/-- a component with a single value is repeated unchanged in every row -/
theorem singleton_in_every_row {α : Type} (pre post : List (List α)) (x : α) (rows : List (List α))
    (hpre : ∀ a ∈ pre, a ≠ []) (hpost : ∀ a ∈ post, a ≠ [])
    (h : generate (pre ++ [x] :: post) = some rows) : ∀ r ∈ rows, r[pre.length]? = some x := by
  rw [generate_eq_product _ (by simp)] at h
  cases h
  have hf : (pre ++ [x] :: post).filter (fun a => a ≠ []) = pre ++ [x] :: post := by
    apply List.filter_eq_self.mpr
    intro a ha
    simp only [List.mem_append, List.mem_cons] at ha
    rcases ha with ha | ha | ha
    · simpa using hpre a ha
    · subst ha; simp
    · simpa using hpost a ha
  rw [hf]
  clear hf hpre
  induction pre with
  | nil =>
    intro r hr
    simp only [List.nil_append, product, List.flatMap_cons, List.flatMap_nil, List.append_nil, List.mem_map] at hr
    obtain ⟨t, _, rfl⟩ := hr
    simp
  | cons a pre ih =>
    intro r hr
    simp only [List.cons_append, product, List.mem_flatMap, List.mem_map] at hr
    obtain ⟨y, _, t, ht, rfl⟩ := hr
    simpa using ih t ht

/-- the empty argument list is the only rejected input (PARSING_ERROR_EMPTY_LEAF) -/
theorem rejects_only_no_arrays {α : Type} (arrays : List (List α)) : generate arrays = none ↔ arrays = [] := by
  constructor
  · intro h
    cases arrays with
    | nil => rfl
    | cons a as => rw [generate_eq_product _ (by simp)] at h; cases h
  · intro h; subst h; rfl

/-- non-vacuity / sanity: unequal lengths, a singleton and an empty array -/
example : generate [[1, 2], [], [3], [4, 5, 6]] =
    some [[1, 3, 4], [1, 3, 5], [1, 3, 6], [2, 3, 4], [2, 3, 5], [2, 3, 6]] := by decide

/-- T: the schema order of `generateLeafArrays` used by the model is the statement's field
    order with the context components moved before the constitutive ones -/
theorem leaf_order_is_permutation : Tab.leafOrder.length = 27 ∧ (List.range 27).all (Tab.leafOrder.contains ·) = true := by
  decide

/-- **The table has one row per choice**: the atomic statements of a statement (its own rows in
    `Tab.stmtRows`, in every mode and for every option) are exactly as many as there are ways
    of choosing one alternative from each of its component columns -/
theorem table_rows_card (o : Tab.Opts) (fs : PStmt) (stmtId : Str) (stmtAnn : Option Str) (stmtLinks : Str)
    (hne : Tab.columnsOf fs ≠ []) :
    (Tab.ownRows o fs stmtId stmtAnn stmtLinks).1.length = count ((Tab.columnsOf fs).map (·.alts)) :=
  Tab.ownRows_card o fs stmtId stmtAnn stmtLinks hne

/-- the rows are produced from the odometer's permutations, one each, in the odometer's order -/
theorem table_rows_follow_odometer (o : Tab.Opts) (fs : PStmt) (stmtId : Str) (stmtAnn : Option Str) (stmtLinks : Str) :
    (Tab.ownRows o fs stmtId stmtAnn stmtLinks).1.length = (Tab.permsOf (Tab.columnsOf fs)).length :=
  Tab.ownRows_length o fs stmtId stmtAnn stmtLinks

end IGVerif.C04
