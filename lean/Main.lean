import Driver.C01
import Driver.TabD
import Driver.TabOracle
import Driver.C07
import Driver.VisD
import Driver.WebD
import Driver.C10
import Driver.C11
import Driver.C18
import Driver.C16
import Driver.C16X
import Driver.Groups
import Driver.C11V
import Driver.Combo
import Driver.Header
import IGVerif.Gen.Facts
open Drv Lean

def genFor (prop tier : String) (seed : Nat) : Except String (Array Case) :=
  match prop with
  | "C01" => pure (genC01Cases tier seed ++ pairwiseSimpleCases "c01" ++ exhaustiveTreeCases "c01" ++ sharedGroupWitnessCases "c01" ++ genComboCases tier seed)
  | "COMBO" => pure (genComboCases tier seed)
  | "C02" => pure (genC02Cases tier seed ++ pairwiseNestedCases "c02" ++ nestedOpPerTypeCases "c02" ++ genComboBraceCases tier seed
                    -- nested statements and combinations on every nesting-capable symbol, as the visual export shows them
                    ++ perSymbolVisCases "c02" ++ genHeaderCases tier seed)
  | "C03" =>
    let base := genC03Cases tier seed
    -- every fifth statement is also exported as a table (model on the implementation's parse,
    -- linkage/reference oracles, exported file = returned tables)
    let extra := (base.toList.zipIdx.filter (fun p => p.2 % 5 = 0)).map fun (c, i) =>
      ({ id := c.id ++ "-tab", op := "tab", args := c03TabArgs ((c.args.getObjValAs? String "text").toOption.getD "") i,
         tag := "expanded-table", note := c.note } : Case)
    pure (base ++ extra.toArray)
  | "C04" => pure (genTabFamily "c04" tier seed false)
  | "C05" => pure (genTabFamily "c05" tier seed false)
  | "C06" => pure (genTabFamily "c06" tier seed false)
  | "C19" => pure (genTabFamily "c19" tier seed true)
  | "C07" => pure (genC07Cases tier seed)
  | "C08" => pure (genVisCases tier seed "c08" ++ genVisHostile tier seed "c08")
  | "C09" => pure (genVisCases tier seed "c09" ++ perSymbolVisCases "c09" ++ perPairPrivateVisCases "c09")
  | "C16" => pure (genC16AllCases tier seed)
  | "C17" => pure (genC17Cases tier seed)
  | "C18" => pure (genC18Cases tier seed ++ pairwiseNestedCases "c18")
  | "C20" => pure (genC20Cases tier seed)
  | "C10" => pure (genC10Cases tier seed)
  | "C11" => pure (genC11Cases tier seed ++ genValidateCases tier seed)
  | "C12" => pure (genC12Cases tier seed)
  | "C13" => pure (genC13Cases tier seed)
  | "C14" => pure (genC14Cases (!IGVerif.Gen.converterLockCalls.isEmpty) tier seed)
  | "C15" => pure (genC15Cases tier seed)
  | _ => throw s!"no generator for {prop}"

def judgeFor (prop : String) : Except String (Case → ObsLine → Verdict) :=
  match prop with
  | "C01" => pure (fun c o => if c.op = "combo" then judgeCombo c o
                            else if c.tag = "shared-groups" then judgeSharedGroups c o else judgeParse c o)
  | "COMBO" => pure judgeCombo
  | "C02" => pure (fun c o => if c.op = "combo" then judgeCombo c o
                            else if c.op = "ctype" then judgeHeader c o
                            else if c.op = "vis" then judgeVis true c o
                            else if c.tag = "operator-per-type" then judgeNestedOps c o else judgeParse c o)
  | "C03" => pure (fun c o => if c.op = "tab" then judgeTabWith ["C05", "C06"] c o else judgeParse c o)
  | "C04" => pure (judgeTabWith ["C04"])
  | "C05" => pure (judgeTabWith ["C05"])
  | "C06" => pure (judgeTabWith ["C06"])
  | "C19" => pure (judgeTabWith [])
  | "C07" => pure judgeC07
  | "C08" => pure judgeVisAny
  | "C09" => pure (fun c o => judgeVis true c o (valuesOracle := true))
  | "C16" => pure judgeC16
  | "C17" => pure (judgeVis true)
  | "C18" => pure judgeParse
  | "C20" => pure (judgeVis true)
  | "C10" => pure judgeC10
  | "C11" => pure (fun c o => if c.op = "validate" then judgeValidate c o else judgeC11 c o)
  | "C12" => pure judgeC12
  | "C13" => pure judgeC13
  | "C14" => pure judgeC14
  | "C15" => pure judgeC15
  | _ => throw s!"no judge for {prop}"

def main (args : List String) : IO UInt32 := do
  match args with
  | ["gen", prop, tier, seed, out] =>
    match genFor prop tier seed.toNat! with
    | .ok cs => writeCases out cs; IO.println s!"generated {cs.size} cases"; return 0
    | .error e => IO.eprintln e; return 2
  | ["judge", prop, casesPath, obsPath, reportPath] =>
    match judgeFor prop with
    | .ok f =>
      let cs ← readCases casesPath
      let os ← readObs obsPath
      let r := judgeAll cs os f
      let r := match groupJudgeFor prop with
        | some g => { r with violations := r.violations ++ g cs os }
        | none => r
      IO.FS.writeFile reportPath r.toJson.compress
      IO.println s!"evaluations={r.evaluations} disagreements={r.disagreements.size} violations={r.violations.size} crashes={r.crashes.size}"
      return 0
    | .error e => IO.eprintln e; return 2
  | _ => IO.eprintln "usage: drv gen <prop> <tier> <seed> <out> | drv judge <prop> <cases> <obs> <report>"; return 2
