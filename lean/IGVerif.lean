import IGVerif.Basic
import IGVerif.Model.PTree
import IGVerif.Spec.Grammar
