import Driver.Json
import Driver.Rng
import Driver.GenStmt
/-! Case / verdict plumbing shared by all properties. -/
namespace Drv
open Lean IGVerif

structure Case where
  id : String
  op : String
  args : Json
  exp : Json := Json.null       -- model's expected observation (op-specific)
  tag : String := ""            -- class label for the input distribution
  nontrivial : Bool := true
  note : Json := Json.null      -- anything the judge needs (e.g. the AST summary)
  deriving Inhabited

def Case.toJson (c : Case) : Json :=
  Json.mkObj [("id", (c.id : Json)), ("op", (c.op : Json)), ("a", c.args), ("exp", c.exp), ("tag", c.tag),
              ("nt", c.nontrivial), ("note", c.note)]

def Case.ofJson (j : Json) : Except String Case := do
  pure { id := ← j.getObjValAs? String "id", op := ← j.getObjValAs? String "op",
         args := (j.getObjVal? "a").toOption.getD Json.null,
         exp := (j.getObjVal? "exp").toOption.getD Json.null,
         tag := (j.getObjValAs? String "tag").toOption.getD "",
         nontrivial := (j.getObjValAs? Bool "nt").toOption.getD true,
         note := (j.getObjVal? "note").toOption.getD Json.null }

structure ObsLine where
  id : String
  st : String
  code : String
  obs : Json
  ms : Nat

def ObsLine.ofJson (j : Json) : Except String ObsLine := do
  pure { id := ← j.getObjValAs? String "id", st := ← j.getObjValAs? String "st",
         code := (j.getObjValAs? String "code").toOption.getD "",
         obs := (j.getObjVal? "obs").toOption.getD Json.null,
         ms := (j.getObjValAs? Nat "ms").toOption.getD 0 }

/-- verdict on one case -/
inductive Verdict
  | ok
  | disagree (what : String) (expected observed : String)   -- model ≠ implementation
  | violation (what : String) (detail : String)              -- property predicate false on the implementation
  | crash (what : String)

def readLines (path : String) : IO (Array String) := do
  let s ← IO.FS.readFile path
  pure ((s.splitOn "\n").filter (· ≠ "")).toArray

def readCases (path : String) : IO (Array Case) := do
  let ls ← readLines path
  ls.mapM fun l => do
    match Json.parse l >>= Case.ofJson with
    | .ok c => pure c
    | .error e => throw (IO.userError s!"bad case line: {e}")

def readObs (path : String) : IO (Array ObsLine) := do
  let ls ← readLines path
  ls.mapM fun l => do
    match Json.parse l >>= ObsLine.ofJson with
    | .ok c => pure c
    | .error e => throw (IO.userError s!"bad obs line: {e}: {l.take 200}")

def writeCases (path : String) (cs : Array Case) : IO Unit := do
  let h ← IO.FS.Handle.mk path .write
  for c in cs do
    h.putStrLn c.toJson.compress
  h.flush

/-- report produced by `judge` -/
structure Report where
  evaluations : Nat := 0
  nontrivial : Nat := 0
  tags : List (String × Nat) := []
  disagreements : Array Json := #[]
  violations : Array Json := #[]
  crashes : Array Json := #[]
  samples : Array Json := #[]
  extra : List (String × Json) := []

def bumpTag (tags : List (String × Nat)) (t : String) : List (String × Nat) :=
  match tags with
  | [] => [(t, 1)]
  | (k, n) :: rest => if k = t then (k, n + 1) :: rest else (k, n) :: bumpTag rest t

def Report.toJson (r : Report) : Json :=
  Json.mkObj ([("evaluations", (r.evaluations : Json)), ("distinct_nontrivial", (r.nontrivial : Json)),
    ("tags", Json.mkObj (r.tags.map fun (k, n) => (k, (n : Json)))),
    ("disagreements", Json.arr r.disagreements), ("violations", Json.arr r.violations),
    ("crashes", Json.arr r.crashes), ("samples", Json.arr r.samples)] ++ r.extra)

/-- known-finding class of a failure: the class noted on the case, unless the judge marks the
    failure as not of that kind (`[new] …`) or names another class itself (`[kf:CLASS] …`) -/
def classOf (w : String) (c : Case) : String × Json :=
  if w.startsWith "[new] " then (w, ("" : Json))
  else if w.startsWith "[kf:" then
    match (w.drop 4).toString.splitOn "] " with
    | cls :: rest => ("] ".intercalate rest, (cls : Json))
    | _ => (w, ("" : Json))
  else (w, (c.note.getObjVal? "kf").toOption.getD ("" : Json))

/-- generic judging loop: `f` decides one (case, observation) pair -/
def judgeAll (cases : Array Case) (obs : Array ObsLine) (f : Case → ObsLine → Verdict) : Report := Id.run do
  let mut r : Report := {}
  let mut seen : Std.HashSet String := {}
  for i in [0:cases.size] do
    let c := cases[i]!
    r := { r with evaluations := r.evaluations + 1, tags := bumpTag r.tags c.tag }
    let key := c.op ++ c.args.compress
    if c.nontrivial && !seen.contains key then
      seen := seen.insert key
      r := { r with nontrivial := r.nontrivial + 1 }
    if r.samples.size < 5 then
      let j := Json.mkObj [("op", (c.op : Json)), ("a", c.args)]
      r := { r with samples := r.samples.push j }
    match obs[i]? with
    | none =>
      let j := Json.mkObj [("id", (c.id : Json)), ("what", ("missing observation" : Json))]
      r := { r with crashes := r.crashes.push j }
    | some o =>
      if o.id ≠ c.id then
        let j := Json.mkObj [("id", (c.id : Json)), ("what", ("id mismatch" : Json))]
        r := { r with crashes := r.crashes.push j }
      else
      match f c o with
      | .ok => pure ()
      | .disagree w e g =>
        -- a judge marks a failure that is not of the listed known kind with the prefix "[new] "
        let (w, kfj) := classOf w c
        let j := Json.mkObj [("id", (c.id : Json)), ("what", (w : Json)), ("op", (c.op : Json)), ("a", c.args), ("expected", (e : Json)), ("observed", (g : Json)), ("tag", (c.tag : Json)), ("note", c.note), ("kf", kfj)]
        r := { r with disagreements := r.disagreements.push j }
      | .violation w d =>
        let (w, kfj) := classOf w c
        let j := Json.mkObj [("id", (c.id : Json)), ("what", (w : Json)), ("op", (c.op : Json)), ("a", c.args), ("detail", (d : Json)), ("tag", (c.tag : Json)), ("kf", kfj)]
        r := { r with violations := r.violations.push j }
      | .crash w =>
        let j := Json.mkObj [("id", (c.id : Json)), ("what", (w : Json)), ("op", (c.op : Json)), ("a", c.args), ("st", (o.st : Json)), ("code", (o.code : Json)), ("kf", (c.note.getObjVal? "kf").toOption.getD ("" : Json))]
        r := { r with crashes := r.crashes.push j }
  pure r

end Drv
