import Driver.Core
import Driver.Rng
import IGVerif.Model.Combo
import Driver.GenStmt
/-! Correspondence of the combination-parser model (`Model/Combo.lean`) with
    `parser.ParseIntoNodeTree`: token strings, rendered operator expressions (binary, chains,
    shared text, several combinations side by side), mutations of those, both bracket kinds. -/
namespace Drv
open Lean IGVerif

def comboTokens : Array String := #["(", ")", "(", ")", " ", " ", "a", "b", "cd e", "[AND]", "[OR]", "[XOR]",
  "[AND]", "[OR]", "[wAND]", "[bAND]", "{", "}", "[", "]", "AND]", "[and]", "x y", " (", ") "]

def comboOps : Array String := #["[AND]", "[OR]", "[XOR]", "[AND]", "[OR]", "[bAND]", "[wAND]"]

def comboWords : Array String := #["a", "b", "left", "right side", "x1", "some text", "q", "z z z"]

def docOps : Array String := #["[AND]", "[OR]", "[XOR]"]

/-- a rendered expression of the documented notation only: the three operators, explicit
    parentheses, same-operator chains, shared text around an inner combination -/
partial def genDocExpr (lp rp : String) (depth : Nat) (top : Bool) : G String := do
  let k ← below 10
  if !top && (depth = 0 || k < 3) then pickA comboWords
  else if k < 6 || depth = 0 then do
    let l ← genDocExpr lp rp (depth - 1) false
    let r ← genDocExpr lp rp (depth - 1) false
    let o ← pickA docOps
    pure s!"{lp}{l} {o} {r}{rp}"
  else if k < 8 then do
    let n ← range 3 5
    let o ← pickA docOps
    let mut s := ← genDocExpr lp rp (depth - 1) false
    for _ in [1:n] do
      let e ← genDocExpr lp rp (depth - 1) false
      s := s!"{s} {o} {e}"
    pure s!"{lp}{s}{rp}"
  else do
    let l ← genDocExpr lp rp (depth - 1) false
    let r ← genDocExpr lp rp (depth - 1) false
    let o ← pickA docOps
    let a ← pickA comboWords
    let b ← pickA comboWords
    let m ← below 3
    let e := s!"{lp}{l} {o} {r}{rp}"
    pure (if m = 0 then s!"{lp}{a} {e} {b}{rp}" else if m = 1 then s!"{lp}{a} {e}{rp}" else s!"{lp}{e} {b}{rp}")

/-- a rendered expression with `lp`/`rp` as brackets -/
partial def genComboExpr (lp rp : String) (depth : Nat) : G String := do
  let k ← below 12
  if depth = 0 || k < 3 then pickA comboWords
  else if k < 7 then do
    let l ← genComboExpr lp rp (depth - 1)
    let r ← genComboExpr lp rp (depth - 1)
    let o ← pickA comboOps
    pure s!"{lp}{l} {o} {r}{rp}"
  else if k < 9 then do
    -- chain with one operator (sometimes mixed)
    let n ← range 3 4
    let o ← pickA comboOps
    let mixed ← chance 1 6
    let mut s := ← genComboExpr lp rp (depth - 1)
    for _ in [1:n] do
      let e ← genComboExpr lp rp (depth - 1)
      let o' ← if mixed then pickA comboOps else pure o
      s := s!"{s} {o'} {e}"
    pure s!"{lp}{s}{rp}"
  else if k < 10 then do
    -- shared text around an inner combination
    let e ← genComboExpr lp rp (depth - 1)
    let a ← pickA comboWords
    let b ← pickA comboWords
    let m ← below 3
    pure (if m = 0 then s!"{lp}{a} {e} {b}{rp}" else if m = 1 then s!"{lp}{a} {e}{rp}" else s!"{lp}{e} {b}{rp}")
  else if k < 11 then do
    -- several combinations side by side
    let e1 ← genComboExpr lp rp (depth - 1)
    let e2 ← genComboExpr lp rp (depth - 1)
    let w ← pickA comboWords
    let m ← below 3
    pure (if m = 0 then s!"{e1} {e2}" else if m = 1 then s!"{e1} {w} {e2}" else s!"{lp}{e1} {w} {e2}{rp}")
  else do
    -- a parenthesised phrase without operator
    let w ← pickA comboWords
    pure s!"{lp}{w}{rp}"

def comboMutate (s : String) : G String := do
  let cs := s.toList
  let i ← below (cs.length + 1)
  let k ← below 4
  match k with
  | 0 => pure (String.ofList (cs.take i ++ cs.drop (i + 1)))
  | 1 => do
    let t ← pickA comboTokens
    pure (String.ofList (cs.take i) ++ t ++ String.ofList (cs.drop i))
  | 2 => do
    let len ← range 1 8
    pure (String.ofList (cs.take i ++ (cs.drop i).take len ++ cs.drop i))
  | _ => do
    let j ← below (cs.length + 1)
    pure (String.ofList ((cs.take (min i j)) ++ cs.drop (max i j)))

def comboExpected (brace nested : Bool) (t : String) : Json :=
  match Combo.parse brace 64 t.toList nested with
  | .panic => Json.mkObj [("st", ("panic" : Json))]
  | .nofuel => Json.mkObj [("st", ("nofuel" : Json))]
  | .res r => Json.mkObj [("st", ("ok" : Json)), ("node", (String.ofList (Combo.showNode r.node) : Json)),
                          ("out", (String.ofList r.out : Json)), ("code", (String.ofList r.code : Json))]

def comboCase (id : String) (tag : String) (brace nested : Bool) (t : String) : Case :=
  { id := id, op := "combo",
    args := Json.mkObj [("text", (t : Json)), ("brace", (brace : Json)), ("nested", (nested : Json))],
    exp := comboExpected brace nested t, tag := tag }

/-- a tree of the specification in the canonical text of the `combo` operation -/
partial def showSpecTree : PNode → String
  | .leaf t _ _ _ _ => "L<" ++ String.ofList t ++ ">"
  | .comb op sl sr _ _ l r =>
    "C[" ++ String.ofList op ++ "|" ++ "^".intercalate (sl.map String.ofList) ++ "|" ++ "^".intercalate (sr.map String.ofList)
      ++ "](" ++ showSpecTree l ++ ")(" ++ showSpecTree r ++ ")"
  | _ => "?"

/-- documented notation from the grammar AST: the expected tree is the documented meaning
    (`denoteE`), not the model's output; the model's output is recorded as well -/
def genComboSpecCases (tier : String) (seed : Nat) : Array Case := Id.run do
  let n := if tier = "thorough" then 1500 else 150
  let mut out : Array Case := #[]
  let mut rng : Rng := ⟨UInt64.ofNat (seed * 40503 + 12289)⟩
  let mut ctr := 0
  for i in [0:n] do
    let cfg : GenCfg := { multi := i % 3 = 0, nestedMulti := false }
    let ((e, c1), r1) := ((genExpr cfg (1 + i % 3)).run ctr) rng
    rng := r1
    ctr := c1
    match e with
    | .leaf _ => pure ()
    | _ =>
      let t := String.ofList (renderE e)
      let nested := i % 2 = 1
      let spec := showSpecTree (denoteE [] [] e)
      let c := comboCase s!"combo-s{i}" "spec" false nested t
      out := out.push { c with note := Json.mkObj [("spec", (spec : Json))] }
  pure out

/-- brace mode, documented notation: operator trees over nested statements `Sym{…}` whose
    components may hold operators of their own; with and without the component symbol in front.
    The expected tree is written down directly (one leaf per nested statement, operators as
    written), independently of the model. -/
def braceLeafPool : Array String := #["A(a) I(b)", "A(x) I((p [AND] q)) Bdir(z)", "I(do) Cex((m [OR] (n [XOR] o)))",
  "A(officer) D(must) I(report) Bdir((this [XOR] that))", "A(operator) I(violates) Bdir(rules)", "I(act)"]

partial def genBraceTree (sym : String) (depth : Nat) (top : Bool) (rootSl : String) : G (String × String) := do
  let k ← below 10
  if !top && (depth = 0 || k < 4) then
    let body ← pickA braceLeafPool
    let t := sym ++ "{" ++ body ++ "}"
    pure (t, "L<" ++ t ++ ">")
  else if k < 8 || depth = 0 then
    let (l, sl) ← genBraceTree sym (depth - 1) false ""
    let (r, sr) ← genBraceTree sym (depth - 1) false ""
    let o ← pickA #["AND", "OR", "XOR"]
    pure ("{" ++ l ++ " [" ++ o ++ "] " ++ r ++ "}", "C[" ++ o ++ "|" ++ rootSl ++ "|](" ++ sl ++ ")(" ++ sr ++ ")")
  else
    -- a chain of three or four operands with one operator: nested to the left
    let n ← range 3 4
    let o ← pickA #["AND", "OR", "XOR"]
    let (t0, s0) ← genBraceTree sym (depth - 1) false ""
    let mut text := t0
    let mut spec := s0
    for j in [1:n] do
      let (t, sp) ← genBraceTree sym (depth - 1) false ""
      text := text ++ " [" ++ o ++ "] " ++ t
      spec := "C[" ++ o ++ "|" ++ (if j + 1 = n then rootSl else "") ++ "|](" ++ spec ++ ")(" ++ sp ++ ")"
    pure ("{" ++ text ++ "}", spec)

def genComboBraceSpecCases (tier : String) (seed : Nat) : Array Case := Id.run do
  let n := if tier = "thorough" then 600 else 80
  let mut out : Array Case := #[]
  let mut rng : Rng := ⟨UInt64.ofNat (seed * 69069 + 5)⟩
  for i in [0:n] do
    let sym := #["Cac", "Bdir", "Cex", "Bind,p", "A,p", "O"].getD (i % 6) "Cac"
    let withSym := i % 2 = 0
    -- with the symbol in front, it becomes the shared left text of the root
    let ((t, spec), r1) := (genBraceTree sym (1 + i % 3) true (if withSym then sym else "")) rng
    rng := r1
    let text := if withSym then sym ++ t else t
    let c := comboCase s!"combo-b{i}" "spec" true (i % 4 = 1) text
    out := out.push { c with note := Json.mkObj [("spec", (spec : Json))] }
  pure out

/-- the content of a component as `parseComponent` passes it (outer parentheses of the
    combination possibly missing), with the second attempt in parentheses: model `parseContent`,
    expected tree from the documented meaning -/
def genComboContentCases (tier : String) (seed : Nat) : Array Case := Id.run do
  let n := if tier = "thorough" then 1500 else 150
  let mut out : Array Case := #[]
  let mut rng : Rng := ⟨UInt64.ofNat (seed * 7919 + 104729)⟩
  let mut ctr := 0
  for i in [0:n] do
    let cfg : GenCfg := { multi := i % 3 = 0, nestedMulti := false }
    let ((e, c1), r1) := ((genExpr cfg (1 + i % 3)).run ctr) rng
    rng := r1
    ctr := c1
    match e with
    | .leaf _ => pure ()
    | _ =>
      let t := String.ofList (renderBody (i % 2 = 0) e)
      let spec := showSpecTree (denoteE [] [] e)
      let exp := match Combo.parseContent 64 t.toList with
        | .panic => Json.mkObj [("st", ("panic" : Json))]
        | .nofuel => Json.mkObj [("st", ("nofuel" : Json))]
        | .res r => Json.mkObj [("st", ("ok" : Json)), ("node", (String.ofList (Combo.showNode r.node) : Json)),
                                ("out", (String.ofList r.out : Json)), ("code", (String.ofList r.code : Json))]
      let args := Json.mkObj [("text", (t : Json)), ("brace", (false : Json)), ("nested", (false : Json)), ("retry", (true : Json))]
      let c : Case := { id := s!"combo-c{i}", op := "combo", args := args, exp := exp, tag := "spec" }
      out := out.push { c with note := Json.mkObj [("spec", (spec : Json))] }
  pure out

/-- all strings over a small token alphabet up to a length (exhaustive stream) -/
def comboAllStrings (toks : List String) : Nat → List String
  | 0 => [""]
  | n+1 => (comboAllStrings toks n).flatMap fun s => toks.map fun t => s ++ t

def genComboCases (tier : String) (seed : Nat) : Array Case := Id.run do
  let n := if tier = "thorough" then 6000 else 500
  let mut out : Array Case := #[]
  let mut rng : Rng := ⟨UInt64.ofNat (seed * 2654435761 + 977)⟩
  for i in [0:n] do
    let brace := i % 5 ≠ 4 && i % 6 = 5
    let (lp, rp) := if brace then ("{", "}") else ("(", ")")
    let nested := i % 7 = 3
    let kind := i % 5
    let (t, r1) := (do
      if kind = 4 then genDocExpr "(" ")" 3 true
      else if kind = 0 then
        let k ← range 1 14
        let ts ← listOf k (pickA comboTokens)
        pure ("".intercalate ts)
      else
        let e ← genComboExpr lp rp 3
        let e ← if brace then do
            -- component-level parentheses with operators inside statements
            let inner ← genComboExpr "(" ")" 1
            let c ← chance 1 2
            pure (if c then e.replace "a" s!"A{inner}" else e)
          else pure e
        if kind = 3 then comboMutate e else pure e) rng
    rng := r1
    let tag := (if brace then "brace-" else "paren-") ++ (if kind = 0 then "tokens" else if kind = 3 then "mutated"
      else if kind = 4 then "documented" else "rendered")
    out := out.push (comboCase s!"combo-{i}" tag brace nested t)
  out := out ++ genComboSpecCases tier seed ++ genComboBraceSpecCases tier seed ++ genComboContentCases tier seed
  -- exhaustive: every string of up to 5 (quick) / 6 (thorough) tokens over a 6-token alphabet
  let len := if tier = "thorough" then 6 else 5
  let toks := ["(", ")", "a", " ", "[AND]", "[OR]"]
  let mut j := 0
  for l in [1:len+1] do
    for t in comboAllStrings toks l do
      -- skip what the early exits decide at once
      if t.contains '(' || t.contains ')' then
        out := out.push (comboCase s!"combo-x{j}" s!"exhaustive-{l}" false (j % 3 = 0) t)
        j := j + 1
  pure out

/-- the part of the stream that concerns brace mode (C02's check) -/
def genComboBraceCases (tier : String) (seed : Nat) : Array Case :=
  (genComboCases tier seed).filter fun c => (c.args.getObjValAs? Bool "brace").toOption.getD false

def judgeCombo (c : Case) (o : ObsLine) : Verdict :=
  let g := fun (k : String) (j : Json) => (j.getObjValAs? String k).toOption.getD ""
  if c.tag = "spec" then
    -- documented notation: implementation against the documented meaning
    if o.st ≠ "ok" then .crash s!"{o.st}: {o.code}"
    else if g "code" o.obs ≠ "NO_ERROR_DURING_PARSING" then
      .violation "combination parser rejects a documented combination" (g "code" o.obs)
    else if g "node" o.obs ≠ g "spec" c.note then
      .violation "combination parser: tree differs from the documented meaning" s!"expected {g "spec" c.note} observed {g "node" o.obs}"
    else if g "node" c.exp ≠ g "node" o.obs || g "out" c.exp ≠ g "out" o.obs then
      .disagree "[correspondence] combination parser model" c.exp.compress o.obs.compress
    else .ok
  else
  let est := g "st" c.exp
  if est = "nofuel" then .disagree "combination parser (model ran out of fuel)" c.exp.compress o.obs.compress
  else if est = "panic" then
    if o.st = "panic" then .ok else .disagree "[correspondence] combination parser model (model expects a panic)" c.exp.compress (o.st ++ " " ++ o.obs.compress)
  else if o.st ≠ "ok" then .crash s!"{o.st}: {o.code}"
  else if g "node" o.obs = g "node" c.exp && g "out" o.obs = g "out" c.exp && g "code" o.obs = g "code" c.exp then .ok
  else if c.tag = "paren-documented" then
    -- documented notation: the expected tree is the one the notation denotes (theorems of C01)
    .disagree "combination parser: tree differs from the written combination" c.exp.compress o.obs.compress
  else
    -- outside the documented notation the model only mirrors today's code: a difference breaks
    -- the correspondence, it is not by itself an input on which the property fails
    .disagree "[correspondence] combination parser model (input outside the documented notation)" c.exp.compress o.obs.compress

end Drv
