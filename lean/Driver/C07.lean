import Driver.TabOracle
import IGVerif.Model.TabPrint
import IGVerif.Gen.Facts
namespace Drv
open Lean IGVerif

def symTable : List (Str × Str) :=
  Gen.componentSymbols.map fun s => (s.toList, ((Gen.componentSymbolNames.find? (fun p => p.1 = s)).map (·.2)).getD s |>.toList)

def schemaTable : List (Str × Bool) :=
  Gen.staticSchema.map fun e => (e.1.toList, e.2.1 ≠ "")

/-- hostile texts for leaf values (still IG Script content: no unbalanced brackets) -/
def hostileTexts : Array String := #["plain", "say \"hello\" twice", "'leading apostrophe", "tab\there", "line\nbreak",
  "crlf\r\nbreak", "lone\rcr", "pipe|inside", "back\\slash", "ünï çødé 字", "a,b;c", "semi;colon=x", "quote\"end", "x"]
def hostileOrig : Array String := #["", "Original text.", "orig|with|pipes", "orig \"quoted\"\nsecond line", "'apostrophe first", "cr\ronly", "tab\tin orig"]
def hostileIds : Array String := #["123", "7.1", "id|x", "id\"q", "id\nnl", "'9", "a b", ""]
def hostileAnn : Array String := #["type=x", "k=\"v\"", "a=b,c=d", "role='r'"]

def inclName (k : Nat) (orig : Bool) : Json :=
  match k with
  | 0 => (0 : Nat)
  | 1 => (1 : Nat)
  | 2 => (2 : Nat)
  | _ => Json.str (if orig then "some other option" else "whatever")

def genC07Cases (tier : String) (seed : Nat) : Array Case := Id.run do
  let n := if tier = "thorough" then 3000 else 240
  let mut out : Array Case := #[]
  let mut rng : Rng := ⟨UInt64.ofNat (seed * 198491317 + 37)⟩
  for i in [0:n] do
    -- statement shape: a few components, one combination, optionally a nested statement with annotation
    let (t1, r1) := pickA hostileTexts rng
    let (t2, r2) := pickA hostileTexts r1
    let (t3, r3) := pickA hostileTexts r2
    let (an, r4) := pickA hostileAnn r3
    let (orig, r5) := pickA hostileOrig r4
    let (id, r6) := pickA hostileIds r5
    let (shape, r7) := below 8 r6
    rng := r7
    let text :=
      match shape with
      | 0 => s!"A({t1}) I(({t2} [AND] {t3}))"
      | 1 => s!"A[{an}]({t1}) D(must) I({t2}) Cac[{an}]" ++ "{" ++ s!"A(b) I({t3})" ++ "}"
      | 2 => s!"A({t1}) " ++ "{" ++ s!"I({t2}) [XOR] I({t3})" ++ "}" ++ " Bdir(x)"
      | 3 => s!"A1({t1}) A1,p[{an}]({t2}) I({t3}) Bdir,p(p)"
      -- several private / shared properties of one component: every value of a cell is sanitised
      | 4 => s!"A1,p({t1}) A1,p({t2}) A1(farmer) D(must) I(comply) Bdir,p({t3}) Bdir,p(second) Bdir(rules)"
      | 5 => s!"A(inspector) I(visits) Cac" ++ "{" ++ s!"A(farmer) I(sells) Bdir1,p({t1}) Bdir1,p({t2}) Bdir1(produce) Bdir,p({t3})" ++ "}"
      | 6 => s!"Bdir1({t1}) Bdir1,p" ++ "{" ++ s!"A(owner) I({t2})" ++ "}" ++ s!" Bdir1,p({t3}) A(x) I(y)"
      | _ => s!"E1({t1}) E1,p(({t2} [OR] {t3})) E1,p(third) F(is) P(p) P,p({t2}) P,p({t1})"
    let fmt := if i % 2 = 0 then "csv" else "gs"
    let hdr : Bool := i % 3 != 0
    let po := (i / 2) % 4
    let ps := (i / 8) % 4
    let ext : Bool := decide (i % 5 < 3)
    let ann : Bool := decide (i % 7 < 4)
    let dyn : Bool := i % 11 == 0
    let args := Json.mkObj [("text", (text : Json)), ("orig", (orig : Json)), ("id", (id : Json)), ("fmt", (fmt : Json)),
      ("hdr", (hdr : Json)), ("po", inclName po true), ("ps", inclName ps false), ("ext", (ext : Json)), ("ann", (ann : Json)),
      ("dyn", (dyn : Json)), ("withparse", (true : Json))]
    let note := Json.mkObj [("po", (po : Json)), ("ps", (ps : Json))]
    let c : Case := { id := s!"c07-{i}", op := "tab", args := args, tag := fmt ++ (if dyn then "-dyn" else ""), note := note }
    out := out.push c
  -- witness of an open finding: dynamic schema, pair statements with different component sets
  for (t, k) in [("A(officer) {I(inspect) [XOR] I(certify) Cex(quickly) Bdir(farm)}", 0),
                 ("A(officer) D(must) {I(inspect) Bdir(farm) Cex(today) [AND] I(report)} Cac(when asked)", 1)] do
    let args := Json.mkObj [("text", (t : Json)), ("orig", ("" : Json)), ("id", ("1" : Json)), ("fmt", ((if k = 0 then "csv" else "gs") : Json)),
      ("hdr", (true : Json)), ("po", inclName 0 true), ("ps", inclName 0 false), ("ext", (true : Json)), ("ann", (false : Json)),
      ("dyn", (true : Json)), ("withparse", (true : Json))]
    out := out.push { id := s!"c07-w{k}", op := "tab", args := args, tag := "witness-dyn",
                      note := Json.mkObj [("po", (0 : Nat)), ("ps", (0 : Nat)), ("kf", ("C07-dynamic-schema-pair-statements-with-different-components" : Json))] }
  pure out

def splitOnChar (s : List Char) (sep : Char) : List (List Char) :=
  let rec go (cs cur : List Char) (acc : List (List Char)) : List (List Char) :=
    match cs with
    | [] => (cur.reverse :: acc).reverse
    | c :: rest => if c = sep then go rest [] (cur.reverse :: acc) else go rest (c :: cur) acc
  go s [] []

/-- the property itself, on one output string: `none` = parseable -/
def parseProblem (out : String) (gs hdr : Bool) (po ps : Nat) (first : Bool) : Option String := Id.run do
  let lines := (splitOnChar out.toList '\n')
  let lines := if lines.getLast? = some [] then lines.dropLast else lines
  if lines.isEmpty then return some "no output lines"
  let pre := "=SPLIT(\"".toList
  let suf := "\"; \"|\")".toList
  let mut counts : List Nat := []
  let mut firstCells : List (List Char) := []
  let mut li := 0
  for l in lines do
    let inner ←
      if gs then
        if !(l.take pre.length == pre && (l.reverse.take suf.length).reverse == suf && l.length ≥ pre.length + suf.length) then
          return some s!"line {li} is not one complete SPLIT formula: {String.ofList l}"
        else pure ((l.drop pre.length).take (l.length - pre.length - suf.length))
      else pure l
    if inner.contains '"' then return some s!"line {li} contains a double quote: {String.ofList inner}"
    if inner.contains '\r' then return some s!"line {li} contains a carriage return"
    let cells := splitOnChar inner '|'
    let cells := if cells.getLast? = some [] then cells.dropLast else cells
    counts := counts ++ [cells.length]
    if li = 0 then firstCells := cells
    li := li + 1
  match counts with
  | [] => return some "no lines"
  | c0 :: rest =>
    if rest.any (· ≠ c0) then return some s!"lines have different numbers of cells: {counts}"
  if hdr && first then
    if firstCells.head? ≠ some "Statement ID".toList then return some "header row missing or not first"
    let want := ["Statement ID".toList] ++ (if po = 1 || po = 2 then ["Original Statement".toList] else []) ++
      (if ps = 1 || ps = 2 then ["IG Script Encoding".toList] else [])
    if firstCells.take want.length ≠ want then return some s!"optional columns not as selected: {firstCells.take 3 |>.map String.ofList}"
  else
    if firstCells.head? = some "Statement ID".toList then return some "header row present although not selected"
  return none

/-- cells per line of one output (CSV: separators; Google Sheets: inside the SPLIT formula) -/
def cellCounts (out : String) (gs : Bool) : List Nat :=
  let lines := (splitOnChar out.toList '\n')
  let lines := if lines.getLast? = some [] then lines.dropLast else lines
  lines.map fun l =>
    let inner := if gs then (l.drop 8).take (l.length - 8 - 7) else l
    let cells := splitOnChar inner '|'
    (if cells.getLast? = some [] then cells.dropLast else cells).length

def judgeC07 (c : Case) (o : ObsLine) : Verdict :=
  match o.st with
  | "err" => .ok   -- rejected statements produce no table (C11's subject)
  | "ok" =>
    let a := c.args
    let gs := (a.getObjValAs? String "fmt").toOption.getD "csv" == "gs"
    let hdr := (a.getObjValAs? Bool "hdr").toOption.getD true
    let po := (c.note.getObjValAs? Nat "po").toOption.getD 0
    let ps := (c.note.getObjValAs? Nat "ps").toOption.getD 0
    let dyn := (a.getObjValAs? Bool "dyn").toOption.getD false
    let ext := (a.getObjValAs? Bool "ext").toOption.getD true
    let ann := (a.getObjValAs? Bool "ann").toOption.getD false
    let outs : List String := match o.obs.getObjVal? "res" with
      | .ok (.arr rs) => rs.toList.map (fun r => (r.getObjValAs? String "out").toOption.getD "")
      | _ => []
    -- the property on the implementation's output
    let probs := outs.zipIdx.filterMap fun (s, j) => parseProblem s gs hdr po ps (j = 0)
    match probs with
    | p :: _ => .violation "tabular output is not machine-parseable" p
    | [] =>
      -- the tables of the statements a pair combination expands into form one table under one header
      let allCounts := outs.flatMap (fun s => cellCounts s gs)
      if (match allCounts with | c0 :: rest => rest.any (· ≠ c0) | [] => false) then
        .violation "tabular output is not machine-parseable" s!"the lines of the whole output have different numbers of cells: {allCounts}"
      else
      if dyn then .ok else
      -- D: model of the printed text, from the implementation's own parse
      match o.obs.getObjVal? "parse" with
      | .ok pj =>
        match pj.getObjVal? "nodes" with
        | .ok (.arr #[n]) =>
          match nodeOfJson n with
          | .ok pn =>
            let id := String.ofList (Tab.escape (TabPrint.cleanInput '|' ((a.getObjValAs? String "id").toOption.getD "").toList))
            let groups := Tab.exportAll { ext := ext, ann := ann, gs := gs } pn id.toList
            let orig := TabPrint.cleanInput '|' ((a.getObjValAs? String "orig").toOption.getD "").toList
            let script := TabPrint.cleanInput '|' ((a.getObjValAs? String "text").toOption.getD "").toList
            let hdrT := TabPrint.header symTable schemaTable ann
            let exp := groups.zipIdx.map fun (rows, j) =>
              String.ofList (TabPrint.output hdrT rows orig script
                { gs := gs, headers := hdr && j = 0, po := po, ps := ps } '|')
            if exp = outs then .ok else .disagree "printed table" (toString exp) (toString outs)
          | .error _ => .ok
        | _ => .ok
      | _ => .ok
  | _ => .crash s!"{o.st}: {o.code}"

end Drv
