/-! SplitMix64: every random choice of the driver derives from one seed (`VERIF_SEED`). -/
namespace Drv

structure Rng where
  s : UInt64
  deriving Repr

def Rng.next (r : Rng) : UInt64 × Rng :=
  let s := r.s + 0x9E3779B97F4A7C15
  let z := s
  let z := (z ^^^ (z >>> 30)) * 0xBF58476D1CE4E5B9
  let z := (z ^^^ (z >>> 27)) * 0x94D049BB133111EB
  (z ^^^ (z >>> 31), ⟨s⟩)

abbrev G := StateM Rng

def nextU64 : G UInt64 := fun r => r.next

/-- uniform in [0, n) (n > 0) -/
def below (n : Nat) : G Nat := do
  let x ← nextU64
  pure (if n = 0 then 0 else x.toNat % n)

def range (lo hi : Nat) : G Nat := do
  let x ← below (hi - lo + 1)
  pure (lo + x)

def chance (num den : Nat) : G Bool := do
  let x ← below den
  pure (x < num)

def pick {α} [Inhabited α] (xs : List α) : G α := do
  let i ← below xs.length
  pure (xs.getD i default)

def pickA {α} [Inhabited α] (xs : Array α) : G α := do
  let i ← below xs.size
  pure (xs.getD i default)

def listOf {α} (n : Nat) (g : G α) : G (List α) := do
  let mut out := []
  for _ in [0:n] do
    out := (← g) :: out
  pure out.reverse

def shuffle {α} [Inhabited α] (xs : List α) : G (List α) := do
  let mut a := xs.toArray
  let n := a.size
  for i in [0:n] do
    let j ← range i (n - 1)
    let t := a[i]!
    a := a.set! i a[j]!
    a := a.set! j t
  pure a.toList

def run {α} (seed : Nat) (g : G α) : α := (g ⟨UInt64.ofNat seed⟩).1

end Drv
