import Driver.Core
import Driver.GenStmt
import IGVerif.Spec.Shape
import Driver.GenSup
namespace Drv
open Lean IGVerif

inductive Rule | unbalanced | mixedOps | mixedNested | typeMix | twoPairs | duplicate | nonNesting | emptyOperand | noComponent
  deriving Repr, DecidableEq, Inhabited

def Rule.name : Rule → String
  | .unbalanced => "unbalanced" | .mixedOps => "mixed-operators" | .mixedNested => "mixed-operators-between-nested-statements" | .typeMix => "type-mix" | .twoPairs => "two-pairs"
  | .duplicate => "duplicate" | .nonNesting => "braces-on-non-nesting" | .emptyOperand => "empty-operand"
  | .noComponent => "no-component"

def Rule.code : Rule → String
  | .unbalanced => "IMBALANCED_PARENTHESES"
  | .mixedOps => "INVALID_LOGICAL_OPERATOR_COMBINATIONS"
  | .mixedNested => "INVALID_LOGICAL_OPERATOR_COMBINATIONS"
  | .typeMix => "INVALID_TYPE_COMBINATIONS_IN_NESTED_STATEMENT_COMBINATIONS"
  | .twoPairs => "MULTIPLE_COMPONENT_PAIRS_ON_NESTING_LEVEL"
  | .duplicate => "DUPLICATE_COMPONENT_ENTRIES"
  | .nonNesting => "IGNORED_ELEMENTS_NESTED_STATEMENT_PARSING"
  | .emptyOperand => "EMPTY_LEAF_VALUE"
  | .noComponent => "EMPTY STATEMENT"

def Rule.all : List Rule := [.unbalanced, .mixedOps, .mixedNested, .typeMix, .twoPairs, .duplicate, .nonNesting, .emptyOperand]

/-- text that breaks the rule when inserted among the parts of a statement -/
def Rule.plant (r : Rule) (k : Nat) : String :=
  match r with
  | .unbalanced => #["(", ")", "{", "Cex(u", "M(v))", "}"].getD (k % 6) "("
  | .mixedOps => #["M((ma [AND] mb [OR] mc))", "F((fa [XOR] fb [AND] fc))", "Cex(((xa [OR] xb) [AND] xc [XOR] xd))",
                   "M(((ma [OR] mb) [AND] (mc [AND] md [OR] me)))", "Cex((xa [OR] xb) and (xc [AND] xd [OR] xe))",
                   "F(((fa [XOR] fb) [OR] ((fc [AND] fd) [AND] (fe [OR] ff [XOR] fg))))"].getD (k % 6) ""
  | .mixedNested => #["O{A(ma) I(mb)} [OR] O{A(mc) I(md)} [AND] O{A(me) I(mf)}", "Cex{A(ma) I(mb)} [AND] Cex{A(mc) I(md)} [XOR] Cex{A(me) I(mf)}",
                      "O{A(ma) I(mb)} [XOR] O{A(mc) I(md)} [OR] O{A(me) I(mf)}"].getD (k % 3) ""
  | .typeMix => #["Cac{Cac{A(ta) I(tb)} [AND] Bdir{A(tc) I(td)}}", "Cex{Cex{A(ta) I(tb)} [XOR] Cac{A(tc) I(td)}}",
                  "Bdir{Bdir{A(ta)} [OR] Bind{I(tb)}}",
                  -- a component and its property variant are different types (either order, also as third operand)
                  "Bdir{Bdir{A(ta) I(tb)} [AND] Bdir,p{A(tc) I(td)}}", "Bind,p{Bind,p{A(ta) I(tb)} [OR] Bind{A(tc) I(td)}}",
                  "P{P{A(ta) I(tb)} [XOR] {P{A(tc) I(td)} [AND] P,p{A(te) I(tf)}}}"].getD (k % 6) ""
  | .twoPairs => "{M(pa) [XOR] M(pb)} {F(pc) [OR] F(pd)}"
  | .duplicate => #["F(dup) F(dup)", "M(same (a [AND] b)) M(same (a [AND] b))", "D(dd) D(dd)"].getD (k % 3) ""
  | .nonNesting => #["D{A(na) I(nb)}", "M{A(na) I(nb)}", "F{I(nb)}"].getD (k % 3) ""
  | .emptyOperand => #["M((ea [AND] ))", "F(( [OR] eb))", "Cex((ec [XOR] (ed [AND] )))"].getD (k % 3) ""
  | .noComponent => ""

/-- a place where text can be planted: path of braced constructs from the top -/
inductive Site
  | here
  | nested (i : Nat) (s : Site)     -- i-th part, which is `.nested`
  | operand (i : Nat) (j : Nat) (s : Site)   -- i-th part `.ncomb`, j-th operand (left-to-right)
  | group (i : Nat) (j : Nat) (s : Site)     -- i-th part `.pairs`, j-th group
  deriving Repr, Inhabited

def Site.context : Site → String
  | .here => "top"
  | .nested _ s => "nested>" ++ s.context
  | .operand _ _ s => "operand>" ++ s.context
  | .group _ _ s => "group>" ++ s.context

partial def ntLeaves : NTree → List Stmt
  | .one _ s => [s]
  | .op _ l r => ntLeaves l ++ ntLeaves r
partial def gtLeaves : GTree → List Stmt
  | .grp s => [s]
  | .op _ l r => gtLeaves l ++ gtLeaves r

partial def sites (s : Stmt) : List Site :=
  Site.here :: (s.parts.zipIdx.flatMap fun (p, i) =>
    match p with
    | .nested _ inner => (sites inner).map (Site.nested i)
    | .ncomb _ t => (ntLeaves t).zipIdx.flatMap fun (o, j) => (sites o).map (Site.operand i j)
    | .pairs t => (gtLeaves t).zipIdx.flatMap fun (g, j) => (sites g).map (Site.group i j)
    | _ => [])

partial def mapNT (t : NTree) (j : Nat) (f : Stmt → Stmt) : NTree × Nat :=
  match t with
  | .one h s => if j = 0 then (.one h (f s), 1000000) else (.one h s, j - 1)
  | .op o l r =>
    let (l', j') := mapNT l j f
    if j' ≥ 1000000 then (.op o l' r, j') else
    let (r', j'') := mapNT r j' f
    (.op o l' r', j'')
partial def mapGT (t : GTree) (j : Nat) (f : Stmt → Stmt) : GTree × Nat :=
  match t with
  | .grp s => if j = 0 then (.grp (f s), 1000000) else (.grp s, j - 1)
  | .op o l r =>
    let (l', j') := mapGT l j f
    if j' ≥ 1000000 then (.op o l' r, j') else
    let (r', j'') := mapGT r j' f
    (.op o l' r', j'')

partial def plantAt (s : Stmt) (site : Site) (text : String) (pos : Nat) : Stmt :=
  match site with
  | .here =>
    let ps := s.parts
    let k := pos % (ps.length + 1)
    .mk (ps.take k ++ [.filler text.toList] ++ ps.drop k)
  | .nested i rest =>
    .mk (s.parts.zipIdx.map fun (p, k) =>
      if k = i then (match p with | .nested h inner => .nested h (plantAt inner rest text pos) | x => x) else p)
  | .operand i j rest =>
    .mk (s.parts.zipIdx.map fun (p, k) =>
      if k = i then (match p with | .ncomb h t => .ncomb h (mapNT t j (fun o => plantAt o rest text pos)).1 | x => x) else p)
  | .group i j rest =>
    .mk (s.parts.zipIdx.map fun (p, k) =>
      if k = i then (match p with | .pairs t => .pairs (mapGT t j (fun g => plantAt g rest text pos)).1 | x => x) else p)

/-- known-finding classes (DESIGN.md L11), by rule and innermost context of the planted text -/
def kfC11 (r : Rule) (ctx : String) : String :=
  let inGroup := ctx.toList.take 6 == "group>".toList
  let below := ctx ≠ "top"
  -- anywhere inside an operand of a combination of nested statements
  let deepInOperand := (ctx.splitOn "operand>").length > 1
  if inGroup && (r = .twoPairs || r = .typeMix) then "C11-rule-not-enforced-inside-pair-group"
  else if below && r = .twoPairs then "C11-two-pairs-below-top-level-other-code"
  else if deepInOperand && (r = .typeMix || r = .mixedNested) then "C11-combination-rule-deep-inside-combination-operand"
  else ""

def genC11Cases (tier : String) (seed : Nat) : Array Case := Id.run do
  let nbase := if tier = "thorough" then 400 else 30
  let mut out : Array Case := #[]
  let mut rng : Rng := ⟨UInt64.ofNat (seed * 256203161 + 47)⟩
  for b in [0:nbase] do
    let (s, r1) := (match b % 3 with
      | 0 => genC01 { suffixes := false, maxDepth := 2, maxComps := 3, fillers := false }
      | 1 => genSupC02 2
      | _ => genNestedSup { depth := 1, pairs := true, maxSimple := 2 }) rng
    rng := r1
    if !(supported s) then continue
    -- converse: the well-formed base statement is accepted by both conversions
    let a0 := Json.mkObj [("text", (String.ofList (renderS s) : Json)), ("id", ("1" : Json))]
    let c0 : Case := { id := s!"c11-b{b}", op := "conv", args := a0, exp := Json.str "NO_ERROR_DURING_PARSING", tag := "well-formed" }
    out := out.push c0
    let ss := sites s
    let mut k := 0
    for site in ss do
      for rule in Rule.all do
        -- quick tier: a third of the (site, rule) pairs per base statement, rotating
        if tier ≠ "thorough" && (k + b) % 3 ≠ 0 then k := k + 1; continue
        let text := String.ofList (renderS (plantAt s site (rule.plant (k + b)) (k + b)))
        let ctx := site.context
        let a1 := Json.mkObj [("text", (text : Json)), ("id", ("1" : Json))]
        let n1 := Json.mkObj [("kf", (kfC11 rule ctx : Json)), ("rule", (rule.name : Json)), ("ctx", (ctx : Json))]
        let c : Case := { id := s!"c11-{b}-{k}", op := "conv", args := a1, exp := Json.str rule.code, tag := rule.name ++ "@" ++ ctx, note := n1 }
        out := out.push c
        k := k + 1
  -- fixed base statements, every rule planted at every position between the parts (in particular
  -- behind a nested statement, a combination of nested statements and a pair combination)
  let fixedBases : List (List String) := [
    ["A(Program Manager)", "D(may)", "I(suspend)", "Bdir(certificate)", "Cac{A(operator) I(violates) Bdir(rules)}"],
    ["A(actor)", "I(act)", "Cac{A(a) I(b)}", "Cex{A(c) I(d)}"],
    ["A(officer)", "I(reports)", "Cac{Cac{A(a) I(b)} [OR] Cac{A(c) I(d)}}", "Bdir(violation)"],
    ["A(actor)", "{I(inspect) Bdir(farm) [AND] I(report) Bdir(result)}", "Cac{A(x) I(y)}"]]
  let mut fb := 0
  for base in fixedBases do
    let a0 := Json.mkObj [("text", (" ".intercalate base : Json)), ("id", ("1" : Json))]
    out := out.push { id := s!"c11-fb{fb}", op := "conv", args := a0, exp := Json.str "NO_ERROR_DURING_PARSING", tag := "well-formed" }
    for rule in Rule.all do
      for pos in [0:base.length + 1] do
        let text := " ".intercalate (base.take pos ++ [rule.plant (pos + fb)] ++ base.drop pos)
        let a1 := Json.mkObj [("text", (text : Json)), ("id", ("1" : Json))]
        let n1 := Json.mkObj [("kf", ("" : Json)), ("rule", (rule.name : Json)), ("ctx", ("top" : Json))]
        out := out.push { id := s!"c11-f{fb}-{rule.name}-{pos}", op := "conv", args := a1, exp := Json.str rule.code,
                          tag := rule.name ++ "@fixed", note := n1 }
    fb := fb + 1
  -- witness of an open finding: a type-mixed combination inside a nested statement of an operand
  -- of a three-level combination, where operand and nested statement hold component-level combinations
  let deepW := "A(x) I(y) Bind{Bind{A(a) I(b)} [AND] {Bind{Cex(c)} [XOR] {Bind{M((m1 [AND] m2)) E((e1 [XOR] e2)) P{Cex((c1 [XOR] c2)) Bdir,p((s [XOR] t)) Cac{Cac{A(ta) I(tb)} [AND] Bdir{A(tc) I(td)}}}} [OR] Bind{F(f)}}}}"
  out := out.push { id := "c11-deep-witness", op := "conv", args := Json.mkObj [("text", (deepW : Json)), ("id", ("1" : Json))],
                    exp := Json.str Rule.typeMix.code, tag := "type-mix@witness",
                    note := Json.mkObj [("kf", ("C11-combination-rule-deep-inside-combination-operand" : Json)), ("rule", ("type-mix" : Json)), ("ctx", ("operand>nested>top" : Json))] }
  let deepW2 := "A(x) I(y) Cex{Cex{A(a) I(b)} [XOR] {Cex{F(x113)} [XOR] {Cex{P{P{A(ta) I(tb)} [XOR] {P{A(tc) I(td)} [AND] P,p{A(te) I(tf)}}} E,p((p [XOR] m)) Cac((f [AND] c))} [OR] Cex{Bind,p(o)}}}}"
  out := out.push { id := "c11-deep-witness2", op := "conv", args := Json.mkObj [("text", (deepW2 : Json)), ("id", ("1" : Json))],
                    exp := Json.str Rule.typeMix.code, tag := "type-mix@witness",
                    note := Json.mkObj [("kf", ("C11-combination-rule-deep-inside-combination-operand" : Json)), ("rule", ("type-mix" : Json)), ("ctx", ("operand>top" : Json))] }
  -- a lone closing or opening bracket in statements that otherwise contain no bracket of that kind
  for (t, k) in [("A(Program Manager) D(may) I(inspect) Bdir(certified operations)}", 0), ("A(actor) I(act) } Bdir(x)", 1),
                 ("{ A(actor) I(act)", 2), ("A(actor) I(act) Cac{A(x) I(y)", 3), ("A(actor) I(act)) Bdir(x)", 4), ("A(actor I(act)", 5),
                 ("A(actor) I(act) Cac{A(x) I(y)}}", 6), ("A(actor) I((a [AND] b) Bdir(x)", 7)] do
    let a3 := Json.mkObj [("text", (t : Json)), ("id", ("1" : Json))]
    out := out.push { id := s!"c11-u{k}", op := "conv", args := a3, exp := Json.str Rule.unbalanced.code, tag := "unbalanced@fixed",
                      note := Json.mkObj [("kf", ("" : Json)), ("rule", ("unbalanced" : Json)), ("ctx", ("top" : Json))] }
  -- text without any annotated component
  for t in ["plain words only", "", "   ", "the farmer must comply, or else.", "A B C (not a component)", "( )"] do
    let a2 := Json.mkObj [("text", (t : Json)), ("id", ("1" : Json))]
    let c2 : Case := { id := s!"c11-n{out.size}", op := "conv", args := a2, exp := Json.str Rule.noComponent.code, tag := "no-component@top" }
    out := out.push c2
  pure out

def judgeC11 (c : Case) (o : ObsLine) : Verdict :=
  if o.st ≠ "ok" then .crash s!"{o.st}: {o.code}" else
  let exp := (c.exp.getStr?).toOption.getD ""
  let tc := (o.obs.getObjValAs? String "tcode").toOption.getD ""
  let vc := (o.obs.getObjValAs? String "vcode").toOption.getD ""
  let tl := (o.obs.getObjValAs? Nat "tlen").toOption.getD 0
  let vl := (o.obs.getObjValAs? Nat "vlen").toOption.getD 0
  if tc ≠ vc then .violation "the two conversions disagree on acceptance / error code" s!"tabular={tc} visual={vc}" else
  if tc ≠ "NO_ERROR_DURING_PARSING" && (tl ≠ 0 || vl ≠ 0) then .violation "rejected input but output produced" s!"{tc}: {tl}/{vl} bytes" else
  if tc = exp then .ok else
  if exp = "NO_ERROR_DURING_PARSING" then .violation "well-formed statement rejected" tc
  else .violation s!"rule violation not rejected with its specific error" s!"expected {exp}, got {tc}"

end Drv
