import Driver.Core
import IGVerif.Model.Tab
import IGVerif.Model.TabPrint
import IGVerif.Spec.PrivateLink
namespace Drv
open Lean IGVerif

def rowToJson (r : Tab.Row) : Json :=
  Json.mkObj (r.map fun (k, v) => (String.ofList k, Json.str (String.ofList v)))

def rowsToJson (rs : List (List Tab.Row)) : Json :=
  Json.arr (rs.map fun g => Json.arr (g.map rowToJson).toArray).toArray

def tabArgs (text id : String) (o : Tab.Opts) (extra : List (String × Json) := []) : Json :=
  Json.mkObj ([("text", (text : Json)), ("id", (id : Json)), ("ext", (o.ext : Json)), ("ann", (o.ann : Json)),
    ("fmt", ((if o.gs then "gs" else "csv") : Json)), ("hdr", (true : Json)), ("withparse", (true : Json))] ++ extra)

/-- the statement id as the export uses it: `CleanInput` then `EscapeSymbolsForExport` -/
def effId (stmtId : String) : Str := Tab.escape (TabPrint.cleanInput '|' stmtId.toList)

def tabCase (id tag : String) (s : Stmt) (stmtId : String) (o : Tab.Opts) : Case :=
  let text := String.ofList (renderS s)
  { id := id, op := "tab", args := tabArgs text stmtId o,
    exp := rowsToJson (Tab.exportAll o (denoteLinked s) (effId stmtId)), tag := tag }

/-- normalise a row object: drop empty cells, sort keys -/
def normRow (j : Json) : List (String × String) :=
  match j with
  | .obj kvs =>
    let l := kvs.toList.filterMap fun (k, v) => match v with
      | .str s => if s.isEmpty then none else some (k, s)
      | _ => none
    l.mergeSort (fun a b => a.1 ≤ b.1)
  | _ => []

def showRow (r : List (String × String)) : String :=
  "{" ++ ", ".intercalate (r.map fun (k, v) => s!"{k}={v}") ++ "}"

def normGroups (j : Json) : List (List (List (String × String))) :=
  match j with
  | .arr gs => gs.toList.map fun g => match g with | .arr rs => rs.toList.map normRow | _ => []
  | _ => []

def obsGroups (o : ObsLine) : List (List (List (String × String))) :=
  match o.obs.getObjVal? "res" with
  | .ok (.arr rs) => rs.toList.map fun r =>
    match r.getObjVal? "rows" with
    | .ok (.arr rows) => rows.toList.map normRow
    | _ => []
  | _ => []

def showGroups (gs : List (List (List (String × String)))) : String :=
  " || ".intercalate (gs.map fun g => " ; ".intercalate (g.map showRow))

/-- compare the implementation's rows with the model evaluated on (a) the specification's
    parse and (b) the implementation's own parse -/
def judgeTab (modelOnImplParse : Bool) (c : Case) (o : ObsLine) : Verdict :=
  match o.st with
  | "ok" =>
    let got := obsGroups o
    let exp :=
      if modelOnImplParse then
        match o.obs.getObjVal? "parse" with
        | .ok pj =>
          match pj.getObjVal? "nodes" with
          | .ok (.arr #[n]) =>
            match nodeOfJson n with
            | .ok pn =>
              let opts : Tab.Opts := { ext := (c.args.getObjValAs? Bool "ext").toOption.getD true,
                                       ann := (c.args.getObjValAs? Bool "ann").toOption.getD false,
                                       gs := (c.args.getObjValAs? String "fmt").toOption.getD "csv" == "gs" }
              let id := (c.args.getObjValAs? String "id").toOption.getD ""
              normGroups (rowsToJson (Tab.exportAll opts pn (effId id)))
            | .error _ => normGroups c.exp
          | _ => normGroups c.exp
        | _ => normGroups c.exp
      else normGroups c.exp
    if got == exp then .ok else .disagree "table rows" (showGroups exp) (showGroups got)
  | "err" => .disagree "rejected" "" ("ERR " ++ o.code)
  | _ => .crash s!"{o.st}: {o.code}"

def genTabCases (tier : String) (seed : Nat) (tagp : String) : Array Case := Id.run do
  let n := if tier = "thorough" then 3000 else 240
  let mut out : Array Case := #[]
  let mut rng : Rng := ⟨UInt64.ofNat (seed * 104729 + 17)⟩
  for i in [0:n] do
    let cfg : GenCfg := { suffixes := false, maxDepth := 2, maxComps := 5 }
    let (s, rng') := genC01 cfg rng
    rng := rng'
    let o : Tab.Opts := { ext := i % 2 = 0, ann := i % 3 = 0, gs := i % 5 = 0 }
    out := out.push (tabCase s!"{tagp}-r{i}" "simple" s "123" o)
  pure out

end Drv
