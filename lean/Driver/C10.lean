import Driver.Core
import Driver.GenStmt
import Driver.TabOracle
namespace Drv
open Lean IGVerif

def tokens : Array String := #["A", "A,p", "D", "I", "Bdir", "Bdir,p", "Bind", "Bind,p", "Cac", "Cex", "E", "E,p", "M", "F", "P", "P,p", "O",
  "(", ")", "{", "}", "[", "]", "[AND]", "[OR]", "[XOR]", " [AND] ", " [OR] ", " [XOR] ", ",", " ", " ", "1", "2", "x", "word", "p",
  "[type=x]", "[", "]", "((", "))", "{{", "}}", "\n", "\t", "|", "\"", "'", "\\", "é", "字", "[NOT]", "[and]", "()"]

def genTokenString (maxTokens : Nat) : G String := do
  let n ← range 1 maxTokens
  let ts ← listOf n (pickA tokens)
  pure ("".intercalate ts)

/-- token-level mutation of a valid statement: delete / duplicate / insert / splice -/
def mutate (s : String) (other : String) : G String := do
  let cs := s.toList
  let k ← below 5
  let i ← below (cs.length + 1)
  match k with
  | 0 => pure (String.ofList (cs.take i ++ cs.drop (i + 1)))
  | 1 => do
    let t ← pickA tokens
    pure (String.ofList (cs.take i) ++ t ++ String.ofList (cs.drop i))
  | 2 => do
    let len ← range 1 12
    pure (String.ofList (cs.take i ++ (cs.drop i).take len ++ cs.drop i))
  | 3 => do
    let j ← below (other.length + 1)
    pure (String.ofList (cs.take i) ++ String.ofList (other.toList.drop j))
  | _ => do
    -- swap a bracket kind
    let swap := fun c => if c = '(' then '{' else if c = '}' then ')' else if c = '[' then '(' else c
    pure (String.ofList (cs.take i ++ (cs.drop i).map swap))

/-- structural mutation on the AST: hollow out one braced or parenthesised construct (replace a
    nested statement, a combination operand or a pair group by plain text, nothing, or a lone
    symbol; empty a component) -/
def hollowStmt : G Stmt := do
  let r ← below 4
  pure (match r with
    | 0 => .mk [.filler "some text".toList]
    | 1 => .mk []
    | 2 => .mk [.filler "A".toList]
    | _ => .mk [.ann { sym := Sym.A } true (.leaf [])])

mutual
partial def hollowS (s : Stmt) : G Stmt := do
  let ps := s.parts
  if ps.isEmpty then return s
  let i ← below ps.length
  let mut out : List Part := []
  for (p, j) in ps.zipIdx do
    if j = i then out := out ++ [← hollowP p] else out := out ++ [p]
  pure (.mk out)
partial def hollowP (p : Part) : G Part := do
  match p with
  | .ann h o e => if (← chance 1 2) then pure (.ann h o (.leaf [])) else pure (.ann h o e)
  | .nested h s => if (← chance 1 2) then pure (.nested h (← hollowStmt)) else pure (.nested h (← hollowS s))
  | .ncomb h t => pure (.ncomb h (← hollowN t))
  | .pairs t => pure (.pairs (← hollowG t))
  | q => pure q
partial def hollowN (t : NTree) : G NTree := do
  match t with
  | .one h s => if (← chance 2 3) then pure (.one h (← hollowStmt)) else pure (.one h (← hollowS s))
  | .op o l r => if (← chance 1 2) then pure (.op o (← hollowN l) r) else pure (.op o l (← hollowN r))
partial def hollowG (t : GTree) : G GTree := do
  match t with
  | .grp s => if (← chance 1 2) then pure (.grp (← hollowStmt)) else pure (.grp (← hollowS s))
  | .op o l r => if (← chance 1 2) then pure (.op o (← hollowG l) r) else pure (.op o l (← hollowG r))
end

def convArgs (text : String) (v : Nat) : Json :=
  Json.mkObj [("text", (text : Json)), ("id", ("1" : Json)), ("orig", ("o" : Json)),
    ("ext", ((v % 2 = 1 : Bool) : Json)), ("ann", (((v / 2) % 2 = 1 : Bool) : Json)), ("dyn", (((v / 4) % 8 = 7 : Bool) : Json)),
    ("fmt", ((if (v / 32) % 2 = 1 then "gs" else "csv") : Json)), ("hdr", (true : Json)),
    ("flat", (((v / 4) % 2 = 1 : Bool) : Json)), ("bin", (((v / 8) % 2 = 1 : Bool) : Json)), ("ac", (((v / 16) % 2 = 1 : Bool) : Json)),
    ("dov", (((v / 64) % 2 = 1 : Bool) : Json))]

def genC10Cases (tier : String) (seed : Nat) : Array Case := Id.run do
  let n := if tier = "thorough" then 20000 else 1200
  let mut out : Array Case := #[]
  let mut rng : Rng := ⟨UInt64.ofNat (seed * 217645177 + 41)⟩
  let mut prev := "A(actor) I(act)"
  for i in [0:n] do
    let (v, r0) := below 128 rng
    rng := r0
    let kind := i % 5
    if kind = 4 then
      let (s, r1) := (if i % 2 = 0 then genNested { depth := 2, pairs := true, propCombos := true } else genSupC02 2) rng
      let (h, r2) := hollowS s r1
      rng := r2
      if rowBound s > 512 then continue
      out := out.push { id := s!"c10-h{i}", op := "conv", args := convArgs (String.ofList (renderS h)) v, tag := "hollowed-statement" }
    else if kind = 0 then
      let (t, r1) := genTokenString (if i % 8 = 0 then 120 else 30) rng
      rng := r1
      out := out.push { id := s!"c10-t{i}", op := "conv", args := convArgs t v, tag := "token-string" }
    else if kind = 1 then
      let (s, r1) := (if i % 3 = 0 then genNested { depth := 2, pairs := true } else genSupC02 2) rng
      rng := r1
      if rowBound s > 512 then continue
      let base := String.ofList (renderS s)
      let (m, r2) := mutate base prev rng
      rng := r2
      prev := base
      out := out.push { id := s!"c10-m{i}", op := "conv", args := convArgs m v, tag := "mutated-statement" }
    else if kind = 2 then
      let (s, r1) := genNested { depth := 2, pairs := true, propCombos := true } rng
      rng := r1
      if rowBound s > 512 then continue
      out := out.push { id := s!"c10-g{i}", op := "conv", args := convArgs (String.ofList (renderS s)) v, tag := "grammar-statement" }
    else
      -- two mutations
      let (s, r1) := genC01 { suffixes := true, maxDepth := 3 } rng
      rng := r1
      if rowBound s > 512 then continue
      let base := String.ofList (renderS s)
      let (m1, r2) := mutate base prev rng
      let (m2, r3) := mutate m1 base r2
      rng := r3
      out := out.push { id := s!"c10-d{i}", op := "conv", args := convArgs m2 v, tag := "double-mutation" }
  pure out

/-- every call returns: no panic, no exit, no timeout -/
def judgeC10 (_c : Case) (o : ObsLine) : Verdict :=
  match o.st with
  | "ok" => .ok
  | "err" => .ok
  | other => .violation s!"conversion did not return normally ({other})" o.code

/-- C12: the same input five times in one process, and (via `fresh`) in a new process -/
def genC12Cases (tier : String) (seed : Nat) : Array Case := Id.run do
  let n := if tier = "thorough" then 1500 else 150
  let mut out : Array Case := #[]
  let mut rng : Rng := ⟨UInt64.ofNat (seed * 236887699 + 43)⟩
  for i in [0:n] do
    let (s, r1) := (match i % 4 with
      | 0 => genNested { depth := 1, pairs := true }
      | 1 => genSupC02 2
      | 2 => genNested { depth := 2, pairs := true, propCombos := true }
      | _ => genC01 { suffixes := true, maxDepth := 3 }) rng
    rng := r1
    let (s, kf) :=
      if i % 25 = 24 then
        -- open finding: several combinations of one component (wAND) as operand of another
        -- combination, dynamic output
        let s2 := Id.run do
          let mut best : Stmt := s
          for k in [0:40] do
            let (c, _) := genC01 { suffixes := false, maxDepth := 3, maxComps := 2, nestedMulti := true } ⟨UInt64.ofNat (seed * 91 + i * 41 + k)⟩
            if hasNestedMulti c && rowBound c ≤ 64 then
              best := c
              break
          pure best
        (s2, if hasNestedMulti s2 then "C12-wand-inside-combination-dynamic-output" else "")
      else (s, if wandBelowRoot s then "C12-wand-inside-combination-dynamic-output" else "")
    if rowBound s > 512 then continue
    let text := String.ofList (renderS s)
    let (v, r2) := below 128 rng
    rng := r2
    let v := if kf ≠ "" && i % 25 = 24 then 28 + (v / 32) * 32 else v     -- dynamic output on
    let a := (convArgs text v).setObjVal! "reps" (5 : Nat) |>.setObjVal! "fresh3" (i % 5 == 0 : Bool)
    out := out.push { id := s!"c12-{i}", op := "conv", args := a, tag := if kf ≠ "" then "wAND-inside-combination" else if i % 5 = 0 then "5-reps+3-processes" else "5-reps",
                      note := Json.mkObj [("kf", (kf : Json))] }
  -- several constructs of one kind side by side (their order of attachment must not depend on
  -- anything but the text): repeated more often, in one process and in fresh ones
  let sides : List String := [
    "A(officer) I(acts) Cac{Cac{A(a) I(b)} [OR] Cac{A(c) I(d)}} Cac{Cac{A(e) I(f)} [AND] Cac{A(g) I(h)}}",
    "A(officer) I(acts) Cex{Cex{A(a) I(b)} [XOR] Cex{A(c) I(d)}} Cex[kind=x]{Cex{A(e) I(f)} [OR] Cex{A(g) I(h)}} Bdir(thing)",
    "A(x) I(y) Bdir{A(officer) I(acts) Cac{Cac{A(a) I(b)} [OR] Cac{A(c) I(d)}} Cac{Cac{A(e) I(f)} [AND] Cac{A(g) I(h)}}}",
    "A(inspector) D(may) I(review) Bdir(records) Bdir,p{Bdir,p{E(records) F(are) P(complete)} [XOR] Bdir,p{E(records) F(are) P(audited)}}",
    "A(actor) I(act) Bind,p{Bind,p{A(a) I(b)} [OR] Bind,p{A(c) I(d)}} Bind(someone) P,p{P,p{A(e) I(f)} [AND] P,p{A(g) I(h)}} P(part)",
    "A(actor) I(act) Cac{A(a) I(b)} Cac{A(c) I(d)} Cac{A(e) I(f)} Bdir{A(g) I(h)} Bdir{A(i) I(j)}",
    "A1(x) A1,p(p1) A1,p(p2) A1,p(p3) A2(y) A2,p(q1) A2,p(q2) I(act) A,p(shared one) A,p(shared two)",
    -- several parenthesised groups on one level of a component, with and without operators: which group the
    -- shared text of a combination is read from must not depend on the order a map is walked in (seeded change C12-J)
    "A(Operators) D(must) I(report) Bdir(incidents) Cex((in writing) (within (7 days [OR] one week)))",
    "A(x) I(y) Bdir((first) (second) (left (a [AND] b) right) (third))",
    "A(x) I(y) Cac((one (a [OR] b)) plain (two (c [AND] d)) (three))",
    "A(x) I(y) Bdir{A(p) I(q) Cex((in writing) (by post) (within (7 days [OR] one week) at most))}",
    "A(x) I(y) Cex((early) (late) (before (noon [XOR] dusk)) (after (dawn [XOR] nine)))"]
  let mut k := 0
  for t in sides do
    for v in [0, 4, 28] do
      let a := (convArgs t v).setObjVal! "reps" (16 : Nat) |>.setObjVal! "fresh3" (true : Bool)
      out := out.push { id := s!"c12-side{k}-{v}", op := "conv", args := a, tag := "side-by-side-16-reps+3-processes",
                        note := Json.mkObj [("kf", ("" : Json))] }
    k := k + 1
  pure out

def judgeC12 (_c : Case) (o : ObsLine) : Verdict :=
  match o.st with
  | "ok" =>
    let same := (o.obs.getObjValAs? Bool "same").toOption.getD false
    let fsame := (o.obs.getObjValAs? Bool "freshSame").toOption.getD true
    if !same then .violation "repeated conversion of the same input in one process gave different output" o.obs.compress
    else if !fsame then .violation "a freshly started process gave different output for the same input" o.obs.compress
    else .ok
  | other => .crash s!"{other}: {o.code}"

end Drv
