import Driver.Core
import IGVerif.Model.Vis
import IGVerif.Spec.Shape
namespace Drv
open Lean IGVerif

def visOptsOfNat (v : Nat) : Vis.VOpts :=
  { flat := v % 2 = 1, bin := (v / 2) % 2 = 1, ac := (v / 4) % 2 = 1, ann := (v / 8) % 2 = 1, dov := (v / 16) % 2 = 1 }

def visArgs (text : String) (o : Vis.VOpts) : Json :=
  Json.mkObj [("text", (text : Json)), ("id", ("1" : Json)), ("flat", (o.flat : Json)), ("bin", (o.bin : Json)),
    ("ac", (o.ac : Json)), ("ann", (o.ann : Json)), ("dov", (o.dov : Json)), ("withparse", (true : Json))]

def visCase (id tag : String) (s : Stmt) (v : Nat) : Case :=
  let o := visOptsOfNat v
  let text := String.ofList (renderS s)
  { id := id, op := "vis", args := visArgs text o,
    exp := Json.str (String.ofList (Vis.visTop o (denoteTop s))), tag := tag,
    note := Json.mkObj [("kf", ((if supported s then "" else "C02-regex-shape") : Json)), ("v", (v : Json))] }

def optsOfArgs (a : Json) : Vis.VOpts :=
  let b := fun k => (a.getObjValAs? Bool k).toOption.getD false
  { flat := b "flat", bin := b "bin", ac := b "ac", ann := b "ann", dov := b "dov" }

/-- model evaluated on the implementation's own parse -/
def visExpOnImplParse (c : Case) (o : ObsLine) : Option String :=
  match o.obs.getObjVal? "parse" with
  | .ok pj =>
    match pj.getObjVal? "nodes" with
    | .ok (.arr #[n]) =>
      match nodeOfJson n with
      | .ok pn => some (String.ofList (Vis.visTop (optsOfArgs c.args) pn))
      | .error _ => none
    | _ => none
  | _ => none

def judgeVis (onImplParse : Bool) (c : Case) (o : ObsLine) : Verdict :=
  match o.st with
  | "ok" =>
    let got := (o.obs.getObjValAs? String "out").toOption.getD ""
    let valid := (o.obs.getObjValAs? Bool "json").toOption.getD false
    let exp := if onImplParse then (visExpOnImplParse c o).getD ((c.exp.getStr?).toOption.getD "") else (c.exp.getStr?).toOption.getD ""
    if !valid then .violation "visual output is not valid JSON" got
    else if got ≠ exp then .disagree "visual output" exp got
    else .ok
  | "err" => .disagree "rejected" "" ("ERR " ++ o.code)
  | _ => .crash s!"{o.st}: {o.code}"

def genVisCases (tier : String) (seed : Nat) (tagp : String) : Array Case := Id.run do
  let n := if tier = "thorough" then 400 else 24
  let mut out : Array Case := #[]
  let mut rng : Rng := ⟨UInt64.ofNat (seed * 49979687 + 11)⟩
  for i in [0:n] do
    let (s, rng') :=
      if i % 3 = 0 then genC01 { suffixes := false, maxDepth := 2, maxComps := 5 } rng
      else if i % 3 = 1 then genSupC02 2 rng
      else genNested { depth := 1, pairs := true } rng
    rng := rng'
    let kind := if i % 3 = 0 then "simple" else if i % 3 = 1 then "nested" else "pairs"
    for v in [0:32] do
      out := out.push (visCase s!"{tagp}-{i}-{v}" kind s v)
  pure out

end Drv
