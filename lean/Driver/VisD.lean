import Driver.Core
import IGVerif.Model.Vis
import IGVerif.Spec.Shape
import Driver.GenSup
import Driver.C16
namespace Drv
open Lean IGVerif

def visOptsOfNat (v : Nat) : Vis.VOpts :=
  { flat := v % 2 = 1, bin := (v / 2) % 2 = 1, ac := (v / 4) % 2 = 1, ann := (v / 8) % 2 = 1, dov := (v / 16) % 2 = 1 }

def visArgs (text : String) (o : Vis.VOpts) : Json :=
  Json.mkObj [("text", (text : Json)), ("id", ("1" : Json)), ("flat", (o.flat : Json)), ("bin", (o.bin : Json)),
    ("ac", (o.ac : Json)), ("ann", (o.ann : Json)), ("dov", (o.dov : Json)), ("withparse", (true : Json))]

def visCase (id tag : String) (s : Stmt) (v : Nat) : Case :=
  let o := visOptsOfNat v
  let text := String.ofList (renderS s)
  { id := id, op := "vis", args := visArgs text o,
    exp := Json.str (String.ofList (Vis.visTop o (denoteLinked s))), tag := tag,
    note := Json.mkObj [("kf", ((if supported s then "" else "C02-regex-shape") : Json)), ("v", (v : Json))] }

def optsOfArgs (a : Json) : Vis.VOpts :=
  let b := fun k => (a.getObjValAs? Bool k).toOption.getD false
  { flat := b "flat", bin := b "bin", ac := b "ac", ann := b "ann", dov := b "dov" }

/-- model evaluated on the implementation's own parse -/
def visExpOnImplParse (c : Case) (o : ObsLine) : Option String :=
  match o.obs.getObjVal? "parse" with
  | .ok pj =>
    match pj.getObjVal? "nodes" with
    | .ok (.arr #[n]) =>
      match nodeOfJson n with
      | .ok pn => some (String.ofList (Vis.visTop (optsOfArgs c.args) pn))
      | .error _ => none
    | _ => none
  | _ => none

/-- the component field a property field belongs to (indices of `tree.Statement`) -/
def propBaseField (f : Nat) : Option Nat :=
  [(1, 0), (2, 0), (7, 5), (8, 5), (11, 9), (12, 9), (14, 13), (15, 13), (20, 18), (21, 18)].lookup f

/-- texts of property fields whose component has no value of its own in the same statement
    (the printer hangs properties below the values of their component), on every level -/
partial def unprintableProps : PNode → List String
  | .stmt _ fs =>
    let own := fs.flatMap fun (f, n) =>
      match propBaseField f with
      | some b => if fs.any (fun p => p.1 = b) then [] else leafTextsOf n ++ privTextsOf n
      | none => []
    own ++ fs.flatMap (fun p => unprintableProps p.2)
  | .comb _ _ _ _ priv l r => unprintableProps l ++ unprintableProps r ++ priv.flatMap unprintableProps
  | .leaf _ _ _ _ priv => priv.flatMap unprintableProps
  | .pairs _ ns => ns.flatMap unprintableProps
  | .empty => []

def plainText (t : String) : Bool := !t.isEmpty && t.all (fun c => c.isAlphanum || c = ' ')

/-- every value of the parsed statement occurs in the visual tree (values with characters the
    JSON escaping touches are left to the byte-exact comparison) -/
def missingValues (c : Case) (o : ObsLine) (got : String) : Option (List String × List String) :=
  match o.obs.getObjVal? "parse" with
  | .ok pj =>
    match pj.getObjVal? "nodes" with
    | .ok (.arr #[n]) =>
      match nodeOfJson n with
      | .ok pn =>
        let all := (leafTextsOf pn ++ privTextsOf pn).filter plainText
        let missing := all.filter (fun t => (got.splitOn t).length < 2)
        if missing.isEmpty then none else some (missing, unprintableProps pn)
      | .error _ => none
    | _ => none
  | _ => none

def judgeVis (onImplParse : Bool) (c : Case) (o : ObsLine) (valuesOracle : Bool := false) : Verdict :=
  match o.st with
  | "ok" =>
    let got := (o.obs.getObjValAs? String "out").toOption.getD ""
    let valid := (o.obs.getObjValAs? Bool "json").toOption.getD false
    let exp := if onImplParse then (visExpOnImplParse c o).getD ((c.exp.getStr?).toOption.getD "") else (c.exp.getStr?).toOption.getD ""
    if !valid then .violation "visual output is not valid JSON" got
    else if got ≠ exp then .disagree "visual output" exp got
    else
      -- the printer agrees with the model on the implementation's parse; for statements of the
      -- supported class the output must also be the one of the documented meaning
      let spec := (c.exp.getStr?).toOption.getD ""
      let kf := (c.note.getObjValAs? String "kf").toOption.getD ""
      if onImplParse && kf = "" && spec ≠ "" && got ≠ spec then .disagree "visual output differs from the tree of the documented meaning" spec got
      else
        match (if onImplParse && valuesOracle then missingValues c o got else none) with
        | none => .ok
        | some (missing, unprintable) =>
          -- known: properties of a component that has no value of its own are not printed
          if missing.all (fun t => unprintable.contains t) then
            .violation "[kf:C09-properties-of-component-without-own-value] a value of the parsed statement is missing from the visual tree"
              s!"{missing} (properties of a component without a value of its own)"
          else .violation "[new] a value of the parsed statement is missing from the visual tree" s!"{missing}"
  | "err" => .disagree "rejected" "" ("ERR " ++ o.code)
  | _ => .crash s!"{o.st}: {o.code}"

def genVisCases (tier : String) (seed : Nat) (tagp : String) : Array Case := Id.run do
  let n := if tier = "thorough" then 400 else 24
  let mut out : Array Case := #[]
  let mut rng : Rng := ⟨UInt64.ofNat (seed * 49979687 + 11)⟩
  for i in [0:n] do
    let (s, rng') :=
      if i % 8 = 7 then
        -- a component with simple properties and two nested property statements (the complex
        -- property field is a combination of statements), with annotations on the properties
        (do
          let g : GS Stmt := do
            let (c, pr) ← liftG (pick [(Sym.A, Sym.Ap), (Sym.Bdir, Sym.Bdirp), (Sym.Bind, Sym.Bindp)])
            -- operator-free inner statements when an operator is written between them (class
            -- `supported`); otherwise the inner statements may carry combinations with shared text
            let opw ← liftG (pick [none, some "[AND]", some "[OR]", some "[XOR]"])
            let one ← liftG (chance 1 2)     -- a single nested property statement, with combinations and shared text inside
            let dpt := if one then 2 else 0
            let i1 ← genFlatParts (← liftG (range 1 3)) dpt
            let i2 ← genFlatParts (← liftG (range 1 2)) dpt
            let mid : List Part := match opw with | some w => [Part.filler w.toList] | none => []
            let other ← genFlatParts 1 1 [c, pr]
            if one then
              return (Stmt.mk ([Part.ann { sym := c, anno := some "role=x".toList } true (.leaf (← genText)),
                Part.ann { sym := pr, anno := some "prop=q".toList } true (.leaf (← genText))] ++ other ++
                [Part.nested { sym := pr, anno := some "ctx=y".toList } (Stmt.mk i1)]))
            pure (Stmt.mk ([Part.ann { sym := c, anno := some "role=x".toList } true (.leaf (← genText)),
              Part.ann { sym := pr, anno := some "prop=q".toList } true (.leaf (← genText))] ++ other ++
              [Part.nested { sym := pr, anno := some "ctx=y".toList } (Stmt.mk i1)] ++ mid ++ [Part.nested { sym := pr } (Stmt.mk i2)]))
          let (s, _) ← g.run 0
          pure s) rng
      else if i % 8 = 3 then
        -- private (suffix-linked) properties, at top level and inside a nested statement
        (do
          let top ← genC16Stmt true
          let inner ← genC16Stmt false
          let ok := kfC16 top = "" && kfC16 inner = ""
          let s := if ok then Stmt.mk (top.parts ++ [Part.nested { sym := Sym.Cac } inner]) else Stmt.mk [Part.ann { sym := Sym.A } true (.leaf (str "x"))]
          pure s) rng
      else if i % 3 = 0 then genC01 { suffixes := false, maxDepth := 2, maxComps := 5 } rng
      else if i % 3 = 1 then genSupC02 2 rng
      else genNestedSup { depth := 1, pairs := true, nestedPairs := true, groupNested := true } rng
    rng := rng'
    let kind := if i % 8 = 7 then "nested-properties" else if i % 8 = 3 then "private-properties" else if i % 3 = 0 then "simple" else if i % 3 = 1 then "nested" else "pairs"
    for v in [0:32] do
      out := out.push (visCase s!"{tagp}-{i}-{v}" kind s v)
  pure out

/-- for every nesting-capable symbol: a plain nested statement and a nested-statement combination
    on it, next to the component it belongs to (properties: the component they qualify) -/
def perSymbolVisCases (tagp : String) : Array Case := Id.run do
  let mut out : Array Case := #[]
  let mut k := 0
  for x in Sym.nestables do
    let inner := fun (t : String) => Stmt.mk [Part.ann { sym := Sym.A } true (.leaf (t ++ " actor").toList), Part.ann { sym := Sym.I } true (.leaf (t ++ " aim").toList)]
    let baseName := if x.isProperty then x.name.take (x.name.length - 2) else x.name
    let host : List Part := match Sym.simples.find? (fun (y : Sym) => y.name = baseName) with
      | some y => [Part.ann { sym := y } true (.comb .AND (.leaf (str "value one")) (.leaf (str "value two")))]
      | none => []
    let s1 := Stmt.mk ([Part.ann { sym := Sym.D } true (.leaf (str "must"))] ++ host ++ [Part.nested { sym := x } (inner "single")])
    let s2 := Stmt.mk ([Part.ann { sym := Sym.D } true (.leaf (str "must"))] ++ host ++
      [Part.ncomb { sym := x } (.op .XOR (.one { sym := x } (inner "left")) (.one { sym := x } (inner "right")))])
    for v in [2, 3, 16] do
      out := out.push (visCase s!"{tagp}-sym{k}-a{v}" "per-symbol" s1 v)
      out := out.push (visCase s!"{tagp}-sym{k}-b{v}" "per-symbol" s2 v)
    k := k + 1
  pure out

/-- every component/property pair that supports private (suffix-linked) properties, including
    the aim with its execution constraint: a private and a shared property, single-valued and
    as a combination, in tree and flat mode -/
def perPairPrivateVisCases (tagp : String) : Array Case := Id.run do
  let mut out : Array Case := #[]
  let mut k := 0
  for (cs, ps) in compPropPairs do
    let other : Part := if cs.name = str "I" then .ann { sym := Sym.A } true (.leaf (str "actor"))
                        else .ann { sym := Sym.I } true (.leaf (str "acts"))
    let s1 := Stmt.mk [.ann { sym := cs, sfx := some ['1'] } true (.leaf (str "first value")),
                       .ann { sym := ps, sfx := some ['1'] } true (.leaf (str "private text")),
                       .ann { sym := cs, sfx := some ['2'] } true (.leaf (str "second value")),
                       .ann { sym := ps } true (.leaf (str "shared text")), other]
    let s2 := Stmt.mk [.ann { sym := cs, sfx := some ['1'] } true (.comb .OR (.leaf (str "value a")) (.leaf (str "value b"))),
                       .ann { sym := ps, sfx := some ['1'] } true (.comb .AND (.leaf (str "private x")) (.leaf (str "private y"))), other]
    for v in [0, 1, 2, 3, 10, 17] do
      out := out.push (visCase s!"{tagp}-pp{k}-a{v}" "per-pair-private" s1 v)
      out := out.push (visCase s!"{tagp}-pp{k}-b{v}" "per-pair-private" s2 v)
    k := k + 1
  pure out

/-- texts that stress the JSON string escaping, one special character class per text -/
def hostileVisTexts : Array String := #["plain", "", " ", "back\\slash", "C:\\Users\\records", "trailing\\", "say \"hi\"", "tab\there", "line\nbreak",
  "cr\rx", "crlf\r\nx", "bell\x07x", "esc\x1b[0m", "del\x7fx", "sep\u2028x", "ünï çødé 字 😀", "<script>alert(1)</script>", "100% %s %d",
  "a/b", "'apostrophe", "mixed \\ \" \t"]

def hostileVisAnn : Array String := #["type=x", "k=\"v\"", "path=C:\\x", "a=b,c=d"]

/-- visual cases whose texts, annotations, properties and nested values carry hostile characters -/
def genVisHostile (tier : String) (seed : Nat) (tagp : String) : Array Case := Id.run do
  let n := if tier = "thorough" then 600 else 60
  let mut out : Array Case := #[]
  let mut rng : Rng := ⟨UInt64.ofNat (seed * 86028121 + 13)⟩
  for i in [0:n] do
    let (t1, r1) := pickA hostileVisTexts rng
    let (t2, r2) := pickA hostileVisTexts r1
    let (t3, r3) := pickA hostileVisTexts r2
    let (an, r4) := pickA hostileVisAnn r3
    let (shape, r5) := below 10 r4
    let (v, r6) := below 32 r5
    rng := r6
    let text :=
      match shape with
      | 0 => s!"A({t1}) I(({t2} [AND] {t3}))"
      | 1 => s!"A[{an}]({t1}) D(must) I({t2}) Cac[{an}]" ++ "{" ++ s!"A(b) I({t3})" ++ "}"
      | 2 => s!"A({t1}) " ++ "{" ++ s!"I({t2}) [XOR] I({t3})" ++ "}" ++ " Bdir(x)"
      | 3 => s!"A1({t1}) A1,p[{an}]({t2}) I({t3}) Bdir,p(p) Bdir(({t1} {t2} [OR] y) z)"
      | 5 => s!"A(actor) I(review) Bdir({t1} (plans [AND] programs) {t2}) Cex((a [OR] b) {t3} (c [XOR] d))"
      | 6 => s!"A(actor) D({t1}) I(act) Cac" ++ "{" ++ s!"A(other) D({t2}) I(acts)" ++ "}"
      -- several private properties of one component, one of them a nested statement (flat
      -- printing flattens the nested statement into the label of the value)
      | 7 => s!"E(notification) F(states) P1(date) P1,p({t1}) P1,p" ++ "{" ++ s!"E(date) F(is {t2}) P({t3})" ++ "}"
      | 8 => s!"A1(actor) A1,p({t1}) A1,p" ++ "{" ++ s!"A(who) I(holds) Bdir({t2})" ++ "}" ++ s!" A1,p" ++ "{" ++ s!"A({t3}) I(is)" ++ "}" ++ " I(acts)"
      | 9 => s!"Bdir1(object) Bdir1,p" ++ "{" ++ s!"A({t1}) I({t2})" ++ "}" ++ s!" Bdir,p" ++ "{" ++ s!"A(x) I({t3})" ++ "}" ++ " A(a) I(i)"
      | _ => s!"A({t1}) A,p" ++ "{" ++ s!"A({t2}) I({t3})" ++ "}" ++ s!" I(acts) Bdir1,p({t2}) Bdir1(o1) Bdir(o2)"
    let o := visOptsOfNat v
    out := out.push { id := s!"{tagp}-h{i}", op := "vis", args := visArgs text o, exp := Json.null, tag := "hostile",
                      note := Json.mkObj [("kf", ("" : Json)), ("v", (v : Json)), ("hostile", (true : Json))] }
  pure out

/-- hostile cases: a rejection is no claim of success; successful output must be valid JSON
    and equal to the model evaluated on the implementation's own parse -/
def judgeVisAny (c : Case) (o : ObsLine) : Verdict :=
  if (c.note.getObjValAs? Bool "hostile").toOption.getD false then
    match o.st with
    | "err" => .ok
    | "ok" =>
      let got := (o.obs.getObjValAs? String "out").toOption.getD ""
      let valid := (o.obs.getObjValAs? Bool "json").toOption.getD false
      if !valid then .violation "visual output is not valid JSON" got
      else match visExpOnImplParse c o with
        | some exp => if got ≠ exp then .disagree "visual output" exp got else .ok
        | none => .disagree "visual output" "(implementation parse unreadable)" got
    | _ => .crash s!"{o.st}: {o.code}"
  else judgeVis true c o

end Drv

namespace Drv
open Lean IGVerif

/-! ### oracles on the implementation's JSON (C09, C17, C20) -/

/-- (component, name, level) of every leaf value object of a visual document, in order -/
partial def jsonEntries (j : Json) : List (String × String × Nat) :=
  let kids := match j.getObjVal? "children" with | .ok (.arr a) => a.toList | _ => []
  let self :=
    match j.getObjValAs? String "comp", j.getObjValAs? String "name", j.getObjValAs? Nat "level" with
    | .ok c, .ok n, .ok l =>
      -- a value object: has `comp`; operator objects also have comp but their name is an operator
      -- and they have children that are not property children
      if (j.getObjVal? "children").toOption.isSome && (j.getObjVal? "pos").toOption.isNone then [] else [(c, n, l)]
    | _, _, _ => []
  self ++ kids.flatMap jsonEntries

partial def jsonAll (p : Json → Bool) (j : Json) : Bool :=
  p j && (match j.getObjVal? "children" with | .ok (.arr a) => a.all (jsonAll p) | _ => true)

/-- operator objects have exactly two children (binary mode) -/
def binaryOK (j : Json) : Bool :=
  jsonAll (fun n =>
    match n.getObjValAs? String "name", n.getObjVal? "children", n.getObjVal? "comp", n.getObjVal? "pos" with
    | .ok nm, .ok (.arr a), .ok _, .error _ => !(["AND", "OR", "XOR", "bAND", "wAND"].contains nm) || a.size = 2
    | _, _, _, _ => true) j

def hasMember (k : String) (j : Json) : Bool := (j.getObjVal? k).toOption.isSome

/-- C17 oracle over the 32 outputs of one statement (index = option vector) -/
def judgeC17Group (outs : Array (Nat × Json)) : Option String := Id.run do
  -- baseline: binary, tree properties, nothing else  (v = 2)
  let base := outs.find? (fun p => p.1 = 2)
  match base with
  | none => return some "baseline missing"
  | some (_, bj) =>
    let baseEntries := (jsonEntries bj).mergeSort (fun a b => toString a ≤ toString b)
    for (v, j) in outs do
      let o := visOptsOfNat v
      -- entries invariant under tree-property mode (flat mode turns property children into labels)
      if !o.flat then
        let e := (jsonEntries j).mergeSort (fun a b => toString a ≤ toString b)
        if e ≠ baseEntries then return some s!"entries differ under option vector {v}"
      if o.bin && !binaryOK j then return some s!"operator node without exactly two children under binary vector {v}"
      -- dov / anno members exactly when selected
      let anyDov := !(jsonAll (fun n => !(hasMember "dov" n)) j)
      if anyDov ≠ o.dov then return some s!"dov members present={anyDov} but option dov={o.dov} (vector {v})"
      let anyAnno := !(jsonAll (fun n => !(hasMember "anno" n)) j)
      if anyAnno && !o.ann then return some s!"anno member present although annotations are off (vector {v})"
    return none

def genC17Cases (tier : String) (seed : Nat) : Array Case := Id.run do
  let n := if tier = "thorough" then 300 else 24
  let mut out : Array Case := #[]
  let mut rng : Rng := ⟨UInt64.ofNat (seed * 67867967 + 23)⟩
  for i in [0:n] do
    let (s, rng') :=
      if i % 4 = 0 then genC01 { suffixes := false, maxDepth := 3, maxComps := 5 } rng
      else if i % 4 = 1 then genSupC02 2 rng
      else if i % 4 = 2 then genNestedSup { depth := 1, pairs := true, nestedPairs := true } rng
      else
        -- an annotated nested component whose statement contains a pair combination: the
        -- operator node over the expanded statements carries the component's annotation
        (do
          let g : GS Stmt := do
            let outer ← genFlatParts (← liftG (range 1 3)) 1
            let inner ← genFlatParts (← liftG (range 1 2)) 0
            let t ← genGTree {} (← liftG (range 2 3))
            let sym ← liftG (pick (Sym.nestables.filter (fun (s : Sym) => !s.isProperty)))
            let anno ← liftG (pick ["consequence=sanction", "ctx=y", "type=x"])
            pure (Stmt.mk (outer ++ [Part.nested { sym := sym, anno := some anno.toList } (Stmt.mk (inner ++ [Part.pairs t]))]))
          let (s, _) ← g.run 0
          pure s) rng
    rng := rng'
    for v in [0:32] do
      out := out.push (visCase s!"c17-{i}-{v}" (#["simple", "nested", "pairs", "pairs-inside-nested"].getD (i % 4) "") s v)
  pure out

/-- DoV: the statement total and every node label against the recurrence -/
def genC20Cases (tier : String) (seed : Nat) : Array Case := Id.run do
  let n := if tier = "thorough" then 1500 else 120
  let mut out : Array Case := #[]
  let mut rng : Rng := ⟨UInt64.ofNat (seed * 122949829 + 29)⟩
  for i in [0:n] do
    let (s, rng') :=
      if i % 3 = 0 then genSupC02 3 rng
      else genC01 { suffixes := false, maxDepth := 4, maxComps := 6 } rng
    rng := rng'
    -- dov on, binary, tree properties; and dov on, collapsed, flat
    out := out.push (visCase s!"c20-{i}-a" "dov-binary" s 18)
    out := out.push (visCase s!"c20-{i}-b" "dov-collapsed-flat" s 17)
  pure out

end Drv
