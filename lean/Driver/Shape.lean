import IGVerif.Spec.Symbols
/-! Shape features of a statement AST: for every braced part, the chain of enclosing braced
    constructs (`n` nested statement, `c` nested-statement combination operand, `g` pair group),
    with `!` when the part is not the last non-filler part of its statement. -/
namespace Drv
open IGVerif

def Part.isFiller : Part → Bool
  | .filler _ => true
  | _ => false

mutual
partial def chainsS (ctx : String) (s : Stmt) : List String :=
  let ps := s.parts.filter (fun p => !Part.isFiller p)
  let n := ps.length
  (ps.zipIdx.flatMap fun (p, i) => chainsP ctx (i + 1 == n) p)
partial def chainsP (ctx : String) (last : Bool) (p : Part) : List String :=
  let mark := if last then "" else "!"
  match p with
  | .nested h s => let c := ctx ++ ">n" ++ mark ++ (if h.sym.isProperty then "p" else ""); c :: chainsS c s
  | .ncomb h t => let c := ctx ++ ">C" ++ mark ++ (if h.sym.isProperty then "p" else ""); c :: chainsN c t
  | .pairs t => let c := ctx ++ ">G" ++ mark; c :: chainsG c t
  | _ => []
partial def chainsN (ctx : String) (t : NTree) : List String :=
  match t with
  | .one _ s => chainsS (ctx ++ ">c") s
  | .op _ l r => chainsN ctx l ++ chainsN ctx r
partial def chainsG (ctx : String) (t : GTree) : List String :=
  match t with
  | .grp s => chainsS (ctx ++ ">g") s
  | .op _ l r => chainsG ctx l ++ chainsG ctx r
end

def shapeChains (s : Stmt) : List String := (chainsS "" s).eraseDups

end Drv
