import Driver.C16
import Driver.TabOracle
import Driver.VisD
/-! C16 at the level of the two exports: the statements of the C16 generator are also exported
    (tabular: IG Extended and IG Core; visual: tree and flat properties, with annotations). -/
namespace Drv
open Lean IGVerif

def judgeC16 (c : Case) (o : ObsLine) : Verdict :=
  match c.op with
  | "parse" => judgeParse c o
  | "tab" => judgeTabWith ["C05", "C06"] c o
  | "vis" => judgeVis true c o
  | _ => .ok

def genC16AllCases (tier : String) (seed : Nat) : Array Case := Id.run do
  let base := genC16Cases tier seed
  let n := if tier = "thorough" then 600 else 60
  let mut out := base
  let mut rng : Rng := ⟨UInt64.ofNat (seed * 295075153 + 61)⟩
  for i in [0:n] do
    let (s, r1) := genC16Stmt (i % 2 = 0) rng
    rng := r1
    let kf := kfC16 s
    let text := withSecondarySuffix (String.ofList (renderS s)) i
    let root := denoteLinked s
    for (ext, sfx) in [(true, "x"), (false, "c")] do
      let o : Tab.Opts := { ext := ext, ann := i % 2 = 1, gs := i % 4 = 0 }
      let c : Case := { id := s!"c16-t{i}{sfx}", op := "tab", args := tabArgs text "7" o,
                        exp := rowsToJson (Tab.exportAll o root (str "7")), tag := "tabular-" ++ (if ext then "extended" else "core"),
                        note := Json.mkObj [("kf", (kf : Json))] }
      out := out.push c
    for v in [2, 3, 10, 9] do
      let vo := visOptsOfNat v
      let c : Case := { id := s!"c16-v{i}-{v}", op := "vis", args := visArgs text vo,
                        exp := Json.str (String.ofList (Vis.visTop vo root)), tag := "visual",
                        note := Json.mkObj [("kf", (kf : Json)), ("v", (v : Json))] }
      out := out.push c
  pure out

end Drv
