import Driver.VisD
import Driver.TabOracle
/-! Judges over groups of cases (one statement under several option sets). -/
namespace Drv
open Lean IGVerif

def mkGroupViolation (c : Case) (what detail : String) : Json :=
  Json.mkObj [("id", (c.id : Json)), ("what", (what : Json)), ("op", (c.op : Json)), ("a", c.args),
    ("detail", (detail : Json)), ("tag", (c.tag : Json)), ("kf", (c.note.getObjVal? "kf").toOption.getD ("" : Json))]

/-- group key: case id without its last `-`-separated component -/
def groupKey (id : String) : String :=
  "-".intercalate ((id.splitOn "-").dropLast)

def groupBy (cases : Array Case) (obs : Array ObsLine) (key : Case → String) : List (String × List (Case × ObsLine)) := Id.run do
  let mut m : Std.HashMap String (List (Case × ObsLine)) := {}
  let mut order : Array String := #[]
  for i in [0:cases.size] do
    match obs[i]? with
    | some o =>
      let c := cases[i]!
      if o.id = c.id then
        let k := key c
        if !m.contains k then order := order.push k
        m := m.insert k ((m.getD k []) ++ [(c, o)])
    | none => pure ()
  pure (order.toList.map fun k => (k, m.getD k []))

/-- C17: the 32 outputs of one statement -/
def groupJudgeC17 (cases : Array Case) (obs : Array ObsLine) : Array Json := Id.run do
  let mut out : Array Json := #[]
  for (_, g) in groupBy cases obs (fun c => groupKey c.id) do
    if g.length ≠ 32 then continue
    if !(g.all fun (_, o) => o.st = "ok") then continue
    let outs := g.filterMap fun (c, o) =>
      let v := (c.note.getObjValAs? Nat "v").toOption.getD 99
      match Json.parse ((o.obs.getObjValAs? String "out").toOption.getD "") with
      | .ok j => some (v, j)
      | .error _ => none
    if outs.length ≠ 32 then continue
    match judgeC17Group outs.toArray with
    | some d => match g.head? with
      | some (c, _) => out := out.push (mkGroupViolation c "display options change more than presentation" d)
      | none => pure ()
    | none => pure ()
  pure out

def isNestedId (id : String) : Bool := sStarts id "{"

def linkCols : List String := ["Logical Linkage (Components)", "Logical Linkage (Statements)"]

/-- C19: IG Extended (`…x`) and IG Core (`…c`) tables of one statement -/
def groupJudgeC19 (cases : Array Case) (obs : Array ObsLine) : Array Json := Id.run do
  let mut out : Array Json := #[]
  for (_, g) in groupBy cases obs (fun c => String.ofList (c.id.toList.dropLast)) do
    match g with
    | [(cx, ox), (_, oc)] =>
      if ox.st ≠ "ok" || oc.st ≠ "ok" then continue
      let rx := (obsGroups ox).flatten
      let rc := (obsGroups oc).flatten
      let topx := rx.filter (fun r => !isNestedId (cell r "Statement ID"))
      let nestx := rx.filter (fun r => isNestedId (cell r "Statement ID"))
      let prob : Option String :=
        if rc.any (fun r => isNestedId (cell r "Statement ID")) then some "IG Core output contains nested-statement rows"
        else if topx.length ≠ rc.length then some s!"top-level rows differ: extended {topx.length}, core {rc.length}"
        else
          let strip := fun (r : ORow) => r.filter (fun p => !sEnds p.1 "-Ref")
          match (topx.zip rc).find? (fun (a, b) => strip a ≠ strip b) with
          | some (a, b) => some s!"non-reference cells differ: extended {showRow (strip a)} core {showRow (strip b)}"
          | none =>
            -- every extended reference cell names nested groups; every core reference cell carries text
            let refsX := topx.flatMap (fun r => r.filter (fun p => sEnds p.1 "-Ref"))
            let refsC := rc.flatMap (fun r => r.filter (fun p => sEnds p.1 "-Ref"))
            if refsX.map (·.1) ≠ refsC.map (·.1) then some "reference cells are filled in different columns"
            else if nestx.isEmpty ≠ refsX.isEmpty then some s!"nested row groups {nestx.length} vs reference cells {refsX.length}"
            else
              -- one row group per nested statement: every id in an extended reference cell heads a group
              let ids := nestx.map (fun r => cell r "Statement ID")
              match (refsX.flatMap (fun p => (p.2.splitOn ",").map sTrim)).find? (fun t => sStarts t "{" && !(resolves ids t)) with
              | some t => some s!"extended reference {t} has no row group"
              | none =>
                -- core text contains every value of the nested statements
                let coreText := " ".intercalate (refsC.map (·.2))
                -- the values: leaf texts (and private values) of the nested statements in the
                -- implementation's own parse; without a parse, the cells of the nested rows
                let fromParse : Option (List String) :=
                  match (ox.obs.getObjVal? "parse").toOption.bind (fun pj => (pj.getObjVal? "nodes").toOption) with
                  | some (.arr #[n]) =>
                    (match nodeOfJson n with
                     | .ok pn =>
                       let tops := Tab.topStmts pn []
                       some (tops.flatMap fun (fs, _) => fs.flatMap fun (i, node) =>
                         if Tab.isComplexField i then (leafTextsOf node).map (fun t => "v:" ++ t) ++ (privTextsOf node).map (fun t => "p:" ++ t) else [])
                     | .error _ => none)
                  | _ => none
                -- values (`v:`) come first: a missing value of a component is never the known finding
                -- about private properties (`p:`)
                let vals := match fromParse with
                  | some vs => (vs.filter (fun v => sStarts v "v:") ++ vs.filter (fun v => sStarts v "p:")).map
                      (fun (v : String) => (v.take 2).toString ++ String.ofList (Tab.adjust false (v.drop 2).toString.toList))
                  | none =>
                    (nestx.flatMap fun (r : ORow) => r.filterMap fun ((k, v) : String × String) =>
                      if k = "Statement ID" || linkCols.contains k || sEnds k "-Ref" || k = "Statement Annotation" || sEnds k "(Annotation)" then none else some v).flatMap
                      fun (v : String) => (v.splitOn ",").map sTrim |>.filter (· ≠ "")
                let body := fun (v : String) => if sStarts v "v:" || sStarts v "p:" then sDrop v 2 else v
                match vals.find? (fun v => (coreText.splitOn (sTrim (body v))).length < 2) with
                | some v =>
                  if sStarts v "v:" then some s!"[new] value '{body v}' of a nested statement is missing from the IG Core cell text '{coreText}'"
                  else some s!"value '{body v}' of a nested statement is missing from the IG Core cell text '{coreText}'"
                | none => none
      match prob with
      | some d =>
        let j := mkGroupViolation cx "IG Core and IG Extended differ in more than the presentation of nested statements" d
        -- a failure marked `[new]` is not of the kind listed as known finding
        out := out.push (if sStarts d "[new]" then j.setObjVal! "kf" ("" : Json) else j)
      | none => pure ()
    | _ => pure ()
  pure out

def groupJudgeFor (prop : String) : Option (Array Case → Array ObsLine → Array Json) :=
  match prop with
  | "C17" => some groupJudgeC17
  | "C19" => some groupJudgeC19
  | _ => none

end Drv
