import Driver.C01
namespace Drv
open Lean IGVerif

/-- key that must keep its relative order: kind + symbol -/
def Part.orderKey : Part → String
  | .ann h _ _ => "a:" ++ String.ofList h.sym.name
  | .nested h _ => "n:" ++ String.ofList h.sym.name
  | .ncomb h _ => "n:" ++ String.ofList h.sym.name
  | .pairs _ => "p"
  | .filler _ => "f"

/-- random reordering of the parts that keeps parts with the same key in their order -/
def permuteKeepingTypes (ps : List Part) : G (List Part) := do
  let sh ← shuffle ps
  -- walk the shuffled list; at each position take the next unused original part with that key
  let mut used : List Nat := []
  let mut out : List Part := []
  for p in sh do
    let k := Part.orderKey p
    let cand := ps.zipIdx.find? (fun (q, i) => Part.orderKey q = k && !used.contains i)
    match cand with
    | some (q, i) => used := i :: used; out := q :: out
    | none => pure ()
  pure out.reverse

def lowerFillers : Array String := #["and", "then", "the", "if", "or else", ", ", "shall;", "in 2020", "provided that", ".",
  "42", "it is so:", "x-y", "e.g.", "under §5", "at 100%", "a/b", "#1", "~", "+", "& co", ":", "in the following cases:", "option one:", ";", "!", "*", "50%", "a=b", "@home", "£5", "`q`", "\"quoted\"", "it's"]

/-- punctuation and scripts outside the character class the parser's brace patterns accept
    (`SPECIAL_SYMBOLS`, `a-zA-ZÀ-ž0-9`): known-finding class when written inside braces -/
def oddFillers : Array String := #["?", "–", "why?", "«so»", "字", "и", "…", "¿", "^", "_x_"]

mutual
partial def varyStmt (pool : Array String) (s : Stmt) : G Stmt := do
  -- drop existing filler, permute, vary nested statements, insert fresh filler at gaps
  let core := s.parts.filter (fun p => !Part.isFiller p || (match p with | .filler w => contains (str "[") w | _ => false))
  let perm ← permuteKeepingTypes core
  let mut out : List Part := []
  for p in perm do
    if (← chance 2 5) then out := .filler (← pickA pool).toList :: out
    out := (← varyPart pool p) :: out
  if (← chance 1 3) then out := .filler (← pickA pool).toList :: out
  pure (.mk out.reverse)
partial def varyPart (pool : Array String) (p : Part) : G Part := do
  match p with
  | .nested h inner => pure (.nested h (← varyStmt pool inner))
  | .pairs t => pure (.pairs (← varyG pool t))
  | .ncomb h t => pure (.ncomb h (← varyN pool t))
  | x => pure x
/-- groups of a pair combination: free reordering and refilling inside each group -/
partial def varyG (pool : Array String) (t : GTree) : G GTree := do
  match t with
  | .grp s => pure (.grp (← varyStmt pool s))
  | .op o l r => pure (.op o (← varyG pool l) (← varyG pool r))
/-- operands of a nested-statement combination: filler is renewed, the order is kept (a nested
    component must stay the last part of an operand to remain in the supported class) -/
partial def varyN (pool : Array String) (t : NTree) : G NTree := do
  match t with
  | .one h s =>
    let core := s.parts.filter (fun p => !Part.isFiller p)
    let mut out : List Part := []
    for p in core do
      if (← chance 2 5) then out := .filler (← pickA pool).toList :: out
      out := p :: out
    pure (.one h (.mk out.reverse))
  | .op o l r => pure (.op o (← varyN pool l) (← varyN pool r))
end

/-- whitespace / punctuation variants around brace-level operators (text level) -/
def replaceAllStr (s pat rep : String) : String := rep.intercalate (s.splitOn pat)

def tightenOps (k : Nat) (s : String) : String := Id.run do
  let mut out := s
  for op in ["[AND]", "[OR]", "[XOR]"] do
    for c in "ABCDEFIMOP{".toList do
      let follow := String.singleton c
      match k % 3 with
      | 0 => out := replaceAllStr out (op ++ " " ++ follow) (op ++ follow)            -- `[XOR]I(`
      | 1 => out := replaceAllStr out ("} " ++ op ++ " " ++ follow) ("}," ++ op ++ " " ++ follow)  -- `},[XOR] Cac{`
      | _ => out := replaceAllStr out (") " ++ op ++ " " ++ follow) (")," ++ op ++ " " ++ follow)  -- `),[XOR] I(`
  pure out

/-- Filler that contains the property marker (`items,p`) in front of an operand of a combination of nested
    statements, and an ordinary word at the same place: open finding
    `C18-text-before-nested-operand-read-as-header` (the operand's type and suffix are read from everything in
    front of its brace). Controls: the same filler in front of a plain nested statement or between components
    must parse like the statement without filler. -/
def markerFillerCases : Array Case := Id.run do
  let mut out : Array Case := #[]
  let mut k := 0
  for sym in [Sym.Bdir, Sym.Bind, Sym.Cac, Sym.Cex, Sym.P] do
    let inner1 := Stmt.mk [.ann { sym := Sym.A } true (.leaf (str "first actor")), .ann { sym := Sym.I } true (.leaf (str "first aim"))]
    let inner2 := Stmt.mk [.ann { sym := Sym.A } true (.leaf (str "second actor")), .ann { sym := Sym.I } true (.leaf (str "second aim"))]
    let comb := Stmt.mk [.ann { sym := Sym.A } true (.leaf (str "officer")), .ann { sym := Sym.I } true (.leaf (str "inspects")),
                         .ncomb { sym := sym } (.op .OR (.one { sym := sym } inner1) (.one { sym := sym } inner2))]
    let plain := Stmt.mk [.ann { sym := Sym.A } true (.leaf (str "officer")), .ann { sym := Sym.I } true (.leaf (str "inspects")),
                          .nested { sym := sym } inner1]
    let expC := Json.str (showNode (denoteTop comb))
    let expP := Json.str (showNode (denoteTop plain))
    let tC := String.ofList (renderS comb)
    let tP := String.ofList (renderS plain)
    let ins := fun (t filler : String) => match t.splitOn "[OR] " with
      | [a, b] => a ++ "[OR] " ++ filler ++ " " ++ b
      | _ => t
    let mk := fun (id text kf tag : String) (exp : Json) =>
      ({ id := id, op := "parse", args := Json.mkObj [("text", (text : Json))], exp := exp, tag := tag,
         note := Json.mkObj [("kf", (kf : Json))] } : Case)
    out := out.push (mk s!"c18-mf{k}a" (ins tC "items,p") "C18-text-before-nested-operand-read-as-header" "marker-filler-before-operand" expC)
    out := out.push (mk s!"c18-mf{k}b" (ins tC "items") "C18-text-before-nested-operand-read-as-header" "marker-filler-before-operand" expC)
    out := out.push (mk s!"c18-mf{k}c" (ins tC "see 3,p") "C18-text-before-nested-operand-read-as-header" "marker-filler-before-operand" expC)
    -- the same filler in front of a plain nested statement, and between the components
    out := out.push (mk s!"c18-mf{k}d" (tP.replace "(inspects) " "(inspects) items,p ") "" "marker-filler-control" expP)
    out := out.push (mk s!"c18-mf{k}e" (tC.replace "(officer) " "(officer) items,p ") "" "marker-filler-control" expC)
    k := k + 1
  pure out

def genC18Cases (tier : String) (seed : Nat) : Array Case := Id.run do
  let nbase := if tier = "thorough" then 500 else 50
  let nvar := if tier = "thorough" then 12 else 6
  let mut out : Array Case := #[]
  let mut rng : Rng := ⟨UInt64.ofNat (seed * 275604541 + 53)⟩
  for b in [0:nbase] do
    let (s, r1) := (match b % 4 with
      | 0 => genC01 { suffixes := false, maxDepth := 3, maxComps := 6 }
      | 1 => genSupC02 2
      | 2 => genNestedSup { depth := 1, pairs := true, nestedPairs := true }
      -- pair combinations whose components are single values: the brace-level operator is the
      -- only operator of the statement
      | _ => genNestedSup { depth := 0, pairs := true, exprDepth := 0 }) rng
    rng := r1
    if !(supported s) then continue
    let exp := Json.str (showNode (denoteTop s))
    let a0 := Json.mkObj [("text", (String.ofList (renderS s) : Json))]
    let c0 : Case := { id := s!"c18-{b}-base", op := "parse", args := a0, exp := exp, tag := "base" }
    out := out.push c0
    for v in [0:nvar] do
      let (s', r2) := varyStmt lowerFillers s rng
      rng := r2
      let a1 := Json.mkObj [("text", (String.ofList (renderS s') : Json))]
      let c1 : Case := { id := s!"c18-{b}-{v}", op := "parse", args := a1, exp := exp, tag := "permuted+refilled" }
      out := out.push c1
      -- the same variant with less whitespace / with punctuation around brace-level operators
      let t2 := tightenOps (if b % 4 = 3 then 2 * v else b + v) (String.ofList (renderS s'))
      if t2 ≠ String.ofList (renderS s') then
        -- `},[OR] Cac{`: text between an operand of a nested-statement combination and the operator
        let kf := if (if b % 4 = 3 then 2 * v else b + v) % 3 = 1 then "C18-text-between-nested-operands-kept-as-shared-text" else ""
        let c2 : Case := { id := s!"c18-{b}-{v}w", op := "parse", args := Json.mkObj [("text", (t2 : Json))], exp := exp, tag := "operator-whitespace",
                           note := Json.mkObj [("kf", (kf : Json))] }
        out := out.push c2
    -- one variant with punctuation / scripts outside the accepted character class
    let (s'', r3) := varyStmt (lowerFillers ++ oddFillers ++ oddFillers) s rng
    rng := r3
    let t3 := String.ofList (renderS s'')
    let hasOdd := oddFillers.any (fun f => (t3.splitOn f).length > 1)
    let hasBrace := t3.contains '{'
    let c3 : Case := { id := s!"c18-{b}-odd", op := "parse", args := Json.mkObj [("text", (t3 : Json))], exp := exp, tag := "unusual-punctuation",
                       note := Json.mkObj [("kf", ((if hasOdd && hasBrace then "C18-characters-outside-accepted-class-inside-braces" else "") : Json))] }
    out := out.push c3
  pure (out ++ markerFillerCases)

end Drv
