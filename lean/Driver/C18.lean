import Driver.C01
namespace Drv
open Lean IGVerif

/-- key that must keep its relative order: kind + symbol -/
def Part.orderKey : Part → String
  | .ann h _ _ => "a:" ++ String.ofList h.sym.name
  | .nested h _ => "n:" ++ String.ofList h.sym.name
  | .ncomb h _ => "n:" ++ String.ofList h.sym.name
  | .pairs _ => "p"
  | .filler _ => "f"

/-- random reordering of the parts that keeps parts with the same key in their order -/
def permuteKeepingTypes (ps : List Part) : G (List Part) := do
  let sh ← shuffle ps
  -- walk the shuffled list; at each position take the next unused original part with that key
  let mut used : List Nat := []
  let mut out : List Part := []
  for p in sh do
    let k := Part.orderKey p
    let cand := ps.zipIdx.find? (fun (q, i) => Part.orderKey q = k && !used.contains i)
    match cand with
    | some (q, i) => used := i :: used; out := q :: out
    | none => pure ()
  pure out.reverse

def lowerFillers : Array String := #["and", "then", "the", "if", "or else", ", ", "shall;", "in 2020", "provided that", ".",
  "42", "it is so:", "x-y", "e.g.", "under §5", "at 100%", "a/b", "#1", "~", "+", "& co"]

mutual
partial def varyStmt (s : Stmt) : G Stmt := do
  -- drop existing filler, permute, vary nested statements, insert fresh filler at gaps
  let core := s.parts.filter (fun p => !Part.isFiller p || (match p with | .filler w => contains (str "[") w | _ => false))
  let perm ← permuteKeepingTypes core
  let mut out : List Part := []
  for p in perm do
    if (← chance 2 5) then out := .filler (← pickA lowerFillers).toList :: out
    out := (← varyPart p) :: out
  if (← chance 1 3) then out := .filler (← pickA lowerFillers).toList :: out
  pure (.mk out.reverse)
partial def varyPart (p : Part) : G Part := do
  match p with
  | .nested h inner => pure (.nested h (← varyStmt inner))
  | x => pure x
end

def genC18Cases (tier : String) (seed : Nat) : Array Case := Id.run do
  let nbase := if tier = "thorough" then 500 else 50
  let nvar := if tier = "thorough" then 12 else 6
  let mut out : Array Case := #[]
  let mut rng : Rng := ⟨UInt64.ofNat (seed * 275604541 + 53)⟩
  for b in [0:nbase] do
    let (s, r1) := (match b % 3 with
      | 0 => genC01 { suffixes := false, maxDepth := 3, maxComps := 6 }
      | 1 => genSupC02 2
      | _ => genNestedSup { depth := 1, pairs := true }) rng
    rng := r1
    if !(supported s) then continue
    let exp := Json.str (showNode (denoteTop s))
    let a0 := Json.mkObj [("text", (String.ofList (renderS s) : Json))]
    let c0 : Case := { id := s!"c18-{b}-base", op := "parse", args := a0, exp := exp, tag := "base" }
    out := out.push c0
    for v in [0:nvar] do
      let (s', r2) := varyStmt s rng
      rng := r2
      let a1 := Json.mkObj [("text", (String.ofList (renderS s') : Json))]
      let c1 : Case := { id := s!"c18-{b}-{v}", op := "parse", args := a1, exp := exp, tag := "permuted+refilled" }
      out := out.push c1
  pure out

end Drv
