import Driver.Core
import IGVerif.Model.Header
/-! C02, component type of a nested component: the model of `extractComponentType` against the
    real function (hook `VerifExtractComponentType`) on (a) every symbol of the table with every
    suffix / secondary suffix / annotation variant — the documented headers, for which the
    theorem `header_type_*` fixes the answer independently of the model's loop — and (b) token
    strings over the symbols' own fragments, where the model merely mirrors the code. -/
namespace Drv
open Lean IGVerif

def resJson : Header.Res → Json
  | .ok ty p => Json.mkObj [("code", ("NO_ERROR_DURING_PARSING" : Json)), ("type", (String.ofList ty : Json)), ("prop", p)]
  | .multiple r p => Json.mkObj [("code", ("MULTIPLE_COMPONENTS_FOUND" : Json)), ("type", (String.ofList r : Json)), ("prop", p)]
  | .notFound p => Json.mkObj [("code", ("COMPONENT_NOT_FOUND" : Json)), ("type", ("" : Json)), ("prop", p)]

def headerRoots : List String := ["A", "D", "I", "Bdir", "Bind", "Cac", "Cex", "E", "M", "F", "P", "O"]
def headerPropRoots : List String := ["A", "Bdir", "Bind", "E", "P"]
def headerSuffixes : List String := ["", "1", "2", "10", "123", "07"]
def headerAnnos : List String := ["", "[type=x]", "[ref=1,part=2]", "[A,p]", "[Bdir{x}]", "[]", "[k=[v]]", "[note=Cac,p and E]"]

def headerFragments : Array String :=
  #["A", "D", "I", "Bdir", "Bind", "Cac", "Cex", "E", "M", "F", "P", "O", ",p", ",", "p", "1", "2", "0", " ", "-Ref", " (Annotation)",
    "[", "]", "[x]", "x", "a", "Statement Annotation", "{", "(", "é"]

def mkHeaderCase (id text tag : String) (doc : Option (String × Bool)) : Case :=
  let m := Header.extractType Header.table text.toList
  -- for documented headers the expectation is written down here, independently of the model's loop
  let spec : Json := match doc with
    | some (ty, p) => resJson (.ok ty.toList p)
    | none => Json.null
  { id := id, op := "ctype", args := Json.mkObj [("text", (text : Json))], exp := resJson m, tag := tag, note := spec }

def genHeaderCases (tier : String) (seed : Nat) : Array Case := Id.run do
  let mut out : Array Case := #[]
  let mut k := 0
  -- (a) documented headers, exhaustively
  for r in headerRoots do
    for s1 in headerSuffixes do
      for an in headerAnnos do
        out := out.push (mkHeaderCase s!"hdr-d{k}" (r ++ s1 ++ an) "header-documented" (some (r, false)))
        k := k + 1
  for r in headerPropRoots do
    for s1 in headerSuffixes do
      for s2 in headerSuffixes do
        for an in headerAnnos do
          out := out.push (mkHeaderCase s!"hdr-d{k}" (r ++ s1 ++ ",p" ++ s2 ++ an) "header-documented-property" (some (r ++ ",p", true)))
          k := k + 1
  -- (b) fragments
  let n := if tier = "thorough" then 6000 else 600
  let mut rng : Rng := ⟨UInt64.ofNat (seed * 2654435761 + 977)⟩
  for i in [0:n] do
    let (t, r1) := (do
      let len ← range 1 5
      let ts ← listOf len (pickA headerFragments)
      pure ("".intercalate ts)) rng
    rng := r1
    out := out.push (mkHeaderCase s!"hdr-f{i}" t "header-fragments" none)
  pure out

def judgeHeader (c : Case) (o : ObsLine) : Verdict :=
  if o.st ≠ "ok" then .crash s!"{o.st}: {o.code}" else
  let g := fun (j : Json) => ((j.getObjValAs? String "code").toOption.getD "?", (j.getObjValAs? String "type").toOption.getD "?",
                              (j.getObjValAs? Bool "prop").toOption.getD false)
  -- documented header: the implementation must give the written type (a failing input of the property)
  if c.note != Json.null && g o.obs ≠ g c.note then
    .violation "component type of a documented header" s!"expected {c.note.compress} observed {o.obs.compress}"
  else if g o.obs = g c.exp then .ok
  else .disagree "component type model" c.exp.compress o.obs.compress

end Drv
