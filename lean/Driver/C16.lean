import Driver.C01
import IGVerif.Spec.PrivateLink
import IGVerif.Spec.Shape
namespace Drv
open Lean IGVerif

def compPropPairs : List (Sym × Sym) :=
  [(Sym.A, Sym.Ap), (Sym.Bdir, Sym.Bdirp), (Sym.Bind, Sym.Bindp), (Sym.E, Sym.Ep), (Sym.P, Sym.Pp), (Sym.I, Sym.Cex)]

def genC16Stmt (nested : Bool) : G Stmt := do
  let g : GS Stmt := do
    let (cs, ps) ← liftG (pick compPropPairs)
    let nc ← liftG (range 1 3)
    let np ← liftG (range 0 3)
    let mut parts : List Part := []
    let mut usedC : List String := []
    for _ in [0:nc] do
      let sfx ← liftG (pick ["", "1", "2", "11", "21"])
      let e ← if (← liftG (chance 3 10)) then
          pure (Expr.comb (← liftG (pick ops3)) (.leaf (← genText)) (.leaf (← genText)))
        else pure (Expr.leaf (← genText))
      let anno ← liftG (pick [none, none, some "role=c"])
      parts := .ann { sym := cs, sfx := if sfx = "" then none else some sfx.toList, anno := anno.map String.toList } true e :: parts
      usedC := sfx :: usedC
    for _ in [0:np] do
      let sfx ← liftG (pick ["", "1", "2", "3", "11", "21", "12"])
      let h : Hdr := { sym := ps, sfx := if sfx = "" then none else some sfx.toList }
      let r ← liftG (below 10)
      if r < 5 then
        parts := .ann h true (.leaf (← genText)) :: parts
      else if r < 8 || !nested || ps.complex.isNone then
        parts := .ann h true (.comb (← liftG (pick ops3)) (.leaf (← genText)) (.leaf (← genText))) :: parts
      else
        let inner ← genFlatParts 2 0
        parts := .nested h (.mk inner) :: parts
    -- a private and a shared nested property side by side (both end up in one reference cell)
    if nested && ps.complex.isSome && (← liftG (chance 1 3)) then
      let i1 ← genFlatParts 2 0
      let i2 ← genFlatParts 2 0
      parts := .nested { sym := ps, sfx := some ['1'] } (.mk i1) :: .nested { sym := ps } (.mk i2) :: parts
      if !(usedC.contains "1") then
        parts := .ann { sym := cs, sfx := some ['1'] } true (.leaf (← genText)) :: parts
    -- an unrelated component so that the statement is never only the pair
    if cs.name ≠ str "I" then parts := .ann { sym := Sym.I } true (.leaf (← genText)) :: parts
    else parts := .ann { sym := Sym.A } true (.leaf (← genText)) :: parts
    let sh ← liftG (shuffle parts)
    pure (.mk sh)
  let (s, _) ← g.run 0
  pure s

partial def exprLeafCount : Expr → Nat
  | .leaf _ => 1
  | .comb _ l r => exprLeafCount l + exprLeafCount r
  | .chain _ a b es => exprLeafCount a + exprLeafCount b + (es.map exprLeafCount).foldl (· + ·) 0
  | .shared _ e _ => exprLeafCount e
  | .multi2 _ a _ b _ => exprLeafCount a + exprLeafCount b
  | .multi3 _ a _ b _ c _ => exprLeafCount a + exprLeafCount b + exprLeafCount c

/-- known-finding class (DESIGN.md L10): the shared property tree has at least three values of
    which at least two become private — the first removal may collapse the tree's root by
    copying, after which further removals edit a detached copy and the values stay shared -/
def kfC16 (s : Stmt) : String :=
  -- nested property statements count as one value of the (complex) property tree; the simple
  -- and the complex property tree are separate trees, so they are counted separately
  let nst := s.parts.filterMap fun p => match p with | .nested h _ => some (h, Expr.leaf []) | _ => none
  let cnt := fun (anns : List (Hdr × Expr)) =>
    let isProp := fun (h : Hdr) => h.sym.isProperty || h.sym.name = str "Cex"
    let compSfx := ((s.parts.filterMap fun p => match p with | .ann h _ _ => some h | _ => none).filter (fun h => !isProp h)).filterMap (fun h => h.sfx)
    let props := anns.filter (fun a => isProp a.1)
    let total := (props.map (fun a => exprLeafCount a.2)).foldl (· + ·) 0
    let matched := ((props.filter fun a => (match a.1.sfx with | some x => compSfx.contains x | none => false)).map
      (fun a => exprLeafCount a.2)).foldl (· + ·) 0
    decide (total ≥ 3 && matched ≥ 2)
  if cnt nst then "C16-removal-after-root-collapse" else
  let anns := s.parts.filterMap fun p => match p with | .ann h _ e => some (h, e) | _ => none
  let isProp := fun (h : Hdr) => h.sym.isProperty || h.sym.name = str "Cex"
  let compSfx := (anns.filter (fun a => !isProp a.1)).filterMap (fun a => a.1.sfx)
  let props := anns.filter (fun a => isProp a.1)
  let total := (props.map (fun a => exprLeafCount a.2)).foldl (· + ·) 0
  let matched := ((props.filter fun a => (match a.1.sfx with | some x => compSfx.contains x | none => false)).map
    (fun a => exprLeafCount a.2)).foldl (· + ·) 0
  if total ≥ 3 && matched ≥ 2 then "C16-removal-after-root-collapse" else ""

def genC16Cases (tier : String) (seed : Nat) : Array Case := Id.run do
  let n := if tier = "thorough" then 4000 else 300
  let mut out : Array Case := #[]
  let mut rng : Rng := ⟨UInt64.ofNat (seed * 295075153 + 59)⟩
  for i in [0:n] do
    let (s, r1) := genC16Stmt (i % 3 = 0) rng
    rng := r1
    let a := Json.mkObj [("text", (String.ofList (renderS s) : Json))]
    let c : Case := { id := s!"c16-{i}", op := "parse", args := a, exp := Json.str (showNode (denoteLinked s)),
                      tag := if i % 3 = 0 then "with-nested-properties" else "simple-properties",
                      note := (let e := denoteLinked s
                        Json.mkObj [("kf", (kfC16 s : Json)), ("kfkind", ("retained-shared" : Json)),
                          ("privSig", ("\n".intercalate (privSigOf e) : Json)),
                          ("leaves", Json.arr ((leafTextsOf e).map Json.str).toArray),
                          ("privTexts", Json.arr ((privTextsOf e).map Json.str).toArray)]) }
    out := out.push c
  pure out

end Drv
