import Driver.C01
import IGVerif.Spec.PrivateLink
import IGVerif.Spec.Shape
namespace Drv
open Lean IGVerif

def compPropPairs : List (Sym × Sym) :=
  [(Sym.A, Sym.Ap), (Sym.Bdir, Sym.Bdirp), (Sym.Bind, Sym.Bindp), (Sym.E, Sym.Ep), (Sym.P, Sym.Pp), (Sym.I, Sym.Cex)]

def genC16Stmt (nested : Bool) : G Stmt := do
  let g : GS Stmt := do
    let (cs, ps) ← liftG (pick compPropPairs)
    let nc ← liftG (range 1 3)
    let np ← liftG (range 0 3)
    let mut parts : List Part := []
    let mut usedC : List String := []
    for _ in [0:nc] do
      let sfx ← liftG (pick ["", "1", "2", "11", "21"])
      let e ← if (← liftG (chance 3 10)) then
          pure (Expr.comb (← liftG (pick ops3)) (.leaf (← genText)) (.leaf (← genText)))
        else pure (Expr.leaf (← genText))
      let anno ← liftG (pick [none, none, some "role=c"])
      parts := .ann { sym := cs, sfx := if sfx = "" then none else some sfx.toList, anno := anno.map String.toList } true e :: parts
      usedC := sfx :: usedC
    for _ in [0:np] do
      let sfx ← liftG (pick ["", "1", "2", "3", "11", "21", "12"])
      let h : Hdr := { sym := ps, sfx := if sfx = "" then none else some sfx.toList }
      let r ← liftG (below 10)
      if r < 5 then
        parts := .ann h true (.leaf (← genText)) :: parts
      else if r < 8 || !nested || ps.complex.isNone then
        parts := .ann h true (.comb (← liftG (pick ops3)) (.leaf (← genText)) (.leaf (← genText))) :: parts
      else
        let inner ← genFlatParts 2 0
        parts := .nested h (.mk inner) :: parts
    -- a private and a shared nested property side by side (both end up in one reference cell)
    if nested && ps.complex.isSome && (← liftG (chance 1 3)) then
      let i1 ← genFlatParts 2 0
      let i2 ← genFlatParts 2 0
      parts := .nested { sym := ps, sfx := some ['1'] } (.mk i1) :: .nested { sym := ps } (.mk i2) :: parts
      if !(usedC.contains "1") then
        parts := .ann { sym := cs, sfx := some ['1'] } true (.leaf (← genText)) :: parts
    -- an unrelated component so that the statement is never only the pair
    if cs.name ≠ str "I" then parts := .ann { sym := Sym.I } true (.leaf (← genText)) :: parts
    else parts := .ann { sym := Sym.A } true (.leaf (← genText)) :: parts
    let sh ← liftG (shuffle parts)
    pure (.mk sh)
  let (s, _) ← g.run 0
  pure s

partial def exprLeafCount : Expr → Nat
  | .leaf _ => 1
  | .comb _ l r => exprLeafCount l + exprLeafCount r
  | .chain _ a b es => exprLeafCount a + exprLeafCount b + (es.map exprLeafCount).foldl (· + ·) 0
  | .shared _ e _ => exprLeafCount e
  | .multi2 _ a _ b _ => exprLeafCount a + exprLeafCount b
  | .multi3 _ a _ b _ c _ => exprLeafCount a + exprLeafCount b + exprLeafCount c

/-! ### when does the open finding "removal after root collapse" strike?

`RemoveNodeFromTree` replaces a removed leaf's parent by the leaf's sibling. When that parent is
the root of the property tree it copies the sibling *into* the root node (`*parent = *sibling`)
without re-pointing the `Parent` of the sibling's children: they keep pointing at the detached
original. A later removal that goes through such a stale pointer (the leaf's own parent, or its
grandparent) edits the detached copy; the value stays in the shared tree. The simulation below
replays the removals in the code's order on an index-based copy of the tree and reports whether a
removal ever goes through a stale pointer. -/

structure SimNode where
  left : Option Nat := none
  right : Option Nat := none
  parent : Option Nat := none
  deriving Inhabited

/-- flatten a property tree into indexed nodes; returns (nodes, index of the root, leaf index by path) -/
partial def simBuild (n : PNode) (path : List Bool) (parent : Option Nat) (acc : Array SimNode × List (List Bool × Nat)) :
    (Array SimNode × List (List Bool × Nat)) × Nat :=
  let (nodes, leaves) := acc
  let me := nodes.size
  match n with
  | .comb _ _ _ _ _ l r =>
    let nodes := nodes.push { parent := parent }
    let ((nodes, leaves), li) := simBuild l (path ++ [false]) (some me) (nodes, leaves)
    let ((nodes, leaves), ri) := simBuild r (path ++ [true]) (some me) (nodes, leaves)
    let nodes := nodes.set! me { left := some li, right := some ri, parent := parent }
    ((nodes, leaves), me)
  | _ => ((nodes.push { parent := parent }, leaves ++ [(path, me)]), me)

/-- replay the removals (leaf indices, in order); `true` = some removal went through a stale pointer -/
def simRemovals (nodes0 : Array SimNode) (root0 : Nat) (targets : List Nat) : Bool := Id.run do
  let mut nodes := nodes0
  let mut stale : List Nat := []
  let mut removed : List Nat := []
  let mut root := root0
  for x in targets do
    if removed.contains x then continue
    removed := x :: removed
    match nodes[x]!.parent with
    | none => pure ()                         -- the tree was this single value
    | some p =>
      if stale.contains x || (p ≠ root && stale.contains p) then return true
      let pn := nodes[p]!
      let sib := if pn.left = some x then pn.right else pn.left
      match sib with
      | none => pure ()
      | some s =>
        if p = root then
          -- root collapse by copying: the root node takes over the sibling's children, whose
          -- Parent still points at the (now detached) sibling
          let sn := nodes[s]!
          nodes := nodes.set! p { left := sn.left, right := sn.right, parent := none }
          for c in [sn.left, sn.right] do
            match c with
            | some ci => stale := ci :: stale
            | none => pure ()
          -- a leaf sibling: its path now ends at the root node
          if sn.left.isNone then
            -- later removals address this value by its old index `s`; it lives in the root now
            nodes := nodes.set! s { parent := none }
            root := p
        else
          match pn.parent with
          | none => pure ()
          | some g =>
            let gn := nodes[g]!
            nodes := nodes.set! g (if gn.left = some p then { gn with left := some s } else { gn with right := some s })
            nodes := nodes.set! s { (nodes[s]!) with parent := some g }
  return false

/-- does linking the private properties of (component field, property field) hit the finding? -/
def collapseDefect (comp prop : PNode) : Bool :=
  let srcs := (leavesOf comp).filter (fun v => v.esfx.isSome && v.esfx ≠ some [])
  let tgts := (leavesOf prop).filter (fun v => v.esfx.isSome && v.esfx ≠ some [])
  let ((nodes, leaves), root) := simBuild prop [] none (#[], [])
  let order := srcs.flatMap fun s =>
    (tgts.filter (fun t => t.esfx.map suffixHead = s.esfx.map suffixHead)).filterMap fun t =>
      (leaves.find? (fun p => p.1 = t.path)).map (·.2)
  simRemovals nodes root order

/-- known-finding class (DESIGN.md L10), decided by replaying the removals -/
def kfC16 (s : Stmt) : String :=
  match denoteTop s with
  | .stmt _ fs =>
    let hit := privatePairs.any fun (c, p1, p2) =>
      match fieldOf fs c with
      | none => false
      | some cn =>
        (match fieldOf fs p1 with | some pn => collapseDefect cn pn | none => false) ||
        (match fieldOf fs p2 with | some pn => collapseDefect cn pn | none => false)
    if hit then "C16-removal-after-root-collapse" else ""
  | _ => ""

/-- the optional secondary suffix of a property (`Bdir1,p2(..)`, `A,p1{..}`): written behind the
    property marker, it numbers the property and changes nothing about its attachment -/
def withSecondarySuffix (t : String) (k : Nat) : String :=
  if k % 3 ≠ 0 then t else
  let d := toString (1 + k % 4)
  ((t.replace ",p(" (",p" ++ d ++ "(")).replace ",p{" (",p" ++ d ++ "{")).replace ",p[" (",p" ++ d ++ "[")

def genC16Cases (tier : String) (seed : Nat) : Array Case := Id.run do
  let n := if tier = "thorough" then 4000 else 300
  let mut out : Array Case := #[]
  let mut rng : Rng := ⟨UInt64.ofNat (seed * 295075153 + 59)⟩
  for i in [0:n] do
    let (s, r1) := genC16Stmt (i % 3 = 0) rng
    rng := r1
    let a := Json.mkObj [("text", (withSecondarySuffix (String.ofList (renderS s)) i : Json))]
    let c : Case := { id := s!"c16-{i}", op := "parse", args := a, exp := Json.str (showNode (denoteLinked s)),
                      tag := if i % 3 = 0 then "with-nested-properties" else "simple-properties",
                      note := (let e := denoteLinked s
                        Json.mkObj [("kf", (kfC16 s : Json)), ("kfkind", ("retained-shared" : Json)),
                          ("privSig", ("\n".intercalate (privSigOf e) : Json)),
                          ("leaves", Json.arr ((leafTextsOf e).map Json.str).toArray),
                          ("privTexts", Json.arr ((privTextsOf e).map Json.str).toArray)]) }
    out := out.push c
  pure out

end Drv
