import Driver.Core
import IGVerif.Model.Web
namespace Drv
open Lean IGVerif IGVerif.Web

def formJson (f : Form) : Json := Json.mkObj (f.map fun (k, v) => (k, (v : Json)))

def reqJson (r : Req) : Json :=
  Json.mkObj [("page", ((match r.page with | .tab => "tab" | .vis => "vis") : Json)),
              ("method", ((match r.method with | .GET => "GET" | .POST => "POST") : Json)),
              ("form", formJson r.form)]

def tabCallJson (c : TabCall) : Json :=
  Json.mkObj [("kind", ("tab" : Json)), ("orig", (c.orig : Json)), ("text", (c.coded : Json)), ("id", (c.id : Json)),
    ("dyn", (c.dyn : Json)), ("ext", (c.ext : Json)), ("ann", (c.ann : Json)), ("fmtraw", (c.outputType : Json)),
    ("hdr", (c.headers : Json)), ("po", (c.po : Json)), ("ps", (c.ps : Json))]

def visCallJson (c : VisCall) : Json :=
  Json.mkObj [("kind", ("vis" : Json)), ("text", (c.coded : Json)), ("id", (c.id : Json)), ("flat", (c.flat : Json)),
    ("bin", (c.bin : Json)), ("ac", (c.ac : Json)), ("dyn", (c.dyn : Json)), ("ext", (c.ext : Json)),
    ("ann", (c.ann : Json)), ("dov", (c.dov : Json))]

def outcomeJson : Outcome → Json
  | .formOnly => Json.mkObj [("k", ("form" : Json))]
  | .canvasError w => Json.mkObj [("k", ("canvas" : Json)), ("what", (w : Json))]
  | .noStatement => Json.mkObj [("k", ("nostmt" : Json))]
  | .tab c => Json.mkObj [("k", ("tab" : Json)), ("orig", (c.orig : Json)), ("coded", (c.coded : Json)), ("id", (c.id : Json))]
  | .vis c => Json.mkObj [("k", ("vis" : Json)), ("coded", (c.coded : Json)), ("id", (c.id : Json))]

def hostileMarkers : List String := ["<zq1>", "</textarea><zq2", "\"zq3onload=", "'zq4;alert(", "<!--zq5", "</script><zq6"]

/-- a statement whose output differs under every single option switch -/
def sensitiveStmt : String :=
  "A[role=x](actor) A,p(certified) D(must) I((review [AND] (audit [AND] inspect))) Bdir(report <zq1>) Cac{A(b) I(c)} Cex(soon)"

/-- a statement whose tree the exporters touch while printing (a private nested property next to
    a private simple one): a conversion that re-used a parsed tree would show it -/
def sensitiveStmt2 : String :=
  "A(officer) D(must) I(inspect) Bdir1,p(organic) Bdir1(farm) Bdir1,p{A(farmer) I(registered) Bdir(operation)}"

def stmtPool : Array String := #[sensitiveStmt, sensitiveStmt, sensitiveStmt, sensitiveStmt, sensitiveStmt, sensitiveStmt,
  "A(actor) D(must) I((review [AND] (audit [OR] inspect))) Bdir(report)",
  "A(actor) I(act) Cac{A(b) I(c)}",
  "A(certifier) I(a <zq1> b) Bdir(\"zq3onload= x)",
  "A(x) I('zq4;alert( 1) Bdir(</script><zq6)",
  "A(a) {I(b) [XOR] I(c)} Bdir(d)",
  -- statements that yield several result entries (component pairs, also three-way and with nested statements)
  "A(actor) D(must) {I(act) Bdir(thing) [XOR] I(other) Bdir(stuff)}",
  "A(actor) D(must) {I(act) Bdir(thing) [XOR] I(other) Bdir(stuff)}",
  "A(officer) {I(inspect) Bdir(farm) [OR] {I(audit) Bdir(ledger) [AND] I(report) Bdir(result)}} Cex(annually)",
  "A(actor) D(must) I(act) {Cac{A(b) I(c)} [OR] Cac{A(d) I(e)}}",
  -- leading / trailing white space must arrive as typed
  " A(actor) I(act) Bdir(padded) ", "A(actor) I(act) Bdir(line end)\n",
  "A(x", "plain words without components", "A(a [AND] b [OR] c)", "A(one) A(one)",
  "A,p(only a property)", "A(<!--zq5) I(&amp; &lt;)",
  -- characters with a meaning in URL encoding (GET parameters must arrive as typed)
  "A(operators) D(must) I(pay) Bdir(licence fee + processing surcharge) Cex(within 30 days & 100%25)",
  "A(a+b) I(c%20d) Bdir(e&f=g)",
  -- rejected statements whose error message quotes user text
  "A(actor) I(act) Bdir((<zq1> facilities [AND] farms [OR] \"zq3onload= shops))",
  "A(actor) I(act) D{A(</textarea><zq2) I(approves)}",
  "A(actor) I(act) Cac{Cac{A(<zq1>) I(y)} [AND] Bdir{A(\"zq3onload=) I(w)}}",
  "A(<zq1> unbalanced I(act)", "A(<zq1>) A(<zq1>) I(</script><zq6)", "<zq1> no component \"zq3onload= at all",
  "A(actor) I(act) Cac{A(a) I(b)} [AND] Cac{A(<zq1>) I(d)} [XOR] Cac{A(e) I('zq4;alert( f)}",
  "A(actor) I(act) {I(<zq1>) [XOR] I(c)} {Bdir(</script><zq6) [OR] Bdir(e)}", "A(actor) I(()) Bdir(<zq1> [AND] )"]

def origPool : Array String := #["", "The original statement.", " padded original ", "ends with a line break\n", "orig </textarea><zq2 text", "a|b\nc \"q\" <zq1>", "Ünïcode ö", "fee + surcharge = 100% & more"]
def idPool : Array String := #["", "1", "123", " 7", "8 ", "9\n", "7.a", "\"zq3onload=", "<zq1>", "Art5+6", "a%2Bb c"]
def boolPost : Array String := #["", "on", "on", "off", "true"]
def boolGet : Array String := #["", "", "t", "true", "1", "f", "false", "0", "on", "yes"]
def outTypes : Array String := #["Google Sheets", "CSV format", "", "bogus"]
def poVals : Array String := #[origNone, "Include Original Statement for first atomic statement only (i.e., in first row following optional header row)",
  "Include Original Statement for each atomic statement (i.e., in each row)", "", "other"]
def psVals : Array String := #[scriptNone, "Include IG Script-encoded statement for first atomic statement only (i.e., in first row following optional header row)",
  "Include IG Script-encoded statement for each atomic statement (i.e., in each row)", "", "other"]
def canvasVals : Array String := #["", "", "", "2000", "100", "99", "abc", "-5", "99999999999999999999"]

def genReq : G Req := do
  let page ← pick [Page.tab, Page.vis]
  let method ← pick [Method.POST, Method.POST, Method.GET]
  let bp := if method = .POST then boolPost else boolGet
  let mut f : Form := []
  let add := fun (f : Form) (k v : String) => if v = "" then f else f ++ [(k, v)]
  f := add f "codedStmt" (← pickA stmtPool)
  if (← chance 1 8) then f := f.filter (fun p => p.1 ≠ "codedStmt")
  f := add f "rawStmt" (← pickA origPool)
  f := add f "stmtId" (← pickA idPool)
  for k in ["dynamicSchema", "igExtended", "annotations", "includeHeaders", "dov", "propertyTree", "binaryTree", "actCondTop"] do
    f := add f k (← pickA bp)
  f := add f "outputType" (← pickA outTypes)
  f := add f "printOriginalStatement" (← pickA poVals)
  f := add f "printIgScript" (← pickA psVals)
  if (← chance 1 4) then f := add f "canvasWidth" (← pickA canvasVals)
  if (← chance 1 4) then f := add f "canvasHeight" (← pickA canvasVals)
  if method = .GET then f := add f "execute" (← pick ["", "t", "true", "1", "1", "f", "x"])
  pure { page := page, method := method, form := f }

def outcomeTag : Outcome → String
  | .formOnly => "form-only"
  | .canvasError _ => "canvas-error"
  | .noStatement => "no-statement"
  | .tab _ => "tab-call"
  | .vis _ => "vis-call"

def c15Case (id : String) (r : Req) : Case :=
  let oc := decode r
  let core : Json := match oc with
    | .tab c => tabCallJson c
    | .vis c => visCallJson c
    | _ => Json.null
  { id := id, op := "webcore",
    args := Json.mkObj [("req", reqJson r), ("core", core), ("markers", Json.arr (hostileMarkers.map Json.str).toArray)],
    exp := outcomeJson oc,
    tag := outcomeTag oc }

def genC15Cases (tier : String) (seed : Nat) : Array Case := Id.run do
  let n := if tier = "thorough" then 6000 else 400
  let mut out : Array Case := #[]
  let mut rng : Rng := ⟨UInt64.ofNat (seed * 86028121 + 13)⟩
  for i in [0:n] do
    let (r, rng') := genReq rng
    rng := rng'
    out := out.push (c15Case s!"c15-{i}" r)
  pure out

def noStatementMsg : String := "The 'Encoded Statement' field does not contain IG Script-encoded content."

def judgeC15 (c : Case) (o : ObsLine) : Verdict :=
  if o.st ≠ "ok" then .crash s!"{o.st}: {o.code}" else
  let gs := fun k => (o.obs.getObjValAs? String k).toOption
  let status := (o.obs.getObjValAs? Nat "status").toOption.getD 0
  let hasOut := (o.obs.getObjValAs? Bool "hasOutput").toOption.getD false
  let err := gs "error"
  let raw := match o.obs.getObjVal? "rawMarkers" with | .ok (.arr a) => a.size | _ => 0
  let k := (c.exp.getObjValAs? String "k").toOption.getD ""
  if status ≠ 200 then .violation "status is not 200" (toString status) else
  if raw ≠ 0 then .violation "user-supplied text occurs unescaped in the page" ((o.obs.getObjVal? "rawMarkers").toOption.getD Json.null).compress else
  match k with
  | "form" => if hasOut || err.isSome then .disagree "form-only request produced output or error" "no conversion" o.obs.compress else .ok
  | "canvas" =>
    if hasOut then .violation "invalid canvas size but conversion output present" "" else
    match err with
    | some m => if (m.splitOn "canvas").length > 1 then .ok else .disagree "canvas error message" "canvas message" m
    | none => .disagree "canvas error missing" "error page" o.obs.compress
  | "nostmt" =>
    if hasOut then .violation "empty statement but output present" "" else
    if err = some noStatementMsg then .ok else .disagree "empty-statement message" noStatementMsg (err.getD "")
  | _ =>
    let coreCode := (gs "coreCode").getD ""
    let coreOut := (gs "coreOut").getD ""
    let coded := (c.exp.getObjValAs? String "coded").toOption.getD ""
    let sid := (c.exp.getObjValAs? String "id").toOption.getD ""
    if gs "codedStmt" ≠ some coded then .violation "encoded statement not echoed unchanged" s!"{gs "codedStmt"} vs {coded}" else
    if gs "stmtId" ≠ some sid && k = "tab" then .violation "statement id not echoed unchanged" s!"{gs "stmtId"} vs {sid}" else
    if k = "tab" && gs "rawStmt" ≠ some ((c.exp.getObjValAs? String "orig").toOption.getD "") then
      .violation "original statement not echoed unchanged" s!"{gs "rawStmt"}" else
    if coreCode = "NO_ERROR_DURING_PARSING" then
      if !hasOut then .violation "core conversion succeeds but page has no output" "" else
      if gs "output" ≠ some coreOut then .violation "page output differs from core conversion with the decoded options" ((gs "output").getD "" ++ "\n--- core:\n" ++ coreOut) else
      if err.isSome then .violation "error message on successful conversion" (err.getD "") else .ok
    else
      if hasOut then .violation "rejected statement but output present" "" else
      match err with
      | none => .violation "rejected statement without error message" coreCode
      | some m =>
        if coreCode = "EMPTY_LEAF_VALUE" || coreCode = "EMPTY STATEMENT" then
          (if m = noStatementMsg then .ok else .disagree "error mapping" noStatementMsg m)
        else if (m.splitOn ("(" ++ coreCode ++ ")")).length > 1 then .ok
        else .violation "error page does not carry the core error code" s!"{coreCode} vs {m}"

end Drv

namespace Drv
open Lean IGVerif IGVerif.Web

/-! ### C13: histories -/

def mkReq (page : Page) (stmt : String) (sw : List String) (extra : Form := []) : Req :=
  { page := page, method := .POST,
    form := [("codedStmt", stmt), ("stmtId", "9"), ("outputType", outputCSV)] ++ sw.map (fun k => (k, "on")) ++ extra }

/-- a covering set of requests: every switch on and off on both pages, failing statements -/
def coverReqs : List Req :=
  [ mkReq .tab sensitiveStmt [],
    mkReq .tab sensitiveStmt ["igExtended"],
    mkReq .tab sensitiveStmt ["annotations", "includeHeaders"],
    mkReq .tab sensitiveStmt ["igExtended", "annotations", "includeHeaders", "dynamicSchema"],
    mkReq .tab sensitiveStmt ["includeHeaders"] [("outputType", outputGS)],
    mkReq .tab "A(x" ["igExtended", "annotations"],
    mkReq .vis sensitiveStmt [],
    mkReq .vis sensitiveStmt ["dov", "annotations"],
    mkReq .vis sensitiveStmt ["propertyTree", "binaryTree"],
    mkReq .vis sensitiveStmt ["actCondTop", "propertyTree", "igExtended", "dynamicSchema"],
    mkReq .vis sensitiveStmt ["dov", "annotations", "propertyTree", "binaryTree", "actCondTop"],
    mkReq .vis "no components here" ["dov"],
    mkReq .vis sensitiveStmt2 [],
    mkReq .vis sensitiveStmt2 ["propertyTree"],
    mkReq .tab sensitiveStmt2 ["igExtended"],
    mkReq .tab sensitiveStmt2 [],
    { page := .tab, method := .GET, form := [("codedStmt", sensitiveStmt), ("execute", "1"), ("igExtended", "t"), ("annotations", "1")] },
    { page := .vis, method := .GET, form := [("codedStmt", sensitiveStmt), ("execute", "true"), ("dov", "t"), ("propertyTree", "f")] } ]

def seqCase (id tag : String) (h : List Req) : Case :=
  { id := id, op := "webseq", args := Json.mkObj [("hist", Json.arr (h.map reqJson).toArray)], tag := tag }

def genC13Cases (tier : String) (seed : Nat) : Array Case := Id.run do
  let mut out : Array Case := #[]
  let rs := coverReqs
  -- all ordered pairs (previous, next)
  let mut k := 0
  for p in rs do
    for n in rs do
      out := out.push (seqCase s!"c13-p{k}" "pair" [p, n])
      k := k + 1
  let nrand := if tier = "thorough" then 400 else 16
  let mut rng : Rng := ⟨UInt64.ofNat (seed * 2750159 + 19)⟩
  for i in [0:nrand] do
    let (len, r1) := range 3 12 rng
    rng := r1
    let mut h : List Req := []
    for _ in [0:len] do
      let (useCover, r2) := chance 1 2 rng
      rng := r2
      if useCover then
        let (q, r3) := pick rs rng
        rng := r3
        h := h ++ [q]
      else
        let (q, r3) := genReq rng
        rng := r3
        h := h ++ [q]
    out := out.push (seqCase s!"c13-h{i}" s!"history-{len}" h)
  pure out

def judgeC13 (_c : Case) (o : ObsLine) : Verdict :=
  if o.st ≠ "ok" then .crash s!"{o.st}: {o.code}" else
  if (o.obs.getObjValAs? Bool "same").toOption.getD false then .ok
  else .violation "response after a history differs from the fresh-process response"
        ((o.obs.getObjValAs? String "diff").toOption.getD "")

/-! ### C14: interleavings -/

/-- all interleavings of `ks[i]` advances of request `i` -/
partial def interleavings (ks : List Nat) : List (List Nat) :=
  if ks.all (· = 0) then [[]] else
  (List.range ks.length).flatMap fun i =>
    if ks.getD i 0 = 0 then [] else
    (interleavings (setAtL ks i (ks.getD i 0 - 1))).map (i :: ·)
where setAtL (l : List Nat) (i v : Nat) : List Nat := (l.zipIdx.map fun (x, j) => if j = i then v else x)

/-- harness-level feasibility with a lock: advance #2 of a request (lock → options-set)
    acquires the lock, which is released when the request finishes (advance #4) -/
def feasibleLocked (order : List Nat) : Bool := Id.run do
  let mut cnt : Array Nat := #[0, 0, 0, 0]
  let mut holder : Option Nat := none
  for i in order do
    let c := cnt.getD i 0
    if c = 1 then
      match holder with
      | some j => if j ≠ i then return false
      | none => holder := some i
    cnt := cnt.set! i (c + 1)
    if c + 1 = 4 && holder = some i then holder := none
  return true

def schedCase (id tag : String) (rs : List Req) (order : List Nat) : Case :=
  { id := id, op := "sched", tag := tag,
    args := Json.mkObj [("reqs", Json.arr (rs.map reqJson).toArray), ("order", Json.arr (order.map (fun (n : Nat) => (n : Json))).toArray)] }

def genC14Cases (useLock : Bool) (tier : String) (_seed : Nat) : Array Case := Id.run do
  let mut out : Array Case := #[]
  let k := if useLock then 4 else 3
  let cr := coverReqs
  let pairs : List (Req × Req) :=
    [(cr.getD 1 default, cr.getD 0 default), (cr.getD 2 default, cr.getD 3 default), (cr.getD 1 default, cr.getD 7 default),
     (cr.getD 8 default, cr.getD 10 default), (cr.getD 9 default, cr.getD 2 default), (cr.getD 4 default, cr.getD 5 default)]
  let scheds2 := (interleavings [k, k]).filter (fun o => !useLock || feasibleLocked o)
  let mut n := 0
  for (a, b) in pairs do
    for o in scheds2 do
      out := out.push (schedCase s!"c14-2-{n}" "two-requests" [a, b] o)
      n := n + 1
  -- lock probes: request a is stopped between taking the lock and converting, request b is
  -- released from the lock point; the real lock must keep b out until a has finished. Mixed
  -- tabular/visual pairs included: both pages write the same process-wide switches.
  if useLock then
    let probes : List (Nat × Nat) := [(1, 0), (0, 1), (1, 7), (7, 1), (1, 6), (9, 2), (2, 9), (3, 10), (10, 3), (8, 10), (1, 11), (5, 1)]
    for (ia, ib) in probes do
      let c := schedCase s!"c14-p{n}" "lock-probe" [cr.getD ia default, cr.getD ib default] [0, 0, 1, 1, 1, 1, 1, 0, 0, 0]
      out := out.push { c with args := c.args.setObjVal! "probe" (true : Bool) }
      n := n + 1
  if tier = "thorough" then
    let scheds3 := (interleavings [k, k, k]).filter (fun o => !useLock || feasibleLocked o)
    let triples := [[cr.getD 1 default, cr.getD 0 default, cr.getD 7 default], [cr.getD 8 default, cr.getD 2 default, cr.getD 10 default]]
    for t in triples do
      for o in scheds3 do
        out := out.push (schedCase s!"c14-3-{n}" "three-requests" t o)
        n := n + 1
  pure out

def judgeC14 (_c : Case) (o : ObsLine) : Verdict :=
  if o.st ≠ "ok" then .crash s!"{o.st}: {o.code}" else
  match o.obs.getObjValAs? String "infeasible" with
  | .ok why => .disagree "schedule predicted feasible by the model is not feasible on the implementation" "feasible" why
  | .error _ =>
    match o.obs.getObjValAs? String "bypassed" with
    | .ok how =>
      if (o.obs.getObjValAs? Bool "allSame").toOption.getD false then
        .disagree "the implementation's lock does not exclude a second request (the model's lock does)" "second request blocked until the first has finished" how
      else .violation "a response under this interleaving differs from the response of the same request processed alone"
            (how ++ " " ++ (o.obs.getObjVal? "res" |>.toOption.getD Json.null).compress)
    | .error _ =>
    if (o.obs.getObjValAs? Bool "allSame").toOption.getD false then .ok
    else .violation "a response under this interleaving differs from the response of the same request processed alone"
          (o.obs.getObjVal? "res" |>.toOption.getD Json.null).compress

end Drv
