import Driver.C10
import Driver.C11
import IGVerif.Model.Validate
/-! C11, bracket balance: the model of `validateInput` against the real function on token strings,
    mutated statements and well-formed statements. -/
namespace Drv
open Lean IGVerif

def genValidateCases (tier : String) (seed : Nat) : Array Case := Id.run do
  let n := if tier = "thorough" then 3000 else 200
  let mut out : Array Case := #[]
  let mut rng : Rng := ⟨UInt64.ofNat (seed * 373587883 + 71)⟩
  for i in [0:n] do
    let (t, r1) := (if i % 3 = 0 then genTokenString 40
      else do
        let s ← genNested { depth := 2, pairs := true }
        let base := String.ofList (renderS s)
        if i % 3 = 1 then pure base else mutate base "A(x) {I(y) [AND] I(z)} Cac{A(q)}") rng
    rng := r1
    let p := Validate.validate '(' ')' t.toList
    let b := Validate.validate '{' '}' t.toList
    let code := fun (ok : Bool) => if ok then "NO_ERROR_DURING_PARSING" else "IMBALANCED_PARENTHESES"
    out := out.push { id := s!"c11-v{i}", op := "validate", args := Json.mkObj [("text", (t : Json))],
                      exp := Json.mkObj [("paren", (code p : Json)), ("brace", (code b : Json))],
                      tag := "balance-check" }
  pure out

def judgeValidate (c : Case) (o : ObsLine) : Verdict :=
  if o.st ≠ "ok" then .crash s!"{o.st}: {o.code}" else
  let g := fun (k : String) (j : Json) => (j.getObjValAs? String k).toOption.getD ""
  if g "paren" o.obs = g "paren" c.exp && g "brace" o.obs = g "brace" c.exp then .ok
  else .disagree "balance check" c.exp.compress o.obs.compress

end Drv
