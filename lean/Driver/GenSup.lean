import Driver.GenStmt
import IGVerif.Spec.Shape
/-! Generators restricted to the `supported` shape class (agreement with the specification is
    demanded there; the complement is the C02 known-finding class and is exercised only by
    C02's own generator). -/
namespace Drv
open IGVerif

/-- `genNested`, retried until the statement is in the supported class -/
def genNestedSup (cfg : NestCfg) : G Stmt := fun rng => Id.run do
  let mut r := rng
  for _ in [0:40] do
    let (s, r') := genNested cfg r
    r := r'
    if supported s then return (s, r)
  genSupC02 2 r

end Drv
