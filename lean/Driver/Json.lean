import Lean.Data.Json
import IGVerif.Model.PTree
import IGVerif.Spec.Grammar
/-! JSON boundary of the driver: cases out, observations in. -/
namespace Drv
open Lean IGVerif

def jstr (s : Str) : Json := Json.str (String.ofList s)
def jstrs (xs : List Str) : Json := Json.arr (xs.map jstr).toArray

def fieldNames : Array String := #[
  "Attributes", "AttributesPropertySimple", "AttributesPropertyComplex", "Deontic", "Aim",
  "DirectObject", "DirectObjectComplex", "DirectObjectPropertySimple", "DirectObjectPropertyComplex",
  "IndirectObject", "IndirectObjectComplex", "IndirectObjectPropertySimple", "IndirectObjectPropertyComplex",
  "ConstitutedEntity", "ConstitutedEntityPropertySimple", "ConstitutedEntityPropertyComplex",
  "Modal", "ConstitutiveFunction", "ConstitutingProperties", "ConstitutingPropertiesComplex",
  "ConstitutingPropertiesPropertySimple", "ConstitutingPropertiesPropertyComplex",
  "ActivationConditionSimple", "ActivationConditionComplex", "ExecutionConstraintSimple",
  "ExecutionConstraintComplex", "OrElse"]

def fieldIdx (name : String) : Option Nat := fieldNames.toList.idxOf? name

/-! PNode → canonical text (for humans and for equality) -/

def showStrs (k : String) (xs : List Str) : String :=
  if xs.isEmpty then "" else s!" {k}=[" ++ "|".intercalate (xs.map String.ofList) ++ "]"

def showMeta (m : Meta) : String :=
  (if m.ct.isEmpty then "" else s!" ct={String.ofList m.ct}") ++
  (match m.sfx with | some s => s!" sfx={String.ofList s}" | none => "") ++
  (match m.ann with | some s => s!" ann={String.ofList s}" | none => "")

mutual
partial def showNode : PNode → String
  | .leaf t sl sr m p => s!"(L \"{String.ofList t}\"" ++ showStrs "sl" sl ++ showStrs "sr" sr ++ showMeta m ++ showPriv p ++ ")"
  | .comb op sl sr m p l r => s!"({String.ofList op}" ++ showStrs "sl" sl ++ showStrs "sr" sr ++ showMeta m ++ showPriv p ++ " " ++ showNode l ++ " " ++ showNode r ++ ")"
  | .stmt m fs => "(S" ++ showMeta m ++ " {" ++ " ".intercalate (fs.map fun (i, n) => s!"{fieldNames.getD i "?"}={showNode n}") ++ "})"
  | .pairs m ns => "(P" ++ showMeta m ++ " " ++ " ".intercalate (ns.map showNode) ++ ")"
  | .empty => "(E)"
partial def showPriv (p : List PNode) : String :=
  if p.isEmpty then "" else " priv=[" ++ " ".intercalate (p.map showNode) ++ "]"
end

/-! observation JSON → PNode -/

def getStrs (j : Json) (k : String) : List Str :=
  match j.getObjVal? k with
  | .ok (.arr a) => a.toList.filterMap (fun x => match x with | .str s => some s.toList | _ => none)
  | _ => []

def getStrOpt (j : Json) (k : String) : Option Str :=
  match j.getObjVal? k with
  | .ok (.str s) => some s.toList
  | _ => none

def getMeta (j : Json) : Meta :=
  { ct := (getStrOpt j "ct").getD [], sfx := getStrOpt j "sfx", ann := getStrOpt j "ann" }

partial def nodeOfJson (j : Json) : Except String PNode := do
  let k ← (j.getObjValAs? String "k")
  let priv ← match j.getObjVal? "priv" with
    | .ok (.arr a) => a.toList.mapM nodeOfJson
    | _ => pure []
  match k with
  | "L" =>
    let t ← j.getObjValAs? String "t"
    pure (.leaf t.toList (getStrs j "sl") (getStrs j "sr") (getMeta j) priv)
  | "C" =>
    let op ← j.getObjValAs? String "op"
    let l ← nodeOfJson (← j.getObjVal? "l")
    let r ← nodeOfJson (← j.getObjVal? "r")
    pure (.comb op.toList (getStrs j "sl") (getStrs j "sr") (getMeta j) priv l r)
  | "S" =>
    let fs ← match j.getObjVal? "s" with
      | .ok (.arr a) => a.toList.mapM (fun p => do
          match p with
          | .arr #[.str name, n] =>
            match fieldIdx name with
            | some i => pure (i, ← nodeOfJson n)
            | none => throw s!"unknown field {name}"
          | _ => throw "bad field entry")
      | _ => pure []
    pure (.stmt (getMeta j) fs)
  | "P" =>
    let ns ← match j.getObjVal? "n" with
      | .ok (.arr a) => a.toList.mapM nodeOfJson
      | _ => pure []
    pure (.pairs (getMeta j) ns)
  | "E" => pure .empty
  | other => throw s!"unsupported node kind {other}"

/-! weaker comparisons used to delimit known-finding classes -/

/-- rendering with the two operands of every combination in sorted order (equality modulo
    commutation of operands) -/
partial def showNodeSorted : PNode → String
  | .comb op sl sr m p l r =>
    let a := showNodeSorted l
    let b := showNodeSorted r
    let (x, y) := if a ≤ b then (a, b) else (b, a)
    s!"({String.ofList op}" ++ showStrs "sl" sl ++ showStrs "sr" sr ++ showMeta m ++ showPriv p ++ " " ++ x ++ " " ++ y ++ ")"
  | .stmt m fs => "(S" ++ showMeta m ++ " {" ++ " ".intercalate (fs.map fun (i, n) => s!"{fieldNames.getD i "?"}={showNodeSorted n}") ++ "})"
  | .pairs m ns => "(P" ++ showMeta m ++ " " ++ " ".intercalate (ns.map showNodeSorted) ++ ")"
  | n => showNode n

/-- leaf texts of a tree (values only, private nodes not included), nested statements included -/
partial def leafTextsOf : PNode → List String
  | .leaf t _ _ _ _ => [String.ofList t]
  | .comb _ _ _ _ _ l r => leafTextsOf l ++ leafTextsOf r
  | .stmt _ fs => fs.flatMap (fun p => leafTextsOf p.2)
  | .pairs _ ns => ns.flatMap leafTextsOf
  | .empty => []

/-- "value -> private nodes" for every value that carries private nodes -/
partial def privSigOf : PNode → List String
  | .leaf t _ _ _ p => if p.isEmpty then [] else [s!"{String.ofList t} -> " ++ " ".intercalate (p.map showNode)]
  | .comb _ _ _ _ _ l r => privSigOf l ++ privSigOf r
  | .stmt _ fs => fs.flatMap (fun p => privSigOf p.2)
  | .pairs _ ns => ns.flatMap privSigOf
  | .empty => []

partial def privTextsOf : PNode → List String
  | .leaf _ _ _ _ p => p.flatMap leafTextsOf
  | .comb _ _ _ _ _ l r => privTextsOf l ++ privTextsOf r
  | .stmt _ fs => fs.flatMap (fun p => privTextsOf p.2)
  | .pairs _ ns => ns.flatMap privTextsOf
  | .empty => []

end Drv
