import Driver.Core
namespace Drv
open Lean IGVerif

def parseCase (id : String) (tag : String) (s : Stmt) : Case :=
  let text := String.ofList (renderS s)
  { id := id, op := "parse", args := Json.mkObj [("text", text)],
    exp := Json.str (showNode (denoteTop s)), tag := tag }

def genC01Cases (tier : String) (seed : Nat) : Array Case := Id.run do
  let n := if tier = "thorough" then 6000 else 400
  let mut out : Array Case := #[]
  let mut rng : Rng := ⟨UInt64.ofNat (seed * 7919 + 1)⟩
  for i in [0:n] do
    let cfg : GenCfg := { suffixes := i % 3 = 0, maxDepth := if i % 5 = 0 then 4 else 3 }
    let (s, rng') := genC01 cfg rng
    rng := rng'
    out := out.push (parseCase s!"c01-r{i}" (if cfg.suffixes then "rand+sfx" else "rand") s)
  pure out

/-- strip the effective-value keys that the canonical PNode does not carry -/
def judgeParse (c : Case) (o : ObsLine) : Verdict :=
  match o.st with
  | "ok" =>
    match o.obs.getObjVal? "nodes" with
    | .ok (.arr #[n]) =>
      match nodeOfJson n with
      | .ok pn =>
        let got := showNode pn
        let exp := (c.exp.getStr?).toOption.getD ""
        let pbad := (o.obs.getObjValAs? Nat "pbad").toOption.getD 0
        if got ≠ exp then .disagree "parse tree" exp got
        else if pbad ≠ 0 then .violation "inconsistent parent pointers" s!"pbad={pbad}"
        else .ok
      | .error e => .disagree "unreadable node" ((c.exp.getStr?).toOption.getD "") e
    | _ => .disagree "node count" ((c.exp.getStr?).toOption.getD "") o.obs.compress
  | "err" => .disagree "rejected" ((c.exp.getStr?).toOption.getD "") ("ERR " ++ o.code)
  | _ => .crash s!"{o.st}: {o.code}"

end Drv
