import Driver.Core
import Driver.Shape
import Driver.GenSup
import IGVerif.Spec.Shape
namespace Drv
open Lean IGVerif

def parseCase (id : String) (tag : String) (s : Stmt) : Case :=
  let text := String.ofList (renderS s)
  { id := id, op := "parse", args := Json.mkObj [("text", text)],
    exp := Json.str (showNode (denoteTop s)), tag := tag,
    note := Json.arr ((shapeChains s).map Json.str).toArray }

def genC01Cases (tier : String) (seed : Nat) : Array Case := Id.run do
  let n := if tier = "thorough" then 6000 else 400
  let mut out : Array Case := #[]
  let mut rng : Rng := ⟨UInt64.ofNat (seed * 7919 + 1)⟩
  for i in [0:n] do
    let cfg : GenCfg := { suffixes := i % 3 = 0, maxDepth := if i % 5 = 0 then 4 else 3 }
    let (s, rng') := genC01 cfg rng
    rng := rng'
    if i % 12 = 5 then
      -- the operators written inside the components must not leak anywhere else: two plain
      -- nested statements follow, which are joined by the implicit conjunction whatever
      -- operators the components contain
      let g : GS Stmt := do
        let sym ← liftG (pick (Sym.nestables.filter (fun (x : Sym) => !x.isProperty)))
        let a ← genFlatParts (← liftG (range 1 2)) 0
        let b ← genFlatParts (← liftG (range 1 2)) 0
        pure (Stmt.mk (s.parts ++ [Part.nested { sym := sym } (Stmt.mk a), Part.nested { sym := sym } (Stmt.mk b)]))
      let ((s2, _), rng'') := (g.run 0) rng
      rng := rng''
      if supported s2 then
        out := out.push (parseCase s!"c01-n{i}" "components+two-nested" s2)
      else
        out := out.push (parseCase s!"c01-r{i}" (if cfg.suffixes then "rand+sfx" else "rand") s)
    else if i % 12 = 11 then
      -- parenthesised phrases inside combinations: open known finding when they fail
      let (s', rng'') := decorateStmtCombos s rng
      rng := rng''
      let c := parseCase s!"c01-p{i}" "paren-in-combination" s'
      out := out.push { c with note := Json.mkObj [("kf", ((if parenInCombo s' then "C01-parenthesised-phrase-inside-combination" else "") : Json))] }
    else
      out := out.push (parseCase s!"c01-r{i}" (if cfg.suffixes then "rand+sfx" else "rand") s)
  pure out

def kfParse (s : Stmt) : String := if supported s then "" else "C02-regex-shape"

/-- note of a parse case: known-finding class and, for the subclass whose only known failure
    is a reordering of same-symbol nested statements, what the judge needs to tell a
    reordering from anything else -/
def parseNote (s : Stmt) (chains : Json) : Json :=
  if supported s then Json.mkObj [("kf", ("" : Json)), ("chains", chains)]
  else if supportedUpToDup s then
    Json.mkObj [("kf", ("C02-regex-shape" : Json)), ("kfkind", ("reorder" : Json)),
      ("expSorted", (showNodeSorted (denoteTop s) : Json)), ("chains", chains)]
  else Json.mkObj [("kf", ("C02-regex-shape" : Json)), ("chains", chains)]

def genC02Cases (tier : String) (seed : Nat) : Array Case := Id.run do
  let n := if tier = "thorough" then 4000 else 260
  let mut out : Array Case := #[]
  let mut rng : Rng := ⟨UInt64.ofNat (seed * 15485863 + 3)⟩
  for i in [0:n] do
    if i % 10 = 7 then
      -- two nested statements of one symbol that contain logical operators, with a written
      -- operator between them (known finding: they may come out in the other order)
      let g : GS Stmt := do
        let parts ← genFlatParts (← liftG (range 1 3)) 2
        let sym ← liftG (pick Sym.nestables)
        let a ← genFlatParts (← liftG (range 1 3)) 2
        let b ← genFlatParts (← liftG (range 1 3)) 2
        let opw ← liftG (pick [none, some "[AND]", some "[OR]", some "[XOR]"])
        let mid : List Part := match opw with | some w => [.filler w.toList] | none => []
        pure (.mk (parts ++ [.nested { sym := sym } (.mk a)] ++ mid ++ [.nested { sym := sym } (.mk b)]))
      let ((s, _), rng') := (g.run 0) rng
      rng := rng'
      let c := parseCase s!"c02-d{i}" "two-nested-of-one-symbol" s
      out := out.push { c with note := parseNote s c.note }
    else if i % 5 = 4 then
      -- outside the supported class (known-finding class when it fails)
      let cfg : NestCfg := { depth := 2, propCombos := true }
      let (s, rng') := genNested cfg rng
      rng := rng'
      let c := parseCase s!"c02-u{i}" (if supported s then "random-supported" else "random-unsupported") s
      out := out.push { c with note := parseNote s c.note }
    else
      let (s, rng') := genSupC02 (if i % 4 = 0 then 3 else 2) rng
      rng := rng'
      let c := parseCase s!"c02-s{i}" "supported" s
      out := out.push { c with note := Json.mkObj [("kf", (kfParse s : Json)), ("chains", c.note)] }
  pure out

def genC03Cases (tier : String) (seed : Nat) : Array Case := Id.run do
  let n := if tier = "thorough" then 3000 else 200
  let mut out : Array Case := #[]
  let mut rng : Rng := ⟨UInt64.ofNat (seed * 32452843 + 5)⟩
  for i in [0:n] do
    -- top-level pair combinations; every third statement also nests statements, which may
    -- themselves contain a pair combination
    let cfg : NestCfg := { depth := if i % 3 = 0 then 1 else 0, pairs := true, nestedPairs := i % 3 = 0, groupNested := i % 3 = 1 }
    let (s, rng') := genNestedSup cfg rng
    rng := rng'
    let c := parseCase s!"c03-r{i}" (if supported s then "pairs-supported" else "pairs-unsupported") s
    out := out.push { c with note := Json.mkObj [("kf", (kfParse s : Json)), ("chains", c.note)] }
  -- the same pair text at the top level and inside a nested statement (witness of an open
  -- finding), and the control in which the two pairs differ in one value
  let leaf := fun (z : Sym) (t : String) => Part.ann { sym := z } true (.leaf t.toList)
  let pair := fun (u v : String) => Part.pairs (.op .XOR (.grp (.mk [leaf Sym.I u])) (.grp (.mk [leaf Sym.I v])))
  let mk := fun (v : String) => Stmt.mk [leaf Sym.A "a", pair "x" "y", .nested { sym := Sym.Cac } (.mk [leaf Sym.A "b", pair "x" v])]
  let w := parseCase "c03-same-pair-text" "pairs-witness" (mk "y")
  out := out.push { w with note := Json.mkObj [("kf", ("C03-same-pair-text-on-two-levels" : Json)), ("chains", w.note)] }
  let ctl := parseCase "c03-different-pair-text" "pairs-witness" (mk "z")
  out := out.push { ctl with note := Json.mkObj [("kf", ("" : Json)), ("chains", ctl.note)] }
  pure out

/-- C03 at the level of the table: the expanded statements of a pair combination, exported
    (also to a file), complete and linked -/
def c03TabArgs (text : String) (i : Nat) : Json :=
  Json.mkObj [("text", (text : Json)), ("id", ("650" : Json)), ("ext", ((i % 2 = 0 : Bool) : Json)), ("ann", (false : Json)),
    ("fmt", ((if i % 3 = 0 then "gs" else "csv") : Json)), ("hdr", (true : Json)), ("withparse", (true : Json)), ("file", (true : Json))]

/-- strip the effective-value keys that the canonical PNode does not carry -/
def judgeParse (c : Case) (o : ObsLine) : Verdict :=
  match o.st with
  | "ok" =>
    match o.obs.getObjVal? "nodes" with
    | .ok (.arr #[n]) =>
      match nodeOfJson n with
      | .ok pn =>
        let got := showNode pn
        let exp := (c.exp.getStr?).toOption.getD ""
        let pbad := (o.obs.getObjValAs? Nat "pbad").toOption.getD 0
        -- `pbad` (children whose Parent does not point back) is reported by the harness but is
        -- not a property: expanded pair statements deliberately point at the root node
        let _ := pbad
        if got = exp then .ok else
        match (c.note.getObjValAs? String "kfkind").toOption with
        | some "reorder" =>
          -- known finding: the two same-symbol nested statements may come out in the other
          -- order; anything else is a new failure
          let expS := (c.note.getObjValAs? String "expSorted").toOption.getD ""
          if showNodeSorted pn = expS then .disagree "parse tree" exp got else .disagree "[new] parse tree (not a mere reordering)" exp got
        | some "retained-shared" =>
          -- known finding: private values may additionally stay in the shared property tree
          let psig := (c.note.getObjValAs? String "privSig").toOption.getD ""
          let expLeaves := match c.note.getObjVal? "leaves" with | .ok (.arr a) => a.toList.filterMap (fun (x : Json) => x.getStr?.toOption) | _ => []
          let privT := match c.note.getObjVal? "privTexts" with | .ok (.arr a) => a.toList.filterMap (fun (x : Json) => x.getStr?.toOption) | _ => []
          let obsLeaves := leafTextsOf pn
          let extra := obsLeaves.filter (fun t => !expLeaves.contains t)
          let missing := expLeaves.filter (fun t => !obsLeaves.contains t)
          if "\n".intercalate (privSigOf pn) = psig && missing.isEmpty && extra.all (privT.contains ·) then .disagree "parse tree" exp got
          else .disagree "[new] parse tree (not only private values retained in the shared tree)" exp got
        | _ => .disagree "parse tree" exp got
      | .error e => .disagree "unreadable node" ((c.exp.getStr?).toOption.getD "") e
    | _ => .disagree "node count" ((c.exp.getStr?).toOption.getD "") o.obs.compress
  | "err" => .disagree "rejected" ((c.exp.getStr?).toOption.getD "") ("ERR " ++ o.code)
  | _ => .crash s!"{o.st}: {o.code}"

/-- all binary operator trees with `n` leaves (explicitly parenthesised) -/
partial def allTrees (leaves : List Str) : List Expr :=
  match leaves with
  | [] => []
  | [t] => [.leaf t]
  | _ =>
    (List.range (leaves.length - 1)).flatMap fun k =>
      let ls := allTrees (leaves.take (k + 1))
      let rs := allTrees (leaves.drop (k + 1))
      ls.flatMap fun l => rs.flatMap fun r => [Op3.AND, Op3.OR, Op3.XOR].map fun o => Expr.comb o l r

/-- exhaustive: every operator-tree shape with up to four values and every assignment of the three
    operators, as the content of one component; plus the same-operator chains of three and four -/
def exhaustiveTreeCases (tagp : String) : Array Case := Id.run do
  let names := ["alpha one", "beta two", "gamma three", "delta four"].map String.toList
  let mut out : Array Case := #[]
  let mut k := 0
  for n in [2, 3, 4] do
    for e in allTrees (names.take n) do
      let s := Stmt.mk [Part.ann { sym := Sym.Bdir } true e, Part.ann { sym := Sym.A } true (.leaf (str "actor"))]
      let c := parseCase s!"{tagp}-x{k}" "exhaustive-trees" s
      out := out.push { c with note := Json.mkObj [("kf", ("" : Json))] }
      k := k + 1
  for o in [Op3.AND, Op3.OR, Op3.XOR] do
    for n in [3, 4] do
      let ls := (names.take n).map Expr.leaf
      let e := match ls with
        | a :: b :: rest => Expr.chain o a b rest
        | _ => Expr.leaf []
      let s := Stmt.mk [Part.ann { sym := Sym.I } false e]
      let c := parseCase s!"{tagp}-xc{k}" "exhaustive-chains" s
      out := out.push { c with note := Json.mkObj [("kf", ("" : Json))] }
      k := k + 1
  pure out

/-- every ordered pair of nesting-capable symbols, as two plain nested statements and as two
    nested-statement combinations: each must land under its own component whatever precedes it
    (C02), and the order of the two must not matter (C18) -/
def pairwiseNestedCases (tagp : String) : Array Case := Id.run do
  let mut out : Array Case := #[]
  let mut k := 0
  for x in Sym.nestables do
    for y in Sym.nestables do
      if x.name = y.name then continue
      let inner := fun (t : String) => Stmt.mk [Part.ann { sym := Sym.A } true (.leaf (t ++ " actor").toList), Part.ann { sym := Sym.I } true (.leaf (t ++ " aim").toList)]
      let s1 := Stmt.mk [Part.ann { sym := Sym.D } true (.leaf (str "must")), Part.nested { sym := x } (inner "first"), Part.nested { sym := y } (inner "second")]
      let c1 := parseCase s!"{tagp}-pw{k}" "pairwise-nested" s1
      out := out.push { c1 with note := Json.mkObj [("kf", ("" : Json))] }
      let comb := fun (z : Sym) (t : String) => Part.ncomb { sym := z } (.op .XOR (.one { sym := z } (inner (t ++ " left"))) (.one { sym := z } (inner (t ++ " right"))))
      let s2 := Stmt.mk [Part.ann { sym := Sym.D } true (.leaf (str "must")), comb x "first", comb y "second"]
      let c2 := parseCase s!"{tagp}-pc{k}" "pairwise-nested-combinations" s2
      out := out.push { c2 with note := Json.mkObj [("kf", ("" : Json))] }
      -- both nested statements hold a component with a combination of its own, followed by
      -- another component (the coarse classification takes such a statement for a combination
      -- candidate first and re-classifies it)
      let inner3 := fun (t : String) => Stmt.mk [Part.ann { sym := Sym.A } true (.leaf (t ++ " actor").toList),
        Part.ann { sym := Sym.I } true (.comb .OR (.leaf (t ++ " aim one").toList) (.leaf (t ++ " aim two").toList)),
        Part.ann { sym := Sym.Bdir } true (.leaf (t ++ " object").toList)]
      if k % 3 = 0 then
        let s3 := Stmt.mk [Part.ann { sym := Sym.D } true (.leaf (str "must")), Part.nested { sym := x } (inner3 "first"), Part.nested { sym := y } (inner3 "second")]
        let c3 := parseCase s!"{tagp}-pr{k}" "pairwise-nested-reclassified" s3
        out := out.push { c3 with note := Json.mkObj [("kf", ((if supported s3 then "" else "C02-regex-shape") : Json))] }
      k := k + 1
  pure out

/-- two component types with two nested statements each; an operator is written between the
    statements of one type (or a different one between those of each type). The documented rule:
    nested statements of one type are conjoined, or joined by the operator written *between
    them*. The expected operator per type is written down here, independently of `denote`
    (whose `nestedOp` is level-wide like the code — the known finding this stream witnesses). -/
def nestedOpPerTypeCases (tagp : String) : Array Case := Id.run do
  let mut out : Array Case := #[]
  let mut k := 0
  let syms := Sym.nestables
  for i in [0:syms.length] do
    let x := syms.getD i default
    let y := syms.getD ((i + 1 + i % 3) % syms.length) default
    if x.name = y.name then continue
    for (o1, o2) in [("OR", ""), ("", "XOR"), ("OR", "XOR"), ("XOR", "XOR"), ("", "")] do
      let nm := fun (z : Sym) => String.ofList z.name
      let mid := fun (o : String) => if o = "" then " " else " [" ++ o ++ "] "
      let t := "A(officer) I(acts) " ++ nm x ++ "{A(a one) I(b one)}" ++ mid o1 ++ nm x ++ "{A(a two) I(b two)} "
        ++ nm y ++ "{A(c one) I(d one)}" ++ mid o2 ++ nm y ++ "{A(c two) I(d two)}"
      let exp := fun (o : String) => if o = "" then "AND" else o
      let kf := if o1 = o2 then "" else "C02-operator-between-nested-statements-applies-to-every-type"
      out := out.push { id := s!"{tagp}-nop{k}", op := "parse", args := Json.mkObj [("text", (t : Json))],
                        tag := "operator-per-type", exp := Json.null,
                        note := Json.mkObj [("kf", (kf : Json)), ("x", (nm x : Json)), ("y", (nm y : Json)),
                                            ("ox", (exp o1 : Json)), ("oy", (exp o2 : Json))] }
      k := k + 1
  pure out

def judgeNestedOps (c : Case) (o : ObsLine) : Verdict :=
  let g := fun (k : String) => (c.note.getObjValAs? String k).toOption.getD ""
  if o.st ≠ "ok" then
    if o.st = "err" then .violation "well-formed statement rejected" s!"{o.code} (nested statements of two component types, operators {g "ox"} / {g "oy"})"
    else .crash s!"{o.st}: {o.code}"
  else
    let fields : List Json := match (o.obs.getObjVal? "nodes").toOption with
      | some (.arr #[n]) => (match (n.getObjVal? "s").toOption with | some (.arr a) => a.toList | _ => [])
      | _ => []
    let opOf := fun (z : String) =>
      (fields.filterMap fun f => match f with
        | .arr #[_, node] =>
          if (node.getObjValAs? String "ct").toOption = some z && (node.getObjValAs? String "k").toOption = some "C"
          then (node.getObjValAs? String "op").toOption else none
        | _ => none).head?
    match opOf (g "x"), opOf (g "y") with
    | some a, some b =>
      if a = g "ox" && b = g "oy" then .ok
      else .violation "nested statements of one type are not joined by the operator written between them"
        s!"{g "x"}: written {g "ox"}, parsed {a}; {g "y"}: written {g "oy"}, parsed {b}"
    | _, _ => .violation "nested statements of one type are not joined by the operator written between them" "combination node missing"

/-- a parenthesised group that has shared text of its own, standing beside another combination
    or inside further shared text (witnesses of an open finding). Judged by what the property
    demands at least: no annotated value is lost, the values keep their order, no shared text
    contains a parenthesis, every word written outside the combinations is shared text somewhere. -/
def sharedGroupWitnessCases (tagp : String) : Array Case := Id.run do
  let kf := "C01-shared-text-group-beside-or-inside-other-shared-text"
  let ws : List (String × List String × List String) := [
    ("A(actor) I(act) Cex((a [AND] b) mid (pre (c [OR] d) post))", ["a", "b", "c", "d"], ["mid", "pre", "post"]),
    ("A(actor) I(act) Cex((l1 (a [AND] b) r1) (l2 (c [OR] d) r2))", ["a", "b", "c", "d"], ["l1", "r1", "l2", "r2"]),
    ("A(actor) I(act) Cex(l1 (l2 (a [AND] b) r2) r1)", ["a", "b"], ["l1", "l2", "r2", "r1"]),
    -- controls: the simple documented forms of the same texts
    ("A(actor) I(act) Cex(pre (c [OR] d) post)", ["c", "d"], ["pre", "post"]),
    ("A(actor) I(act) Cex((a [AND] b) mid (c [OR] d))", ["a", "b", "c", "d"], ["mid"])]
  let mut out : Array Case := #[]
  let mut k := 0
  for (t, leaves, words) in ws do
    out := out.push { id := s!"{tagp}-sg{k}", op := "parse", args := Json.mkObj [("text", (t : Json))], tag := "shared-groups",
                      note := Json.mkObj [("kf", ((if k < 3 then kf else "") : Json)),
                                          ("leaves", Json.arr (leaves.map (fun (x : String) => (x : Json))).toArray),
                                          ("words", Json.arr (words.map (fun (x : String) => (x : Json))).toArray)] }
    k := k + 1
  pure out

partial def collectLeavesShared (n : Json) : List String × List String :=
  let strs := fun (k : String) => match (n.getObjVal? k).toOption with
    | some (.arr a) => a.toList.filterMap (fun x => x.getStr?.toOption)
    | _ => []
  let own := strs "sl" ++ strs "sr"
  match (n.getObjValAs? String "k").toOption with
  | some "C" =>
    let l := match (n.getObjVal? "l").toOption with | some x => collectLeavesShared x | none => ([], [])
    let r := match (n.getObjVal? "r").toOption with | some x => collectLeavesShared x | none => ([], [])
    (l.1 ++ r.1, own ++ l.2 ++ r.2)
  | some "L" => ([(n.getObjValAs? String "t").toOption.getD ""], own)
  | _ => ([], own)

def judgeSharedGroups (c : Case) (o : ObsLine) : Verdict :=
  let lst := fun (k : String) => match (c.note.getObjVal? k).toOption with
    | some (.arr a) => a.toList.filterMap (fun x => x.getStr?.toOption)
    | _ => []
  if o.st ≠ "ok" then .violation "well-formed statement rejected" s!"{o.st} {o.code}" else
  let fields : List Json := match (o.obs.getObjVal? "nodes").toOption with
    | some (.arr #[n]) => (match (n.getObjVal? "s").toOption with | some (.arr a) => a.toList | _ => [])
    | _ => []
  let node := (fields.filterMap fun f => match f with
    | .arr #[.str "ExecutionConstraintSimple", nd] => some nd
    | _ => none).head?
  match node with
  | none => .violation "component missing from the parsed statement" "Cex"
  | some nd =>
    let (leaves, shared) := collectLeavesShared nd
    if leaves ≠ lst "leaves" then
      .violation "annotated values lost or reordered" s!"expected {lst "leaves"}, parsed {leaves} (shared text {shared})"
    else if shared.any (fun t => t.contains '(' || t.contains ')') then
      .violation "shared text contains a parenthesis" s!"{shared}"
    else match (lst "words").find? (fun w => !(shared.any (fun t => (t.splitOn " ").contains w))) with
      | some w => .violation "text written outside the combinations is lost" s!"'{w}' is in no shared text {shared}"
      | none => .ok

/-- every ordered pair of parenthesised component symbols -/
def pairwiseSimpleCases (tagp : String) : Array Case := Id.run do
  let mut out : Array Case := #[]
  let mut k := 0
  for x in Sym.simples do
    for y in Sym.simples do
      if x.name = y.name then continue
      let s := Stmt.mk [Part.ann { sym := x } true (.comb .OR (.leaf (str "first one")) (.leaf (str "first two"))),
                        Part.ann { sym := y } true (.leaf (str "second value"))]
      let c := parseCase s!"{tagp}-ps{k}" "pairwise-components" s
      out := out.push { c with note := Json.mkObj [("kf", ("" : Json))] }
      k := k + 1
  -- every symbol with two suffixed annotations (a combination and a single value)
  for x in Sym.simples do
    let other : Part := if x.name = str "I" then .ann { sym := Sym.A } true (.leaf (str "actor")) else .ann { sym := Sym.I } true (.leaf (str "acts"))
    let s := Stmt.mk [other, Part.ann { sym := x, sfx := some ['1'] } true (.comb .OR (.leaf (str "first one")) (.leaf (str "first two"))),
                      Part.ann { sym := x, sfx := some ['2'] } true (.leaf (str "second value"))]
    let c := parseCase s!"{tagp}-sx{k}" "per-symbol-suffixed" s
    out := out.push { c with note := Json.mkObj [("kf", ("" : Json))] }
    k := k + 1
  -- two annotations of one property type with a secondary suffix each (`A,p2(…) A,p3(…)`), with and without
  -- the combination's own parentheses inside the component's: the suffix is no part of any value or shared text
  for x in Sym.simples.filter (fun (y : Sym) => y.isProperty) do
    for outer in [true, false] do
      for shape in [0, 1, 2] do
        let comb1 : Expr := .comb .AND (.leaf (str "first one")) (.leaf (str "first two"))
        let comb2 : Expr := .comb .XOR (.leaf (str "second one")) (.leaf (str "second two"))
        let e1 : Expr := if shape = 1 then .leaf (str "first value") else comb1
        let e2 : Expr := if shape = 0 then .leaf (str "second value") else comb2
        let s := Stmt.mk [.ann { sym := Sym.I } true (.leaf (str "acts")), Part.ann { sym := x } outer e1, Part.ann { sym := x } outer e2]
        let c := parseCase s!"{tagp}-ss{k}" "per-symbol-secondary-suffix" s
        let nm := String.ofList x.name
        let text := match (String.ofList (renderS s)).splitOn (nm ++ "(") with
          | [p0, p1, p2] => p0 ++ nm ++ "2(" ++ p1 ++ nm ++ "3(" ++ p2
          | _ => String.ofList (renderS s)
        out := out.push { c with args := Json.mkObj [("text", (text : Json))], note := Json.mkObj [("kf", ("" : Json))] }
        k := k + 1
  pure out

end Drv
