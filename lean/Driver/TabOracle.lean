import Driver.TabD
import IGVerif.Spec.Shape
import Driver.GenSup
import Driver.C16
/-! Property oracles evaluated on the implementation's table (rows as key ↦ cell maps). -/
namespace Drv
open Lean IGVerif

abbrev ORow := List (String × String)

def sDrop (s : String) (n : Nat) : String := String.ofList (s.toList.drop n)
def sDropRightWhile (s : String) (p : Char → Bool) : String := String.ofList (s.toList.reverse.dropWhile p).reverse
def sTrim (s : String) : String :=
  String.ofList ((s.toList.dropWhile (· = ' ')).reverse.dropWhile (· = ' ')).reverse
def sStarts (s pre : String) : Bool := s.toList.take pre.length == pre.toList
def sEnds (s suf : String) : Bool := s.toList.reverse.take suf.length == suf.toList.reverse

def cell (r : ORow) (k : String) : String := (r.find? (fun p => p.1 = k)).map (·.2) |>.getD ""

def splitTop (s : String) (sep : Char) : List String :=
  -- split on `sep` outside square brackets
  let rec go (cs : List Char) (depth : Nat) (cur : List Char) (acc : List String) : List String :=
    match cs with
    | [] => (String.ofList cur.reverse :: acc).reverse
    | c :: rest =>
      if c = '[' then go rest (depth + 1) (c :: cur) acc
      else if c = ']' then go rest (depth - 1) (c :: cur) acc
      else if c = sep && depth = 0 then go rest depth [] (String.ofList cur.reverse :: acc)
      else go rest depth (c :: cur) acc
  if s.isEmpty then [] else go s.toList 0 [] []

/-- expand `7.1-3` into `7.1, 7.2, 7.3`; other references unchanged -/
def expandRef (r : String) : List String :=
  match r.splitOn "-" with
  | [a, b] =>
    match (a.splitOn ".").reverse, b.toNat? with
    | lo :: revPrefix, some hi =>
      match lo.toNat? with
      | some l =>
        let pre := ".".intercalate revPrefix.reverse
        if l ≤ hi then (List.range (hi + 1 - l)).map (fun k => (if pre.isEmpty then "" else pre ++ ".") ++ toString (l + k)) else [r]
      | none => [r]
    | _, _ => [r]
  | _ => [r]

structure CompLink where
  ops : List String
  comp : String
  targets : List String
  deriving Repr

/-- `[AND OR].Bdir.[7.1,7.3-4]` -/
def parseCompLink (s : String) : Option CompLink :=
  -- ops between first '[' and first ']'
  match s.splitOn "]." with
  | opsPart :: rest =>
    let ops := ((sDrop opsPart 1).splitOn " ").filter (· ≠ "")
    let tail := "].".intercalate rest
    -- comp up to ".["
    match tail.splitOn ".[" with
    | comp :: tgt :: _ =>
      let inner := (sDropRightWhile tgt (· = ']'))
      some { ops := ops, comp := comp, targets := (inner.splitOn ",").flatMap expandRef }
    | _ => none
  | _ => none

def resolves (ids : List String) (x : String) : Bool :=
  ids.contains x || ids.any (fun i => sStarts i (x ++ "."))

def andClass (o : String) : Bool := o = "AND" || o = "bAND" || o = "wAND"

def normOps (ops : List String) : List String := ops.map (fun o => if andClass o then "AND" else o)

/-- collapse adjacent AND-class members after normalisation -/
def collapseNorm : List String → List String
  | a :: b :: rest => if a = "AND" && b = "AND" then collapseNorm (a :: rest) else a :: collapseNorm (b :: rest)
  | l => l

/-- `{P}.k.j` (atomic row of a nested group) ↦ `{P}.k`; `{P}.k` ↦ itself. The group id ends
    after the first number behind the last `}.` -/
def groupOf (id : String) : String :=
  match (id.splitOn "}.").reverse with
  | last :: restRev =>
    if restRev.isEmpty then id else
    let num := String.ofList (last.toList.takeWhile Char.isDigit)
    "}.".intercalate restRev.reverse ++ "}." ++ num
  | [] => id

/-- C06: ids unique, every reference resolves. C05: component linkage mutual with reversed
    operators (modulo the conjunction class). Returns the first problem found. -/
def tableProblems (groups : List (List ORow)) : List (String × String) := Id.run do
  let rows := groups.flatten
  let ids := rows.map (fun r => (cell r "Statement ID"))
  let mut probs : List (String × String) := []
  if ids.eraseDups.length ≠ ids.length then
    probs := ("C06", s!"duplicate statement id among {ids}") :: probs
  let links : List (String × List CompLink) := rows.map fun r =>
    (cell r "Statement ID", (splitTop (cell r "Logical Linkage (Components)") ';').filterMap parseCompLink)
  for r in rows do
    for (k, v) in r do
      if sEnds k "-Ref" && sTrim v ≠ "" && (sStarts v "{") then
        for t in v.splitOn "," do
          if !(resolves ids t) then probs := ("C06", s!"reference {t} in column {k} resolves to no row") :: probs
  for (rid, ls) in links do
    for l in ls do
      for t in l.targets do
        if !(resolves ids t) then
          probs := ("C05", s!"linkage cell of row {rid} names {t}, which is no row of the table") ::
                   ("C06", s!"linkage target {t} of row {rid} resolves to no row") :: probs
        else
          -- mutual: t links back to rid for the same component with reversed operators
          match links.find? (fun p => p.1 = t) with
          | none => pure ()
          | some (_, back) =>
            let cands := back.filter (fun b => b.comp = l.comp && b.targets.contains rid)
            if cands.isEmpty then probs := ("C05", s!"row {rid} links to {t} on {l.comp} but {t} does not link back") :: probs
            else if !(cands.any (fun b => collapseNorm (normOps b.ops) = collapseNorm (normOps l.ops.reverse))) then
              probs := ("C05", s!"operators between {rid} and {t} on {l.comp} are not mirror images: {l.ops} vs {cands.map (·.ops)}") :: probs
  -- every nested row group `{parent}.k` is referenced from some row's reference cell
  let refCells := rows.flatMap fun r => r.filterMap fun (k, v) => if sEnds k "-Ref" then some v else none
  let refTokens := refCells.flatMap fun v => (v.splitOn ",").map sTrim
  for gid in (ids.filter (fun i => sStarts i "{")).map groupOf |>.eraseDups do
    if !(refTokens.any (fun t => t = gid)) then
      probs := ("C06", s!"nested row group {gid} is referenced from no row") :: probs
  -- statement-level linkage targets
  for r in rows do
    let v := cell r "Logical Linkage (Statements)"
    if sTrim v ≠ "" then
      -- targets are the bracketed groups that are not operator lists: take text after the last '[' of each item
      for item in (splitTop v ';').flatMap (fun x => splitTop x ',') do
        match (item.splitOn "[").reverse with
        | last :: _ =>
          let t := sDropRightWhile last (· = ']')
          if t ≠ "" && !(resolves ids t) then probs := ("C06", s!"statement linkage target {t} resolves to no row") :: probs
        | [] => pure ()
  pure probs.reverse

/-- C04, stated on the parsed tree: ways of choosing one alternative of a component. Values
    joined by AND/OR/XOR/bAND are alternatives; two combinations inside one component (wAND)
    are chosen independently. -/
partial def choices : PNode → Nat
  | .comb op _ _ _ _ l r => if op = opWAND then choices l * choices r else choices l + choices r
  | .empty => 0
  | _ => 1

/-- expected number of atomic statements of one top-level statement: product over its
    components (a nested statement or a combination of nested statements is one value) -/
def expectedRows (fs : PStmt) : Nat :=
  fs.foldl (fun acc p => if Tab.isComplexField p.1 then acc else acc * max 1 (choices p.2)) 1

/-- the alternatives of a component, each as the leaf texts that one atomic statement must show
    together (both sides of a wAND, one side of any other operator) -/
partial def altTexts : PNode → List (List String)
  | .comb op _ _ _ _ l r =>
    if op = opWAND then (altTexts l).flatMap (fun a => (altTexts r).map (fun b => a ++ b)) else altTexts l ++ altTexts r
  | .leaf t _ _ _ _ => [[String.ofList t]]
  | _ => []

partial def hasWAND : PNode → Bool
  | .comb op _ _ _ _ l r => op = opWAND || hasWAND l || hasWAND r
  | _ => false

/-- for components that contain several combinations (wAND): every atomic statement shows one
    complete alternative, and every alternative is shown by some atomic statement -/
def wandContentProblems (root : PNode) (groups : List (List ORow)) : List (String × String) :=
  let tops := Tab.topStmts root []
  (tops.zip groups).flatMap fun ((fs, _), g) =>
    let own := g.filter (fun r => !(sStarts (cell r "Statement ID") "{"))
    fs.flatMap fun (i, n) =>
      if Tab.isComplexField i || !(hasWAND n) then [] else
      let col := String.ofList n.meta.ct
      let alts := altTexts n
      let shows := fun (r : ORow) (a : List String) => a.all (fun t => ((cell r col).splitOn t).length > 1)
      let badRow := own.find? (fun r => !(alts.any (shows r)))
      let missing := alts.find? (fun a => !(own.any (fun r => shows r a)))
      (match badRow with
        | some r => [("C04", s!"row {cell r "Statement ID"}: cell {col}='{cell r col}' shows no complete alternative of the component (alternatives: {alts})")]
        | none => []) ++
      (match missing with
        | some a => [("C04", s!"no row shows the alternative {a} of component {col}")]
        | none => [])

def rowCountProblems (root : PNode) (groups : List (List ORow)) : List (String × String) :=
  let tops := Tab.topStmts root []
  (tops.zip groups).filterMap fun ((fs, _), g) =>
    let own := g.filter (fun r => !(sStarts (cell r "Statement ID") "{"))
    if own.length = expectedRows fs then none
    else some ("C04", s!"{own.length} atomic statements in the table, {expectedRows fs} ways of choosing one alternative per component")

/-- every cell of a row belongs to a column of the table's header (a value written under a name
    that is no column is never printed) -/
def headerProblems (o : ObsLine) : List (String × String) :=
  match o.obs.getObjVal? "res" with
  | .ok (.arr rs) => rs.toList.flatMap fun r =>
    let hdr : List String := match r.getObjVal? "hdr" with
      | .ok (.arr a) => a.toList.filterMap (fun (x : Json) => x.getStr?.toOption)
      | _ => []
    let rows := match r.getObjVal? "rows" with | .ok (.arr a) => a.toList.map normRow | _ => []
    if hdr.isEmpty then [] else
    rows.flatMap fun row => row.filterMap fun (k, v) =>
      if hdr.contains k || k = "Statement ID" || k = "Logical Linkage (Components)" || k = "Logical Linkage (Statements)"
         || k = "Statement Annotation" || sTrim v = "" then none
      else some ("C06", s!"row {cell row "Statement ID"}: value '{v}' is stored under '{k}', which is no column of the table")
  | _ => []

def obsORows (o : ObsLine) : List (List ORow) :=
  (obsGroups o).map (fun g => g)

/-- D (model on the implementation's parse) + oracles; `which` restricts the oracles reported -/
def judgeTabWith (which : List String) (c : Case) (o : ObsLine) : Verdict :=
  match judgeTab true c o with
  | .ok =>
    if o.st ≠ "ok" then .ok else
    -- exported file (when requested) = the returned tables, one after the other
    let fileBad : Bool := match o.obs.getObjValAs? String "file", o.obs.getObjValAs? String "outs" with
      | .ok f, .ok t => f != t
      | _, _ => false
    if fileBad then .violation "the exported file differs from the returned table(s)"
      ((o.obs.getObjValAs? String "file").toOption.getD "") else
    -- for statements of the supported class the table must also be the one of the documented meaning
    let kf := (c.note.getObjValAs? String "kf").toOption.getD "?"
    if kf = "" && c.exp != Json.null && normGroups c.exp != obsGroups o then
      .disagree "table differs from the table of the documented meaning" (showGroups (normGroups c.exp)) (showGroups (obsGroups o)) else
    let countProbs := match (o.obs.getObjVal? "parse").toOption.bind (fun pj => (pj.getObjVal? "nodes").toOption) with
      | some (.arr #[n]) => (match nodeOfJson n with | .ok pn => rowCountProblems pn (obsORows o) ++ wandContentProblems pn (obsORows o) | .error _ => [])
      | _ => []
    match (tableProblems (obsORows o) ++ countProbs ++ headerProblems o).filter (fun p => which.contains p.1) with
    | [] => .ok
    | (p, d) :: _ => .violation s!"{p} oracle on the implementation's table" d
  | v => v

end Drv

namespace Drv
open Lean IGVerif

def idPoolTab : Array String := #["123", "7", "a.b", "S.1.2", "x9", "0", "AB12cd", "Sec. 4 \"Records\"", "it's", "7|a", "§ 205.2(b)", "5.", "650 ", " 12", "Art. 5 (2)"]

/-- statements for the tabular family: simple with combinations, supported nesting, pairs -/
def genTabStmt (i : Nat) : G (Stmt × String) := do
  match i % 5 with
  | 4 => do
    -- private properties; the open C16 finding (removal after root collapse) is exercised by C16's own check only
    let mut s ← genC16Stmt true
    for _ in [0:20] do
      if kfC16 s = "" then break
      s ← genC16Stmt true
    if (i / 5) % 4 = 2 then
      -- three or four nested property statements of one component, one of them private, at every
      -- position (statement-level linkage of the shared ones after the private one is taken out)
      let g : GS Stmt := do
        let (cs, ps) ← liftG (pick (compPropPairs.filter (fun p => p.2.complex.isSome)))
        let n := 3 + (i / 20) % 2
        let k := (i / 40) % n
        let mut parts : List Part := [.ann { sym := cs, sfx := some ['1'] } true (.leaf (← genText))]
        for j in [0:n] do
          let inner ← genFlatParts 2 0
          parts := parts ++ [.nested { sym := ps, sfx := if j = k then some ['1'] else none } (.mk inner)]
        let extra := if cs.name ≠ str "I" then Sym.I else Sym.A
        pure (.mk (parts ++ [.ann { sym := extra } true (.leaf (← genText))]))
      let (s2, _) ← g.run 0
      if kfC16 s2 = "" then return (s2, "private-nested-between")
    if (i / 5) % 2 = 1 then
      -- … also inside a nested statement
      let mut inner ← genC16Stmt false
      for _ in [0:20] do
        if kfC16 inner = "" then break
        inner ← genC16Stmt false
      if kfC16 inner = "" && kfC16 s = "" then
        return (Stmt.mk (s.parts ++ [Part.nested { sym := Sym.Cac } inner]), "private-nested")
    pure (s, "private")
  | 0 => do let s ← genC01 { suffixes := false, maxDepth := 3, maxComps := 4 }; pure (s, "simple")
  | 1 => do let s ← genSupC02 2; pure (s, "nested")
  | 2 =>
    if (i / 5) % 3 = 2 then do
      -- a pair combination of three groups inside a nested statement (operators on two levels)
      let g : GS Stmt := do
        let outer ← genFlatParts (← liftG (range 1 2)) 1
        let inner ← genFlatParts (← liftG (range 1 2)) 0
        let t ← genGTree {} 3
        let sym ← liftG (pick (Sym.nestables.filter (fun s => !s.isProperty)))
        pure (.mk (outer ++ [.nested { sym := sym } (.mk (inner ++ [.pairs t]))]))
      let (s, _) ← g.run 0
      pure (s, "pairs-of-three-inside-nested")
    else if (i / 5) % 3 = 1 then do
      -- a nested component outside the pair braces and one of the same type closing a group:
      -- the expanded statement holds both, joined by the implicit conjunction
      let g : GS Stmt := do
        let sym ← liftG (pick (Sym.nestables.filter (fun (x : Sym) => !x.isProperty)))
        let outer ← genFlatParts (← liftG (range 1 2)) 1 [sym]
        let o1 ← genFlatParts (← liftG (range 1 2)) 0
        let gi ← genFlatParts (← liftG (range 1 2)) 0
        let g1 ← genFlatParts (← liftG (range 1 2)) 0 [sym]
        let g2 ← genFlatParts (← liftG (range 1 2)) 0 [sym]
        let op ← liftG (pick ops3)
        let outsideNested : Part ← if (← liftG (chance 1 2)) then pure (Part.nested { sym := sym } (Stmt.mk o1))
          else pure (Part.ncomb { sym := sym } (.op (← liftG (pick ops3)) (.one { sym := sym } (Stmt.mk o1)) (.one { sym := sym } (Stmt.mk (← genFlatParts 1 0)))))
        pure (Stmt.mk (outer ++ [outsideNested, Part.pairs (.op op (.grp (Stmt.mk (g1 ++ [Part.nested { sym := sym } (Stmt.mk gi)]))) (.grp (Stmt.mk g2)))]))
      let (s, _) ← g.run 0
      pure (s, "nested-outside-and-in-group")
    else do let s ← genNestedSup { depth := 1, pairs := true, nestedPairs := true, groupNested := true }; pure (s, "pairs")
  | _ => do let s ← genSupC02 3; pure (s, "nested-deep")

/-- number of rows a statement produces (product of alternatives per statement, summed over the
    statement and all its nested statements), computed without building the table -/
partial def rowsOfNode : PNode → Nat
  | .stmt _ fs => expectedRows fs + (fs.map (fun p => if Tab.isComplexField p.1 then rowsOfNode p.2 else 0)).foldl (· + ·) 0
  | .pairs _ ns => (ns.map rowsOfNode).foldl (· + ·) 0
  | .comb _ _ _ _ _ l r => rowsOfNode l + rowsOfNode r
  | _ => 0

def rowBound (s : Stmt) : Nat := rowsOfNode (denoteTop s)

def genTabFamily (tagp : String) (tier : String) (seed : Nat) (both : Bool) : Array Case := Id.run do
  let n := if tier = "thorough" then 2500 else 200
  let mut out : Array Case := #[]
  let mut rng : Rng := ⟨UInt64.ofNat (seed * 179424673 + 31)⟩
  for i in [0:n] do
    let ((s, kind), rng') := genTabStmt i rng
    rng := rng'
    -- C19 only: a nested statement whose components carry private properties (open finding:
    -- IG Core's flat text of the nested statement omits the private values)
    let (s, kind, kfExtra) :=
      if both && i % 20 = 19 then
        -- a single-valued component with a matching private property (and, every other time, a
        -- shared property as well) inside a nested statement, over every component/property pair
        let (cs, ps) := compPropPairs.getD ((i / 20) % compPropPairs.length) default
        let w := fun (t : String) => Expr.leaf (t ++ toString i).toList
        let inner : Stmt := .mk ([.ann { sym := cs, sfx := some ['1'] } true (w "officer"),
            .ann { sym := ps, sfx := some ['1'] } true (w "certified"), .ann { sym := Sym.I } true (w "reports")]
          ++ (if (i / 20) % 2 = 1 then [Part.ann { sym := ps } true (w "documented")] else []))
        ((Stmt.mk [.ann { sym := Sym.A } true (.leaf (str "regulator")), .ann { sym := Sym.I } true (.leaf (str "acts")), .nested { sym := Sym.Cac } inner]),
         "private-single-inside-nested", "C19-core-text-omits-private-properties-of-nested-statement")
      else if both && i % 10 = 9 then
        let (inner, _) := genC16Stmt false ⟨UInt64.ofNat (seed * 31 + i)⟩
        let hasPriv := !(privTextsOf (denoteLinked inner)).isEmpty
        ((Stmt.mk [.ann { sym := Sym.A } true (.leaf (str "regulator")), .ann { sym := Sym.I } true (.leaf (str "acts")), .nested { sym := Sym.Cac } inner]),
         "private-inside-nested", if hasPriv && kfC16 inner = "" then "C19-core-text-omits-private-properties-of-nested-statement" else if kfC16 inner ≠ "" then "skip" else "")
      else (s, kind, "")
    let (s, kind, kfExtra) :=
      if tagp = "c04" && i % 20 = 19 then
        let s2 := Id.run do
          let mut best : Stmt := s
          for k in [0:40] do
            let (c, _) := genC01 { suffixes := false, maxDepth := 3, maxComps := 2, nestedMulti := true } ⟨UInt64.ofNat (seed * 77 + i * 41 + k)⟩
            if hasNestedMulti c then
              best := c
              break
          pure best
        (s2, "nested-wAND", if hasNestedMulti s2 then "C04-wand-inside-combination" else "")
      else (s, kind, kfExtra)
    if kfExtra = "skip" then continue
    if rowBound s > 256 then continue
    let (id, rng'') := pickA idPoolTab rng
    rng := rng''
    let kfExtra := if kfExtra = "" && both && kind = "private-nested" then "C19-core-text-omits-private-properties-of-nested-statement" else kfExtra
    let kf := if kfExtra ≠ "" then kfExtra
      else if tagp = "c04" && wandBelowRoot s then "C04-wand-inside-combination"
      else if supported s then "" else "C02-regex-shape"
    let mk := fun (o : Tab.Opts) (sfx : String) =>
      let c := tabCase s!"{tagp}-{i}{sfx}" kind s id o
      -- every fourth statement is also exported to a file
      let c := if i % 4 = 1 then { c with args := c.args.setObjVal! "file" (true : Bool) } else c
      { c with note := Json.mkObj [("kf", (kf : Json))] }
    if both then
      out := out.push (mk { ext := true, ann := i % 3 = 0, gs := i % 5 = 0 } "x")
      out := out.push (mk { ext := false, ann := i % 3 = 0, gs := i % 5 = 0 } "c")
    else
      out := out.push (mk { ext := i % 2 = 0, ann := i % 3 = 0, gs := i % 5 = 0 } "")
  if tagp = "c06" then
    -- an ordinary nested component and a private nested property on one level, in both orders: the two
    -- registration sites of nested statements must hand out different numbers (seeded change C06-J)
    let mut j := 0
    for (cs, ps) in compPropPairs do
      for order in [true, false] do
        let innerX := Stmt.mk [.ann { sym := Sym.A } true (.leaf (str "sender")), .ann { sym := Sym.I } true (.leaf (str "sends"))]
        let innerP := Stmt.mk [.ann { sym := Sym.A } true (.leaf (str "holder")), .ann { sym := Sym.I } true (.leaf (str "holds"))]
        let nx : Part := .nested { sym := Sym.Cac } innerX
        let np : Part := .nested { sym := ps, sfx := some ['1'] } innerP
        let lead : List Part := if cs.name = str "A" then [.ann { sym := Sym.I } true (.leaf (str "acts"))]
          else [.ann { sym := Sym.A } true (.leaf (str "actor")), .ann { sym := Sym.I } true (.leaf (str "acts"))]
        let s := Stmt.mk (lead ++ (if order then [nx, np] else [np, nx]) ++ [.ann { sym := cs, sfx := some ['1'] } true (.leaf (str "office"))])
        for ext in [true, false] do
          let c := tabCase s!"c06-np{j}" "nested-beside-private-nested" s "7.a" { ext := ext }
          out := out.push { c with note := Json.mkObj [("kf", ((if supported s then "" else "C02-regex-shape") : Json))] }
          j := j + 1
    -- witness of an open finding: a suffixed operand of a nested-statement combination on a
    -- property is linked privately; the operand that stays loses its component type
    let text := "A(actor) D(must) I(act) Bdir1(obj) Bdir,p{ Bdir1,p{A(x) I(y)} [OR] Bdir,p{A(z) I(w)} } Cac{A(q) I(r)}"
    out := out.push { id := "c06-witness-1", op := "tab", args := tabArgs text "123" { ext := true }, tag := "witness",
                      note := Json.mkObj [("kf", ("C06-private-link-inside-nested-combination" : Json))] }
  pure out

end Drv
