import Driver.Rng
import IGVerif.Spec.Symbols
/-! Seeded generators of grammar statements. Every leaf text ends in a running counter so that
    values are pairwise distinct (no DUPLICATE_COMPONENT_ENTRIES, leaves identifiable). -/
namespace Drv
open IGVerif

structure GenCfg where
  maxDepth : Nat := 3
  maxComps : Nat := 6
  suffixes : Bool := false
  annos : Bool := true
  fillers : Bool := true
  shared : Bool := true
  chains : Bool := true
  optOuter : Bool := true
  /-- several combinations in one component (wAND): only directly inside the component's
      parentheses; `nestedMulti` also as operand of a combination (known-finding class) -/
  multi : Bool := true
  nestedMulti : Bool := false
  deriving Repr

def words : Array String := #["farmer","operator","must","comply","with","the","rules","annual",
  "report","organic","program","to","of","certified","handling","état","señor","x1","y2","per cent"]

def fillersA : Array String := #["and","then","the","if","or else",", ","shall;","in 2020","provided that","."]

abbrev GS := StateT Nat G   -- counter for unique texts

def fresh : GS Nat := do
  let n ← get
  set (n + 1)
  pure n

def liftG {α} (g : G α) : GS α := fun n => do let a ← g; pure (a, n)

/-- parenthesised phrases that are plain text (no logical operator inside) -/
def parenPhrases : Array String := #["(7 U.S.C. 6501)", "(on site)", "(a)", "(see part 205)", "(the Act)"]

def genText : GS Str := do
  let k ← liftG (range 1 3)
  let ws ← liftG (listOf k (pickA words))
  let n ← fresh
  pure (" ".intercalate ws ++ toString n).toList

/-- annotated text may itself contain parenthesised phrases (`Cex(under the Act (7 U.S.C. 6501))`) -/
def withParenPhrase (t : Str) : GS Str := do
  let ph := (← liftG (pickA parenPhrases)).toList
  let r ← liftG (below 3)
  if r = 0 then pure (ph ++ ' ' :: t)
  else if r = 1 then pure (t ++ ' ' :: ph)
  else
    let w := (← liftG (pickA words)).toList
    pure (w ++ ' ' :: ph ++ ' ' :: t)

/-- a component that is a single value gets a parenthesised phrase now and then -/
def decorateLeaf (e : Expr) : GS Expr := do
  match e with
  | .leaf t => if (← liftG (chance 1 5)) then pure (.leaf (← withParenPhrase t)) else pure e
  | _ => pure e

def ops3 : List Op3 := [.AND, .OR, .XOR]

partial def genExpr (cfg0 : GenCfg) (d : Nat) : GS Expr := do
  -- `cfg`: what operands may contain; `cfg0`: what this position may contain
  let cfg : GenCfg := { cfg0 with multi := cfg0.nestedMulti }
  let r ← liftG (below 100)
  if d = 0 || r < 35 then
    pure (.leaf (← genText))
  else if r < 65 then
    pure (.comb (← liftG (pick ops3)) (← genExpr cfg (d-1)) (← genExpr cfg (d-1)))
  else if r < 85 && cfg.chains then
    let o ← liftG (pick ops3)
    let e₁ ← genExpr cfg (d-1)
    let e₂ ← genExpr cfg (d-1)
    let k ← liftG (range 1 2)
    let mut es := []
    for _ in [0:k] do
      es := (← genExpr cfg (d-1)) :: es
    pure (.chain o e₁ e₂ es)
  else if cfg.shared && cfg0.multi && r < 91 then
    -- several combinations inside one component (wAND)
    let mk := fun (_ : Unit) => do pure (Expr.comb (← liftG (pick ops3)) (← genExpr cfg (d-1)) (← genExpr cfg (d-1)))
    let opt := fun (_ : Unit) => do if (← liftG (chance 2 3)) then pure (some (← genText)) else pure (none : Option Str)
    if (← liftG (chance 3 4)) then
      pure (.multi2 (← opt ()) (← mk ()) (← opt ()) (← mk ()) (← opt ()))
    else
      pure (.multi3 (← opt ()) (← mk ()) (← opt ()) (← mk ()) (← opt ()) (← mk ()) (← opt ()))
  else if cfg.shared then
    let inner := Expr.comb (← liftG (pick ops3)) (← genExpr cfg (d-1)) (← genExpr cfg (d-1))
    let k ← liftG (below 3)
    let l ← if k = 0 || k = 2 then pure (some (← genText)) else pure none
    let r ← if k = 1 || k = 2 then pure (some (← genText)) else pure none
    pure (.shared l inner r)
  else
    pure (.comb (← liftG (pick ops3)) (← genExpr cfg (d-1)) (← genExpr cfg (d-1)))

/-- parenthesised phrases inside combinations (leaf and shared texts): outside the domain on
    which the parser keeps the text (known-finding class of C01) -/
partial def decorateCombo : Expr → GS Expr
  | .leaf t => do if (← liftG (chance 1 3)) then pure (.leaf (← withParenPhrase t)) else pure (.leaf t)
  | .comb o l r => do pure (.comb o (← decorateCombo l) (← decorateCombo r))
  | .chain o a b es => do
    let a' ← decorateCombo a
    let b' ← decorateCombo b
    let mut es' := []
    for e in es do es' := es' ++ [← decorateCombo e]
    pure (.chain o a' b' es')
  | .shared l e r => do
    let l' ← match l with | some t => (do if (← liftG (chance 1 2)) then pure (some (← withParenPhrase t)) else pure (some t)) | none => pure none
    let r' ← match r with | some t => (do if (← liftG (chance 1 2)) then pure (some (← withParenPhrase t)) else pure (some t)) | none => pure none
    pure (.shared l' (← decorateCombo e) r')
  | .multi2 l a m b r => do pure (.multi2 l (← decorateCombo a) m (← decorateCombo b) r)
  | .multi3 l a m b n c r => do pure (.multi3 l (← decorateCombo a) m (← decorateCombo b) n (← decorateCombo c) r)

def decorateStmtCombos (s : Stmt) : G Stmt := do
  let g : GS (List Part) := s.parts.mapM fun p => match p with
    | .ann h outer e => do pure (.ann h outer (← decorateCombo e))
    | q => pure q
  let (ps, _) ← g.run 0
  pure (.mk ps)

def genHdr (cfg : GenCfg) (sym : Sym) : GS Hdr := do
  let anno ← if cfg.annos then liftG (pick [none, none, some "type=x", some "role=a,b", some "ctx=état"]) else pure none
  -- C01 domain: a suffix must not match a property; properties carry none here and Cex (the
  -- "property" of I) carries none either
  let sfx ← if cfg.suffixes && !sym.isProperty && sym.name ≠ str "Cex" then liftG (pick [none, none, some "1", some "2", some "7"]) else pure none
  pure { sym := sym, sfx := sfx.map String.toList, anno := anno.map String.toList }

def genFiller : GS Part := do
  pure (.filler (← liftG (pickA fillersA)).toList)

/-- C01 statements: a multiset of parenthesised components with fillers in between -/
def genSimpleParts (cfg : GenCfg) (syms : List Sym) (k : Nat) : GS (List Part) := do
  let mut parts : List Part := []
  for _ in [0:k] do
    let sym ← liftG (pick syms)
    let d ← liftG (range 0 cfg.maxDepth)
    let e ← decorateLeaf (← genExpr cfg d)
    let h ← genHdr cfg sym
    if cfg.fillers && (← liftG (chance 1 2)) then
      parts := (← genFiller) :: parts
    let outer ← if cfg.optOuter then liftG (chance 1 2) else pure true
    -- a `shared` expression directly inside the component parentheses is written without
    -- its own parentheses (the component's parentheses delimit the shared text)
    let outer := match e with | .shared .. => false | .multi2 .. => false | .multi3 .. => false | _ => outer
    parts := .ann h outer e :: parts
  if cfg.fillers && (← liftG (chance 1 3)) then
    parts := (← genFiller) :: parts
  pure parts.reverse

def genC01 (cfg : GenCfg) : G Stmt := do
  let k ← range 1 cfg.maxComps
  let (ps, _) ← (genSimpleParts cfg Sym.simples k).run 0
  pure (.mk ps)

end Drv

namespace Drv
open IGVerif

structure NestCfg where
  depth : Nat := 2
  pairs : Bool := false
  combos : Bool := true
  nestedAnn : Bool := true
  maxSimple : Nat := 4
  exprDepth : Nat := 2
  propCombos : Bool := false     -- nested-statement combinations on property symbols (L7)
  nestedPairs : Bool := false    -- a component-pair combination inside a nested statement
  groupNested : Bool := false    -- a nested component as last part of a pair group
  deriving Repr

def distinctSyms (k : Nat) (pool : List Sym) : GS (List Sym) := do
  let sh ← liftG (shuffle pool)
  pure (sh.take k)

mutual
partial def genStmtN (cfg : NestCfg) (depth : Nat) (allowPairs : Bool) (nsimple : Option Nat) : GS Stmt := do
  let k ← match nsimple with | some k => pure k | none => liftG (range 1 cfg.maxSimple)
  let syms ← distinctSyms k Sym.simples
  let mut parts : List Part := []
  for sym in syms do
    let d ← liftG (range 0 cfg.exprDepth)
    let e ← decorateLeaf (← genExpr { shared := false, chains := true } d)
    parts := .ann { sym := sym } true e :: parts
  if depth > 0 then
    let m ← liftG (range 0 2)
    for _ in [0:m] do
      let sym ← liftG (pick Sym.nestables)
      let r ← liftG (below 100)
      if r < 60 || !cfg.combos then
        let anno ← if cfg.nestedAnn then liftG (pick [none, none, some "ctx=y"]) else pure none
        let inner ← genStmtN cfg (depth - 1) (cfg.nestedPairs && (← liftG (chance 1 2))) none
        parts := .nested { sym := sym, anno := anno.map String.toList } inner :: parts
      else if !sym.isProperty || cfg.propCombos then
        let n ← liftG (range 2 3)
        let t ← genNTree cfg sym (depth - 1) n
        parts := .ncomb { sym := sym } t :: parts
  if allowPairs && cfg.pairs then
    let n ← liftG (range 2 3)
    parts := .pairs (← genGTree cfg n) :: parts
  let shuffled ← liftG (shuffle parts)
  -- fillers
  let mut out : List Part := []
  for p in shuffled do
    if (← liftG (chance 3 10)) then
      out := (← genFiller) :: out
    out := p :: out
  pure (.mk out.reverse)
partial def genNTree (cfg : NestCfg) (sym : Sym) (depth : Nat) (n : Nat) : GS NTree := do
  if n ≤ 1 then
    let k ← liftG (range 1 2)
    pure (.one { sym := sym } (← genStmtN cfg depth false (some k)))
  else
    let k ← liftG (range 1 (n - 1))
    pure (.op (← liftG (pick ops3)) (← genNTree cfg sym depth k) (← genNTree cfg sym depth (n - k)))
partial def genGTree (cfg : NestCfg) (n : Nat) : GS GTree := do
  if n ≤ 1 then
    let k ← liftG (range 1 3)
    let syms ← distinctSyms k Sym.simples
    let mut parts : List Part := []
    for sym in syms do
      let d ← liftG (range 0 (min 1 cfg.exprDepth))
      let e ← decorateLeaf (← genExpr { shared := false, chains := false } d)
      parts := .ann { sym := sym } true e :: parts
    -- now and then a nested component closes the group
    if cfg.groupNested && (← liftG (chance 1 3)) then
      let nsym ← liftG (pick (Sym.nestables.filter (fun (x : Sym) => !x.isProperty)))
      let k2 ← liftG (range 1 2)
      let isyms ← distinctSyms k2 Sym.simples
      let inner := isyms.map fun (y : Sym) => Part.ann { sym := y } true (.leaf (y.name ++ str " inner value"))
      parts := Part.nested { sym := nsym } (.mk inner) :: parts
    pure (.grp (.mk parts.reverse))
  else
    let k ← liftG (range 1 (n - 1))
    pure (.op (← liftG (pick ops3)) (← genGTree cfg k) (← genGTree cfg (n - k)))
end

def genNested (cfg : NestCfg) : G Stmt := do
  let (s, _) ← (genStmtN cfg cfg.depth cfg.pairs none).run 0
  pure s

end Drv

namespace Drv
open IGVerif

def genFlatParts (n : Nat) (exprDepth : Nat) (avoid : List Sym := []) : GS (List Part) := do
  let syms ← distinctSyms n (Sym.simples.filter (fun s => !avoid.contains s))
  let mut parts : List Part := []
  for sym in syms do
    let d ← liftG (range 0 exprDepth)
    -- with room for combinations, shared text and several combinations in one component
    -- (wAND) occur inside nested statements as well
    let e ← decorateLeaf (← genExpr { shared := decide (exprDepth ≥ 2), chains := true } d)
    if (← liftG (chance 3 10)) then parts := (← genFiller) :: parts
    let outer := match e with | .shared .. => false | .multi2 .. => false | .multi3 .. => false | _ => true
    parts := .ann { sym := sym } outer e :: parts
  pure parts.reverse

/-- inner statement of a supported nested statement -/
partial def genSupNested (depth : Nat) : GS Stmt := do
  let k ← liftG (range 1 3)
  let mut parts ← genFlatParts k 2
  if depth > 0 then
    let m ← liftG (range 0 2)
    let syms ← distinctSyms m Sym.nestables
    for sym in syms do
      let anno ← liftG (pick [none, none, some "ctx=y"])
      let inner ← genSupNested (depth - 1)
      parts := parts ++ [.nested { sym := sym, anno := anno.map String.toList } inner]
  let sh ← liftG (shuffle parts)
  pure (.mk sh)

def genSupOperand : GS Stmt := do
  let k ← liftG (range 1 3)
  let parts ← genFlatParts k 1
  if (← liftG (chance 1 3)) then
    let sym ← liftG (pick Sym.nestables)
    let inner ← genFlatParts (← liftG (range 1 2)) 1
    pure (.mk (parts ++ [.nested { sym := sym } (.mk inner)]))
  else pure (.mk parts)

partial def genSupNTree (sym : Sym) (n : Nat) : GS NTree := do
  if n ≤ 1 then
    let anno ← liftG (pick [none, none, none, some "ctx=z", some "k=v,prop=w"])
    pure (.one { sym := sym, anno := anno.map String.toList } (← genSupOperand))
  else
    let k ← liftG (range 1 (n - 1))
    pure (.op (← liftG (pick ops3)) (← genSupNTree sym k) (← genSupNTree sym (n - k)))

partial def ntSetSfx : NTree → Option Str → NTree
  | .one h s, sfx => .one { h with sfx := sfx } s
  | .op o l r, sfx => .op o (ntSetSfx l sfx) (ntSetSfx r sfx)

/-- supported statements with nesting (C02) -/
def genSupC02 (depth : Nat) : G Stmt := do
  let g : GS Stmt := do
    let k ← liftG (range 1 4)
    let mut parts ← genFlatParts k 2
    let variant ← liftG (below 10)
    if variant < 2 then
      -- two operator-free nested statements of one symbol, optionally with a written operator
      let sym ← liftG (pick Sym.nestables)
      let a ← genFlatParts (← liftG (range 1 2)) 0
      let b ← genFlatParts (← liftG (range 1 2)) 0
      let opw ← liftG (pick [none, some "[AND]", some "[OR]", some "[XOR]"])
      let mid : List Part := match opw with | some w => [.filler w.toList] | none => []
      pure (.mk (parts ++ [.nested { sym := sym } (.mk a)] ++ mid ++ [.nested { sym := sym } (.mk b)]))
    else
      let m ← liftG (range 1 2)
      let syms ← distinctSyms m Sym.nestables
      for sym in syms do
        if (← liftG (chance 1 2)) then
          -- the annotation may itself contain the property marker ",p" (`[ref=1,part=2]`)
          let anno ← liftG (pick [none, none, some "ctx=y", some "ref=1,part=2"])
          -- distinct suffixes, so that no property matches a component (that is C16's subject)
          let sfx ← liftG (pick [none, none, none, some (toString (parts.length + 1))])
          let inner ← genSupNested (depth - 1)
          parts := parts ++ [.nested { sym := sym, anno := anno.map String.toList, sfx := sfx.map String.toList } inner]
        else
          let n ← liftG (range 2 4)
          -- every third combination carries a suffix (and sometimes an annotation) on the
          -- nesting component and on its operands; the suffix matches no component
          let withSfx ← liftG (chance 1 3)
          let sfx : Option Str := if withSfx then some (toString (7 + parts.length)).toList else none
          let anno ← liftG (pick [none, none, some "kind=combo"])
          let t ← genSupNTree sym n
          let t := if withSfx then ntSetSfx t sfx else t
          parts := parts ++ [.ncomb { sym := sym, sfx := sfx, anno := if withSfx then anno.map String.toList else none } t]
      let sh ← liftG (shuffle parts)
      pure (.mk sh)
  let (s, _) ← g.run 0
  pure s

end Drv
