"""Per-property settings used by bin/check and bin/mkmanifest: what the theorems state, what the
correspondence explores and how both are described in MANIFEST.json and in the evidence.
The generators and judges themselves live in lean/Driver; the theorems in lean/IGVerif/Props."""

PARSE_RULE = ("statements generated from the Lean grammar AST (Driver/GenStmt.lean): the driver renders each AST to "
              "IG Script text and evaluates the specification's meaning (`denoteTop`/`denoteLinked`); the harness runs "
              "parser.ParseStatement on the same text in a worker process; the driver compares canonical trees node by node. "
              "A case is non-trivial when its op+arguments differ from every earlier case of the run and its tag is not a smoke tag")
TAB_RULE = ("statements from the grammar AST (simple, combined, nested, pair-expanded) x option sets (IG Extended/Core, annotations, "
            "output type); the model's `Tab.exportAll` + `TabPrint.output` must equal the implementation's table byte for byte, and "
            "independent table oracles (Driver/TabOracle.lean) re-derive rows, linkage cells and id resolution from the parsed tree "
            "and judge the implementation's table directly; for statements of the supported class the table must in addition equal the "
            "model's table of the documented meaning (`denoteLinked`), so that a mis-parse cannot hide behind a faithful export; every fourth "
            "table is also exported to a file that already holds a longer stale export. Non-trivial: distinct op+arguments")
VIS_RULE = ("statements from the grammar AST x all 32 combinations of the five display options; the model's `Vis.visTop` serialised by "
            "`Json.ser` must equal PrintTree's output byte for byte (model evaluated on the implementation's own parse and, for the supported "
            "class, on the documented meaning), and the output must parse as JSON. Non-trivial: distinct op+arguments")
WEB_RULE = ("form submissions generated from the field/option tables (every checkbox, selector, URL parameter, valid and invalid "
            "values) posted in-process to the real handlers; the page is reduced to (status, embedded output, echoed fields, error code, "
            "raw occurrences of user text) and compared with `Web.decode` applied to the same request plus the core conversion's output")

T_PARSER = "the statement-level parser (regular expressions, bracket matching) is not modelled: it is specified by `denote` on the grammar AST and tied by differential execution over generated ASTs"
T_TABULAR = "the tabular exporter is modelled by hand (`Tab.stmtRows`, static-header mode) and tied by byte-exact differential execution"
T_VISUAL = "the visual printer is modelled by hand (`Vis.nodeJ` etc.) and tied by byte-exact differential execution over all 32 option sets"

PROPS = {
    "C01": {
        "claim": "partial proof: (1) the combination parser (ParseIntoNodeTree / detectCombinations / extractSharedComponents) is modelled in Lean (Model/Combo.lean) and tied to the Go code by a correspondence stream (token strings, all strings over a 6-token alphabet up to length 5/6, rendered and mutated expressions, both bracket kinds, panics included); for that model the round trip is proved for every input of the following documented forms, at any nesting depth and for all values free of parentheses/brackets: fully parenthesised binary combinations over [AND]/[OR]/[XOR] (`combination_parser_round_trip`), same-operator chains of such operands, parsed by the re-bracketing rewrite into the left-nested tree (`combination_parser_chain`), shared text left/right of an inner combination (`combination_parser_shared_text`) and two combinations in one component joined by wAND with the text between them shared (`combination_parser_two_combinations`): the parser returns exactly the tree the notation denotes and no error; (2) the documented meaning (`denote`) is proved to keep exactly the annotated texts in source order as leaves for every component content, to associate chains to the left, to bind parentheses as written, to place outside text on the inner combination and to join separate annotations by the implicit conjunction; (3) the component/field wiring tables are regenerated from source and proved equal to the specification's symbol table. and for chains anywhere - any parenthesised group at any depth may be a chain of one operator - the parser is proved to rewrite once per additional operand, always at the first repeated operator in reading order, and to return the tree with every chain nested to the left (`combination_parser_chains_anywhere`). the two attempts of parseComponent on a content whose outer parentheses are missing (`component_content_without_outer_parentheses`: first attempt = operator outside combination, second attempt in parentheses = the written tree) and shared text written directly inside the component's parentheses (`shared_text_directly_inside_component`) are proved as well. shared text around a group that holds chains is covered too (`shared_text_around_chains`, by normalisation inside a context: `detect_norm_ctx`). two groups with chains in one component likewise (`two_groups_with_chains`); and for the grammar AST of the specification itself: for every `Expr` built from values, binary combinations and chains nested in any way, parse (render e) = denote e at the level of the combination parser (`combination_parser_round_trip_expr`). Not proved: three and more combinations in one component at the parser level, and the regex-driven extraction of components from a statement (parse (render s) = denote s for whole statements) - these are decided by the correspondence run over generated grammar ASTs; one open known finding",
        "note": T_PARSER,
        "rule": PARSE_RULE,
        "assumptions": ["Go regexp/strings behave as documented", "texts are drawn from the word/punctuation alphabets of DESIGN.md section 3"],
        "design_ref": "DESIGN.md section 4 C01, section 9",
    },
    "C02": {
        "claim": "partial proof: the combination parser in brace mode (ParseIntoNodeTree with braces, as called by parseNestedStatementCombination) is modelled (Model/Combo.lean) and tied to the code by the brace part of the combo correspondence stream; for the model it is proved that a braced operator tree of any depth over nested statements `Sym{...}` (balanced parentheses, brackets only inside parentheses) is parsed into exactly the written tree with one leaf per nested statement - operators inside a component are not taken for statement-level operators - with and without the component symbol in front (`nested_combination_parser_round_trip`, `nested_combination_parser_with_symbol`), and chains of nested statements at any depth are re-bracketed to the left-nested tree (`nested_combination_chains`, `nested_combination_chains_with_symbol`); the identification of the component type of a combination of nested statements and of each of its operands (parser.extractComponentType, no regular expression, called by parseNestedStatementCombination) is modelled too (Model/Header.lean, tied through the hook VerifExtractComponentType by the `ctype` stream: every table symbol x suffix x secondary suffix x annotation, plus fragment strings) and proved for every symbol of the regenerated table, every digit string as primary and secondary suffix and every annotation - which may itself contain symbols or the property marker - to return exactly the written type and property flag (`nested_header_type`, `nested_property_header_type`; the table tie is `component_symbol_table`); further theorems fix the specification of nesting (a nested statement is denoted by the same `denoteS` as a top-level one, attached under its symbol's complex field, conjoined or joined by the single written operator; combinations yield the written operator tree) and the regenerated nested-wiring table is proved equal to the specification's; agreement of parser.ParseStatement with that specification is decided by correspondence over generated nested ASTs to depth 3. Statement shapes outside the regex classifier's domain are an open known finding (C02-regex-shape)",
        "note": T_PARSER + "; the `supported` predicate (Spec/Shape.lean) delimits the shapes on which agreement is demanded; failures outside it are reported as KNOWN-FINDING",
        "rule": PARSE_RULE + "; generators produce both `supported` shapes (agreement demanded) and unsupported shapes (known-finding class)",
        "assumptions": ["Go regexp/strings behave as documented"],
        "design_ref": "DESIGN.md section 4 C02, section 9",
    },
    "C03": {
        "claim": "partial proof: the specification of pair expansion is proved complete and exclusive - field by field an expanded statement holds the group's value, the value written outside the braces, or both joined by the implicit conjunction (group first), and nothing else (`expanded_statement_fields`); statements are linked by exactly the written operator tree; the same expansion applies inside nested statements (root carries the component's header); the regenerated copy wiring (every field into the same field, target first, bAND) is proved equal to `mergeStmt`; agreement of the parser with the specification is decided by correspondence over generated pair ASTs (top level, inside nested statements, groups closed by a nested component), and the tables of expanded statements (also exported to a file) are checked against model and oracles",
        "note": T_PARSER,
        "rule": PARSE_RULE,
        "assumptions": ["Go regexp/strings behave as documented"],
        "extra_ns": ["IGVerif.Ties"],
        "design_ref": "DESIGN.md section 4 C03, section 9",
    },
    "C04": {
        "claim": "proof: the code-shaped odometer model is proved, for all lists of alternatives of any size, to emit exactly the Cartesian product in lexicographic order (no row twice, none missing, count = product, singletons constant, termination within `count`), and the table model is proved to produce one own row per permutation, i.e. as many atomic statements as there are ways of choosing one alternative per component column, in every mode (`table_rows_card`); leaf-array order proved a permutation of the 27 fields from regenerated facts. Tied by the odometer op on random dimension vectors and byte-exact tables; two spec-level oracles on the implementation's table (row count = product of choices; every row shows one complete alternative of components with several combinations); one open known finding",
        "note": T_TABULAR + "; the odometer itself is exercised in isolation through a build-tag hook",
        "rule": TAB_RULE + "; plus `odo` cases: random dimension vectors (0-5 components, 1-4 alternatives) run through the real loop via the verif hook and compared with `Odo.generate`",
        "assumptions": ["row blow-up bounded by generator (at most 256 rows per statement)"],
        "extra_ns": ["IGVerif.Ties"],
        "design_ref": "DESIGN.md section 4 C04, section 9",
    },
    "C05": {
        "claim": "proof: the linkage search (searchDownward/searchUpward with all their redundant probes, modelled code-shaped) is proved for every tree, every depth and every pair of nodes to succeed and to return exactly the operators on the tree path - bottom-up from the source to below the lowest common ancestor, the ancestor's operator, top-down to the target - and hence to be mutual with the operator list reversed (`find_spec`, `find_mutual`); operator collapsing is proved to return a sublist that keeps the first and every non-conjunction operator; range compression of the row references is proved lossless. The model (`Link.find`, cell layout) is tied byte for byte; an independent oracle checks mutuality, mirrored operators and that every named row exists on the implementation's table",
        "note": T_TABULAR,
        "rule": TAB_RULE,
        "assumptions": [],
        "extra_ns": ["IGVerif.Ties"],
        "design_ref": "DESIGN.md section 4 C05, section 9",
    },
    "C06": {
        "claim": "proof: in the table model the Statement ID column of a statement's atomic statements is proved to be id.1 ... id.n (plain id for a single one) for every statement, mode and option - no component, property, annotation or reference cell overwrites it - and these ids are proved pairwise different; nested groups get {id}.k with k injective, a row id never equals a group id, the registry hands out the next number to a new node and the old id to a known one; range compression of references is proved lossless (`decode (build ids) = ids+1`). That every id mentioned in reference and linkage cells denotes a row or group of the same table, that every nested group is referenced and every cell sits in a header column is decided on the implementation's tables by oracles and byte-exact model agreement; one open known finding",
        "note": T_TABULAR,
        "rule": TAB_RULE,
        "assumptions": ["user-supplied statement ids in generated cases consist of letters, digits and dots"],
        "design_ref": "DESIGN.md section 4 C06, section 9",
    },
    "C07": {
        "claim": "proof: for every string, `cleanInput` output contains no line break and no separator, `escape`/`adjust` output contains no double quote (theorems over all strings); regenerated facts prove that every write into the statement matrix and every user-text argument of the printer passes through those sanitisers; rectangularity and header/data consistency are decided on the implementation's output by a table parser oracle over hostile inputs (separators, quotes, CR/LF, leading apostrophes) and by byte-exact agreement with `TabPrint.output`",
        "note": T_TABULAR + "; Go's strings.Replace/regexp are trusted to behave as the character-level model",
        "rule": "hostile texts (cell separator, double quote, CR, LF, CRLF, leading apostrophe, brackets, unicode) planted in statement text, annotations, original statement, statement id, x output type x header/original/IG-Script column options; the printed table is parsed by the driver's own splitter and judged (cells per line = header, forbidden characters absent, SPLIT formula complete, optional columns as selected) and compared byte for byte with `TabPrint.output`",
        "assumptions": [],
        "design_ref": "DESIGN.md section 4 C07, section 9",
    },
    "C08": {
        "claim": "proof: the serialiser `Json.ser` is proved, for every JNode tree (any size, any strings), to produce a member of an inductively defined RFC 8259 grammar (`ValidJSON`), and `escape` is proved to map every string into the JSON string-body grammar; the visual model `Vis.visTop` is proved to produce only well-formed JNodes for every parsed tree and all 32 option sets, hence valid JSON; regenerated facts prove every dynamic text site of the Go printer passes through escapeForTreeOutput; the model is tied to PrintTree byte for byte",
        "note": T_VISUAL,
        "rule": VIS_RULE + "; hostile characters (quotes, backslashes, control characters, unicode) planted in every text position",
        "assumptions": ["the successful-output path of ConvertIGScriptToVisualTree is PrintTree's string unchanged (fact-checked endpoint arguments)"],
        "design_ref": "DESIGN.md section 4 C08, section 9",
    },
    "C09": {
        "claim": "partial proof: for a component tree of any shape and every option set the visual model is proved to emit exactly one value object per leaf, in written order, named by the leaf's text framed by its inherited shared text, labelled with its component and level (`values_shown_are_the_tree_values`); regenerated facts prove that PrintTree prints every statement field (directly or as property of a printed one) in the model's order, passes the display options through every recursive call unchanged, and prints nested and pair statements one level deeper; operators, properties, annotations and nested statements are decided by byte-exact agreement of PrintTree's output with the model evaluated on the implementation's own parse tree",
        "note": T_VISUAL,
        "rule": VIS_RULE,
        "assumptions": [],
        "extra_ns": ["IGVerif.Ties"],
        "design_ref": "DESIGN.md section 4 C09, section 9",
    },
    "C10": {
        "claim": "partial proof: a theorem about a model cannot exhibit a Go panic, os.Exit or a runaway regular expression; what is proved is termination of the one data-dependent loop of the export (odometer ends within `count` emissions) and totality of every model function (Lean's termination checker). Panics, process exits and hangs of the real code are decided by running hostile and large generated inputs through both conversions in isolated worker processes with crash attribution and a per-case time limit",
        "note": "runtime behaviour (panic, exit, regex backtracking time) is outside the model; time limits are wall-clock on this machine",
        "rule": "inputs: random bytes, bracket soups, truncated and mutated well-formed statements, deep nesting, long operator chains, practical-size statements (up to 40 components) x both conversions x option sets; each case runs in a worker process; outcome is returned/exit/panic/timeout; a well-formed statement must finish within the per-case limit",
        "assumptions": ["per-case time limit 20 s (quick) stands for 'within seconds' on a 16-core sandbox under load"],
        "extra_ns": ["IGVerif.C04"],
        "extra_imports": ["IGVerif.Props.C04"],
        "design_ref": "DESIGN.md section 4 C10, section 9",
    },
    "C11": {
        "claim": "partial proof: the balance check that runs before parsing is modelled (`Validate.validate`) and proved to accept a text iff it contains as many opening as closing parentheses (braces) - tied to `validateInput` by differential execution on token strings and mutated statements; the error codes of the documented rules are regenerated from source and proved pairwise different and equal to the codes the judge expects; the other rules are regex/bracket-matching code outside the model and are decided by correspondence: each rule violation is planted at every applicable site of generated well-formed statements (top level, nested, inside pair groups), both conversions must return that code and no output, well-formed statements must be accepted, and both conversions must agree. Two rule/site combinations are open known findings",
        "note": T_PARSER,
        "rule": "well-formed ASTs from the grammar generators; for each documented rule a planting function produces the malformed text at each applicable site; expected = (specific error code, empty output) for both ConvertIGScriptToTabularOutput and ConvertIGScriptToVisualTree; plus unplanted well-formed statements expecting acceptance",
        "assumptions": [],
        "design_ref": "DESIGN.md section 4 C11, section 9",
    },
    "C12": {
        "claim": "partial proof: the model's conversions are functions (determinism by rfl); the only sources of run-to-run variation in the Go code are map iteration and shared mutable nodes; the complete list of map-range sites of the parser, tree and exporter packages is regenerated from source and proved equal to the reviewed list (each reviewed as order-insensitive), so a new or changed site breaks the obligation; byte-identical output across 5 repetitions in one process and 3 separately started processes is decided on generated statements for both conversions",
        "note": "Go map iteration randomisation is exercised, not modelled",
        "rule": "generated statements (all families) x both conversions x option sets, each converted 5 times in one process and in 3 fresh processes; all outputs and error codes must be byte-identical",
        "assumptions": [],
        "case_timeout": "180s",
        "design_ref": "DESIGN.md section 4 C12, section 9",
    },
    "C13": {
        "claim": "proof: the request-processing state machine (handler = fixed sequence of setter writes covering every global the conversion reads, then conversion) is proved history independent for every sequence of earlier requests: the response equals a fresh system's; the premises (which globals each endpoint reads, which setters each handler calls, with which request fields) are regenerated from source by SSA analysis and proved to satisfy the `covered` hypothesis; tied by replaying random request histories against the real handlers and a fresh process",
        "note": "globals reached only through reflection or cgo would escape the SSA read/write sets (none present); html/template and net/http are not modelled",
        "rule": "random histories of 1-8 requests (tabular/visual, random options, valid and invalid statements) posted in one process, then a probe request; the probe's page must equal the page a freshly started process returns",
        "assumptions": [],
        "design_ref": "DESIGN.md section 4 C13, section 9",
    },
    "C14": {
        "claim": "proof: in the interleaving model of the handlers (program counters over setter writes and conversion, one global store, a lock) every schedule of any number of requests is proved to give each request the response it gets alone, provided the lock brackets all global accesses; the bracket is regenerated from source (Lock at statement 52, deferred Unlock at 53, every global access later) and proved; without the lock the model has a concrete leaking interleaving (theorem), which is the defect repaired in /repo; tied by a controlled scheduler driving the real handlers through yield hooks",
        "note": "the Go memory model and sync.Mutex are trusted; yields are placed at the hook points between setter writes and conversion",
        "rule": "pairs and triples of requests with conflicting options; the driver enumerates interleavings feasible under the lock discipline; the harness forces each schedule on the real handlers via verifYield hooks; every response must equal the response alone",
        "assumptions": [],
        "case_timeout": "60s",
        "design_ref": "DESIGN.md section 4 C14, section 9",
    },
    "C15": {
        "claim": "proof: `Web.decode` (form -> conversion call) is proved to hand every checkbox, selector and URL parameter to the option it names, to echo statement/original/id unchanged, and to make no conversion call for invalid canvas sizes; the decode table (form field -> setter -> endpoint argument) is regenerated from the handlers' source and proved equal to the model's; tied by posting generated forms to the real handlers and comparing the page's embedded output with the core conversion called directly",
        "note": "html/template escaping is trusted and additionally checked on every generated page (no raw occurrence of user text)",
        "rule": WEB_RULE,
        "assumptions": [],
        "design_ref": "DESIGN.md section 4 C15, section 9",
    },
    "C16": {
        "claim": "partial proof: the pairing of components with their property fields is regenerated from source and proved equal to the specification's; withdrawal is proved exact for every tree and every set of paths - the remaining shared tree holds exactly the leaves at the paths that were not matched, in order (`shared_tree_keeps_exactly_the_unmatched`); attaching changes nothing but the private lists, a value receives exactly the nodes listed for its own path, no matching suffix leaves the statement unchanged, the private value keeps its component type; agreement of the parser with `denoteLinked` and of both exports with their models is decided by correspondence; one open known finding (delimited: only retained shared copies are accepted)",
        "note": T_PARSER,
        "rule": PARSE_RULE + "; statements carry suffixed and unsuffixed properties and annotations on combined components",
        "assumptions": [],
        "extra_ns": ["IGVerif.Ties"],
        "design_ref": "DESIGN.md section 4 C16, section 9",
    },
    "C17": {
        "claim": "proof (values and binary mode) + correspondence: the (component, value text, level) entries of a component are proved identical under every combination of display options (`entries_do_not_depend_on_options`); in binary mode every operator is proved to be printed as one object of its own with at most two children and nothing is spliced; moving activation conditions first is proved a permutation of the printed fields that keeps the order of all others; annotation members are proved present exactly when selected; collapsing only of directly nested identical operators, DoV members and the entries of properties / nested statements are decided by reading each of the 32 outputs back (group oracle) and by byte-exact agreement with the model",
        "note": T_VISUAL,
        "rule": VIS_RULE + "; the 32 outputs of one statement form a group whose entry multisets must coincide",
        "assumptions": [],
        "design_ref": "DESIGN.md section 4 C17, section 9",
    },
    "C18": {
        "claim": "proof: for every statement and every position, (1) inserting, changing or removing unannotated text does not change the specification's meaning (unless it spells a bracketed operator between nested statements), and (2) swapping two adjacent parts that do not fill the same statement field does not change it either - every reordering that keeps the relative order of annotations of one component type is a sequence of such swaps (`denote_insert_filler`, `reorder_adjacent`); that the parser and both exports behave like the specification is decided by correspondence on generated variants (permutations, refilling inside and outside braces, whitespace around operators); two open known findings",
        "note": T_PARSER,
        "rule": "for each generated statement: variants by permuting parts of different symbols and by inserting/changing/removing filler words and punctuation; parse tree and both exports must be identical to the original's",
        "assumptions": [],
        "design_ref": "DESIGN.md section 4 C18, section 9",
    },
    "C19": {
        "claim": "proof: in the table model IG Core never registers a nested statement and `stmtRows` returns exactly the statement's own atomic statements (`core_adds_no_rows`, for every statement, nesting depth and option), both modes begin with the same number of own rows and IG Extended appends the nested row groups after them; the sites reading the switch are regenerated from source; that non-reference cells coincide, every id has its row group and IG Core's text contains every value is decided by an oracle comparing both tables of each generated statement, and by byte-exact agreement with the model in both modes; one open known finding",
        "note": T_TABULAR,
        "rule": TAB_RULE + "; each statement is exported in both modes and the pair is judged",
        "assumptions": [],
        "design_ref": "DESIGN.md section 4 C19, section 9",
    },
    "C20": {
        "claim": "proof: the DoV model is proved to satisfy the documented recurrence for every tree (1 for a leaf; l+r-1 for AND/bAND/wAND; l+r for XOR; l+r+1 for OR; nested statement = its own total; total = max(1, sum of component values > 1) x max(1, condition value)); the bindings of CalculateComplexity (which field feeds which term, the node cases, the helper loops) are regenerated from source and proved equal to the model's; tied by comparing every DoV member of the visual output with the model",
        "note": "integer overflow is not modelled (Nat); values stay far below 2^63 on practical inputs",
        "rule": VIS_RULE + " with Degree of Variability enabled; every node's DoV member is compared",
        "assumptions": [],
        "extra_ns": ["IGVerif.Ties"],
        "design_ref": "DESIGN.md section 4 C20, section 9",
    },
}

for _k, _v in PROPS.items():
    _v.setdefault("level", "proof")

HOOK_COMMITS = ["426229bdb2bf7a700b84f76af23efa1d02624075", "433afbd6367bfa00c9101a4e7f7b903252a76025"]
NOT_APPLICABLE = {}
