"""Per-property settings used by bin/check (what the correspondence explores and how it is
described in the evidence). The generators and judges themselves live in lean/Driver."""

PARSE_RULE = ("statements generated from the Lean grammar AST (Driver/GenStmt.lean): the driver renders each AST to "
              "IG Script text and evaluates the model's meaning (`denote`), the harness runs parser.ParseStatement "
              "on the same text, the driver compares canonical trees; a case is non-trivial when op+arguments are "
              "distinct from every earlier case")

PROPS = {
    "C01": {
        "level": "proof",
        "rule": PARSE_RULE,
        "assumptions": ["Go regexp/strings behave as documented", "texts are drawn from the word/punctuation alphabets of DESIGN.md section 3"],
    },
}
